#!/bin/sh
# Side checks with Apalache (unbounded; not part of any registered command).  Exit 0 iff every lemma holds and every
# negative control is refuted.  Scratch under a temporary directory, removed afterwards.
set -u
here=$(cd "$(dirname "$0")/.." && pwd)
t=$(mktemp -d /tmp/apa.XXXXXX); trap 'rm -rf "$t"' EXIT
cp "$here"/spec/apalache/*.tla "$t"/; cd "$t" || exit 2
bad=0
run() { # module init inv length expect(OK|Error)
  out=$(timeout -k 10 600 apalache-mc check --init=$2 --inv=$3 --length=$4 $1.tla 2>&1)
  if echo "$out" | grep -q "The outcome is: NoError"; then got=OK; elif echo "$out" | grep -q "invariant 0 violated"; then got=Error; else got=TOOL; fi
  echo "$1 $3 (init $2, length $4): $got (expected $5)"
  [ "$got" = "$5" ] || bad=1
}
run IvPiv Init IvPivExclusive 0 OK
run IvPiv IndInit IvPivExclusive 1 OK
run LabelOrderAll Init All 0 OK
for c in CtlReach1 CtlReach2 CtlWrongNeg CtlNumeric; do run LabelOrderAll Init $c 0 Error; done
exit $bad

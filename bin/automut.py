#!/usr/bin/env python3
"""automut.py [--workers N] [--limit K] [--files a,b,..]
Systematic gap search: syntactic one-token mutants of /repo/src (no tests, no IANA tables), each tried in a scratch worktree:
  1. it must compile and keep the crate's own 117 + 1 tests green (otherwise the repository's suite already deals with it);
  2. the quick checks of the properties that module serves are run against it, most likely first, until one reports;
  3. if none reports, all twenty are run.
Results go to /verif/automut/results.jsonl (one line per surviving mutant: file, line, before/after, which check reported it, or
"uncaught"); uncaught ones are either equivalent mutants or gaps -- they are read by hand (DESIGN.md section 18).
Scratch lives under /tmp/am and is removed at the end.  Nothing is ever applied to /repo."""
import json, os, re, shutil, subprocess, sys, threading, time, hashlib

ROOT = "/verif"
OUT = ROOT + "/automut"
WORK = "/tmp/am"
ALL = ["C%02d" % i for i in range(1, 21)]
PROPS = {
    "common": ["C16", "C13", "C14", "C20", "C07", "C12", "C01", "C17"],
    "header": ["C08", "C12", "C11", "C02", "C03", "C19", "C07", "C09"],
    "sign": ["C09", "C03", "C06", "C11", "C02", "C14", "C01", "C19"],
    "mac": ["C09", "C04", "C06", "C11", "C02", "C01", "C19"],
    "encrypt": ["C09", "C05", "C06", "C11", "C02", "C01", "C19"],
    "key": ["C10", "C12", "C20", "C11", "C19", "C07"],
    "cwt": ["C18", "C12", "C11", "C19", "C15", "C07"],
    "context": ["C18", "C11", "C02", "C15", "C19", "C07"],
    "util": ["C08", "C09", "C10", "C18", "C15", "C11"],
    "iana": ["C17", "C08", "C10", "C18", "C14"],
}


def arg(name, default=None):
    return sys.argv[sys.argv.index(name) + 1] if name in sys.argv else default


def sh(cmd, cwd=None, timeout=3600):
    try:
        r = subprocess.run(cmd, shell=True, cwd=cwd, stdout=subprocess.PIPE, stderr=subprocess.STDOUT, text=True, timeout=timeout)
        return r.returncode, r.stdout
    except subprocess.TimeoutExpired as e:
        return 124, (e.stdout or "") if isinstance(e.stdout, str) else ""


def code_part(line):
    """the part of a source line before a // comment (strings with // are rare enough in this crate to ignore)"""
    i = line.find("//")
    return line if i < 0 else line[:i]


def mutations_of(lines, i):
    """yield (after_line, operator_name) for line i"""
    line = lines[i]
    code = code_part(line)
    rest = line[len(code):]
    stripped = code.strip()
    if not stripped or stripped.startswith("#[") or stripped.startswith("use ") or stripped.startswith("pub use "):
        return
    diag = any(k in code for k in ("UnexpectedItem(", "cbor_type_error(", "write!(", "expect(", "panic!(", "assert!(", "unreachable!(", "debug_assert"))
    out = []

    def rep(pat, new, name, count_each=True):
        for m in re.finditer(pat, code):
            out.append((code[:m.start()] + m.expand(new) + code[m.end():] + rest, name))

    rep(r" == ", " != ", "eq->ne")
    rep(r" != ", " == ", "ne->eq")
    rep(r" < ", " <= ", "lt->le")
    rep(r" <= ", " < ", "le->lt")
    rep(r" > ", " >= ", "gt->ge")
    rep(r" >= ", " > ", "ge->gt")
    rep(r" && ", " || ", "and->or")
    rep(r" \|\| ", " && ", "or->and")
    rep(r"!(\w+(?:\.\w+)*\.(?:is_empty|contains|is_some|is_none|insert)\()", r"\1", "drop-not")
    rep(r"(?<![!\w.])((?:self\.)?\w+(?:\.\w+)*\.(?:is_empty|is_some|is_none)\(\))", r"!\1", "add-not")
    rep(r" \+ 1\b", " - 1", "plus1->minus1")
    rep(r" - 1\b", " + 1", "minus1->plus1")
    if not diag:
        for m in re.finditer(r"(?<![\w.\"'#])(\d+)(?![\w.\"'])", code):
            n = int(m.group(1))
            if n > 300 or "0x" in code[max(0, m.start() - 2):m.start()]:
                continue
            for d, nm in ((1, "int+1"), (-1, "int-1")):
                if n + d < 0:
                    continue
                out.append((code[:m.start()] + str(n + d) + code[m.end():] + rest, nm))
        for m in re.finditer(r'"([A-Za-z][A-Za-z0-9_]*)"', code):
            out.append((code[:m.start()] + '"' + m.group(1) + '_"' + code[m.end():] + rest, "string"))
    rep(r"\b(\w*aad\w*), (\w*payload\w*)\b", r"\2, \1", "swap-args")
    rep(r"\b(\w*payload\w*), (\w*aad\w*)\b", r"\2, \1", "swap-args")
    for a, b in (("Alg", "Crit"), ("ContentType", "KeyId"), ("Iv", "PartialIv"), ("Kty", "Kid"), ("KeyOps", "BaseIv"), ("Iss", "Sub"), ("Exp", "Nbf"), ("Iat", "Cti"), ("Aud", "Iss")):
        rep(r"(iana::\w+::)%s\b" % a, r"\g<1>%s" % b, "enum-neighbour")
        rep(r"(iana::\w+::)%s\b" % b, r"\g<1>%s" % a, "enum-neighbour")
    rep(r": Some\(([^()]*)\),", ": None,", "some->none")
    rep(r"\.rev\(\)", "", "drop-rev")
    rep(r" < ", " > ", "lt->gt")
    rep(r" > ", " < ", "gt->lt")
    rep(r"(\S+) && (.+?)( \{| \)|$)", r"\1\3", "and->left")
    rep(r"(\S+(?:\(\))?) \|\| (.+?)( \{| \)|$)", r"\1\3", "or->left")
    rep(r"\.try_into\(\)\?", " as _", "try_into->as")
    rep(r"\btrue\b", "false", "true->false")
    rep(r"\bfalse\b", "true", "false->true")
    # delete a statement with an effect: a push / insert / extend, or an assignment to a field
    if re.match(r"^\s*[\w.]+\.(push|insert|extend\w*|reverse|sort\w*)\(.*\);\s*$", code) or re.match(r"^\s*(self|headers|key|claims|\w+)\.[\w.]+ = .*;\s*$", code):
        out.append((re.match(r"^\s*", code).group(0) + "();" + rest, "stmt-deleted"))
    # disable a check:  if COND {  followed by a line that returns an error
    m = re.match(r"^(\s*)if (.+) \{\s*$", code)
    if m and not m.group(2).startswith("let ") and i + 1 < len(lines) and ("return Err(" in lines[i + 1] or "return cbor_type_error" in lines[i + 1]):
        out.append((m.group(1) + "if false {" + rest, "check-disabled"))
    seen = set()
    for after, name in out:
        if after != line and after not in seen:
            seen.add(after)
            yield after, name


def in_test_or_doc(lines, i):
    s = lines[i].lstrip()
    return s.startswith("///") or s.startswith("//!") or s.startswith("//")


def gen(files):
    muts = []
    for f in files:
        path = "/repo/src/%s/mod.rs" % f
        lines = open(path).read().split("\n")
        for i in range(len(lines)):
            if in_test_or_doc(lines, i):
                continue
            for after, name in mutations_of(lines, i):
                muts.append({"file": f, "path": "src/%s/mod.rs" % f, "line": i + 1, "op": name, "before": lines[i], "after": after})
    return muts


lock = threading.Lock()
queue = []
done_ids = set()


def mid(m):
    return hashlib.sha1(("%s:%d:%s" % (m["path"], m["line"], m["after"])).encode()).hexdigest()[:12]


def worker(k):
    base = "%s/w%d" % (WORK, k)
    repo = base + "/repo"
    verif = base + "/verif"
    os.makedirs(base, exist_ok=True)
    sh("git -C /repo worktree add -q --detach %s HEAD" % repo)
    if os.path.isdir("/repo/target"):
        shutil.copytree("/repo/target", repo + "/target", dirs_exist_ok=True)
    sh("rsync -a --exclude .git --exclude .scratch --exclude replays --exclude evidence --exclude seeded --exclude benign --exclude automut "
       "--exclude 'harness/target-*' /verif/ %s/" % verif)
    ct = open(verif + "/harness/Cargo.toml").read().replace('path = "/repo"', 'path = "%s"' % repo)
    open(verif + "/harness/Cargo.toml", "w").write(ct)
    while True:
        with lock:
            if not queue:
                break
            m = queue.pop(0)
        src = repo + "/" + m["path"]
        orig = open(src).read()
        lines = orig.split("\n")
        lines[m["line"] - 1] = m["after"]
        open(src, "w").write("\n".join(lines))
        res = dict(m, id=mid(m))
        t = time.time()
        rc, o = sh("cargo test --offline --lib 2>&1 | tail -5", cwd=repo, timeout=900)
        if "test result: ok" not in o or "117 passed" not in o:
            res["status"] = "killed-by-suite" if "test result" in o else ("does-not-compile" if "error" in o else "build-or-timeout")
        else:
            rc2, o2 = sh("cargo test --offline --doc 2>&1 | tail -3", cwd=repo, timeout=900)
            if "test result: ok" not in o2:
                res["status"] = "killed-by-suite"
            else:
                res["status"] = "survived-suite"
                caught = None
                ran = []
                # the checks of the properties this module serves; `--all` continues with the other checks when none of those reports
                order = PROPS[m["file"]] + ([p for p in ALL if p not in PROPS[m["file"]]] if "--all" in sys.argv else [])
                for p in order:
                    rc3, o3 = sh("bin/check %s quick" % p, cwd=verif, timeout=3600)
                    ran.append([p, rc3])
                    if rc3 == 1:
                        caught = p
                        whats = []
                        for line in o3.splitlines():
                            if line.startswith("VIOLATION property="):
                                try:
                                    whats.append(json.load(open(line.split("replay=")[1].strip())).get("what"))
                                except Exception:
                                    pass
                        res["what"] = sorted(set(w for w in whats if w))[:4]
                        break
                    if rc3 not in (0, 1):
                        res.setdefault("tool_errors", []).append([p, o3[-400:]])
                res["caught_by"] = caught
                res["ran"] = ran
                if not caught:
                    res["status"] = "UNCAUGHT"
        res["wall_s"] = round(time.time() - t, 1)
        open(src, "w").write(orig)
        with lock:
            with open(OUT + "/results.jsonl", "a") as f:
                f.write(json.dumps(res) + "\n")
    sh("git -C /repo worktree remove --force %s" % repo)
    shutil.rmtree(base, ignore_errors=True)


def main():
    os.makedirs(OUT, exist_ok=True)
    files = (arg("--files") or "common,header,sign,mac,encrypt,key,cwt,context,util").split(",")
    muts = gen(files)
    # deterministic shuffle so that a limited run samples every file
    muts.sort(key=lambda m: hashlib.sha1(mid(m).encode()).hexdigest())
    if os.path.exists(OUT + "/results.jsonl"):
        for l in open(OUT + "/results.jsonl"):
            try:
                done_ids.add(json.loads(l)["id"])
            except Exception:
                pass
    muts = [m for m in muts if mid(m) not in done_ids]
    limit = int(arg("--limit", "100000"))
    if "--list" in sys.argv:
        from collections import Counter
        print(len(muts), Counter(m["file"] for m in muts), Counter(m["op"] for m in muts))
        return
    queue.extend(muts[:limit])
    n = int(arg("--workers", "4"))
    ts = [threading.Thread(target=worker, args=(k,)) for k in range(n)]
    for t in ts:
        t.start()
    for t in ts:
        t.join()
    shutil.rmtree(WORK, ignore_errors=True)


if __name__ == "__main__":
    main()

#!/usr/bin/env python3
"""summary of /verif/automut/results.jsonl for DESIGN.md section 18"""
import json, os
from collections import Counter, defaultdict
root = os.path.dirname(os.path.dirname(os.path.abspath(__file__)))
R = [json.loads(l) for l in open(os.path.join(root, "automut", "results.jsonl"))]
c = Counter(r["status"] for r in R)
print("mutants tried: %d; do not compile: %d; killed by the crate's own suite: %d; survive the suite: %d (reported by a check: %d, not reported: %d)\n" % (
    len(R), c["does-not-compile"] + c["build-or-timeout"], c["killed-by-suite"], c["survived-suite"] + c["UNCAUGHT"], c["survived-suite"], c["UNCAUGHT"]))
print("| file:line | operator | before -> after | reported by |\n|---|---|---|---|")
for r in sorted(R, key=lambda r: (r["status"] != "UNCAUGHT", r["file"], r["line"])):
    if r["status"] not in ("survived-suite", "UNCAUGHT"):
        continue
    b, a = r["before"].strip().replace("|", "\\|"), r["after"].strip().replace("|", "\\|")
    print("| %s:%d | %s | `%s` -> `%s` | %s |" % (r["file"], r["line"], r["op"], b[:90], a[:90], r.get("caught_by") or "**none**"))

#!/usr/bin/env python3
"""benign.py <agent-out-dir> <bK> <id> [props...|all]
A change to google/coset that is meant to KEEP every property: confirms that it applies and that the existing suite passes in a
scratch worktree of /repo, runs the quick checks against it in a private copy of /verif whose harness points at that worktree, and
writes /verif/benign/<id>/{patch.diff, meta.json}.  Every check must exit 0; an exit 1 is either a false alarm of the machinery or a
change that is not benign after all (decided by reading the replay file).  Scratch is removed afterwards (KEEP=1 keeps it)."""
import json, os, shutil, subprocess, sys, time

out, b, sid = sys.argv[1], sys.argv[2], sys.argv[3]
props = sys.argv[4:] or ["all"]
ALL = ["C%02d" % i for i in range(1, 21)]
if props == ["all"]:
    props = ALL
base = "/tmp/mut/%s" % sid
shutil.rmtree(base, ignore_errors=True)
os.makedirs(base)
repo = base + "/repo"
diff = os.path.join(out, b + ".diff")


def sh(cmd, cwd=None, timeout=3600):
    r = subprocess.run(cmd, shell=True, cwd=cwd, stdout=subprocess.PIPE, stderr=subprocess.STDOUT, text=True, timeout=timeout)
    return r.returncode, r.stdout


meta = {"id": sid, "meant_to_keep_all_properties": True, "ran": []}
try:
    sh("git -C /repo worktree add -q --detach %s HEAD" % repo)
    if os.path.isdir("/repo/target"):
        shutil.copytree("/repo/target", repo + "/target", dirs_exist_ok=True)
    rc, o = sh("git apply %s" % diff, cwd=repo)
    applied = rc == 0
    rc1, o1 = sh("cargo test --offline --lib 2>&1 | grep 'test result'; cargo test --offline --doc 2>&1 | grep 'test result'", cwd=repo)
    suite_ok = applied and o1.count("test result: ok") == 2 and "117 passed" in o1
    meta.update({"applies": applied, "existing_suite_passes": suite_ok, "suite_output": o1.strip()})
    if os.path.exists(os.path.join(out, b + ".json")):
        try:
            a = json.load(open(os.path.join(out, b + ".json")))
            meta["summary"] = a.get("summary")
            meta["kind"] = a.get("kind")
            meta["why_no_property_is_affected"] = a.get("why_no_property_is_affected")
        except Exception as e:
            meta["agent_json_error"] = str(e)
    if applied and suite_ok:
        v = base + "/verif"
        sh("rsync -a --exclude .git --exclude .scratch --exclude replays --exclude evidence --exclude seeded --exclude benign "
           "--exclude 'harness/target-*' /verif/ %s/" % v)
        ct = open(v + "/harness/Cargo.toml").read().replace('path = "/repo"', 'path = "%s"' % repo)
        open(v + "/harness/Cargo.toml", "w").write(ct)
        res = {}
        for p in props:
            t = time.time()
            rc, o = sh("bin/check %s quick" % p, cwd=v, timeout=3000)
            whats = []
            for line in o.splitlines():
                if line.startswith("VIOLATION property="):
                    path = line.split("replay=")[1].strip()
                    try:
                        r = json.load(open(path))
                        whats.append({"what": r.get("what"), "detail": json.dumps(r.get("detail"))[:600]})
                    except Exception:
                        pass
            res[p] = {"rc": rc, "wall_s": round(time.time() - t, 1)}
            if rc != 0:
                res[p]["reports"] = whats[:4]
                res[p]["tail"] = o[-600:]
            meta["ran"].append("bin/check %s quick -> rc=%d" % (p, rc))
        meta["checks"] = res
        meta["alarms"] = [p for p, d in res.items() if d["rc"] == 1]
        meta["tool_errors"] = [p for p, d in res.items() if d["rc"] not in (0, 1)]
    dst = "/verif/benign/%s" % sid
    os.makedirs(dst, exist_ok=True)
    shutil.copy(diff, dst + "/patch.diff")
    json.dump(meta, open(dst + "/meta.json", "w"), indent=1)
    print(json.dumps({k: meta.get(k) for k in ("id", "applies", "existing_suite_passes", "alarms", "tool_errors", "summary")}, indent=1))
finally:
    if os.environ.get("KEEP"):
        print("kept", base)
    else:
        sh("git -C /repo worktree remove --force %s" % repo)
        shutil.rmtree(base, ignore_errors=True)

#!/bin/sh
# benign_r4.sh N...  evaluate b1..b4 of round-5 group N against every quick check
for g in "$@"; do
  for b in b1 b2 b3 b4; do
    d=/tmp/wt/R5-$g-out
    [ -f $d/$b.diff ] || continue
    sid=B-r5g$g$b
    [ -f /verif/benign/$sid/meta.json ] && continue
    python3 /verif/bin/benign.py $d $b $sid all > /tmp/ben-$sid.log 2>&1
    echo "$sid: $(python3 -c "import json; m=json.load(open('/verif/benign/$sid/meta.json')); print('applies', m.get('applies'), 'suite', m.get('existing_suite_passes'), 'alarms', m.get('alarms'), 'tool_errors', m.get('tool_errors'))")"
  done
done

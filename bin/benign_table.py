#!/usr/bin/env python3
"""prints the markdown table of /verif/benign/*/meta.json (DESIGN.md section 17)"""
import json, glob, os
rows = []
for m in sorted(glob.glob(os.path.join(os.path.dirname(os.path.dirname(os.path.abspath(__file__))), "benign", "*", "meta.json"))):
    j = json.load(open(m))
    s = (j.get("summary") or "").replace("|", "\\|").replace("\n", " ")
    if len(s) > 260:
        s = s[:257] + "..."
    ok = j.get("applies") and j.get("existing_suite_passes")
    rows.append("| %s | %s | %s | %s | %s | %s |" % (j["id"], j.get("kind") or "", "yes" if ok else "NO", ", ".join(j.get("alarms") or []) or "none",
                                               ", ".join(j.get("tool_errors") or []) or "none", s))
print("| id | kind | applies, suite green | checks that raised an alarm | tool errors | change |\n|---|---|---|---|---|---|")
print("\n".join(rows))

#!/usr/bin/env python3
"""prints the markdown table of DESIGN.md section 15.3 from the evidence files of the last run of each check"""
import json, glob, os
root = os.path.dirname(os.path.dirname(os.path.abspath(__file__)))
print("| property | tier | instances (TLC distinct states) | vectors replayed | evaluations on the crate | judged | wall |\n|---|---|---|---|---|---|---|")
for f in sorted(glob.glob(os.path.join(root, "evidence", "C*.json"))):
    e = json.load(open(f))
    c = e["coverage"]
    inst = []
    for i in c.get("instances", []):
        n = i.get("module") or "?"
        st = i.get("distinct_states") or 0
        inst.append("%s (%s)" % (n, "{:,}".format(st).replace(",", " ")) if st else n)
    print("| %s | %s | %s | %s | %s | %s | %d s |" % (e["property_id"], e["tier"], ", ".join(inst), "{:,}".format(c.get("traces_validated_against_impl", 0)).replace(",", " "),
                                               "{:,}".format(c.get("evaluations", 0)).replace(",", " "), "{:,}".format(c.get("judged", 0)).replace(",", " "), e.get("wall_s", 0)))

"""Which bounded instances / drivers decide which property (DESIGN.md section 9)."""

LEVEL = {"C01": "exploration"}

HDR_INV = ["InvIff", "InvValue", "InvIvPiv", "InvDup", "InvUnprot", "InvProt", "Emit"]

JOBS = {
    "C08": [
        {"module": "MC_HeaderDecode", "spec": "Spec", "invariants": HDR_INV,
         "quick": {"constants": {"MaxLen": 2}, "timeout": 300},
         "thorough": {"constants": {"MaxLen": 3}, "timeout": 3000},
         "rule": "every header map over the entry palette up to MaxLen entries (each state = one map), decoded "
                 "standalone / as unprotected header / inside a protected bstr, by value API and two wire encodings; "
                 "non-trivial = a map or array with at least one entry"},
    ],
}

"""Which bounded instances / drivers decide which property (DESIGN.md section 9)."""

LEVEL = {"C01": "exploration"}
JOBS_BASE = {}

HDR_INV = ["InvIff", "InvValue", "InvIvPiv", "InvDup", "InvUnprot", "InvProt", "InvProt2", "Emit"]

MSG_INV = ["InvIff", "InvValue", "InvNestedDup", "Emit"]

MAP_INV = ["InvIff", "InvValue", "InvDup", "Emit"]

def struct_job(fam):
    return [{"module": "MC_Struct", "spec": "Spec", "invariants": ["InvStruct", "InvInjective", "InvInjectiveX"], "novectors": False,
             "constants": {"Fam": '"%s"' % fam},
             "quick": {"constants": {"Lens": "{0, 24, 255}", "BigLens": "{65535}"}, "timeout": 900},
             "thorough": {"constants": {"Lens": "{0, 1, 23, 24, 255, 256}", "BigLens": "{65535, 65536}"}, "timeout": 3000},
             "rule": "(route through the API, body protected header [5 built, 5 decoded incl. non-canonical], signer protected header, "
                     "AAD length class, payload length class / absent) tuples; each state = one tuple executed as a session; all non-trivial; "
                     "plus implementation-level injectivity over every structure produced"}]


def derived(names):
    """the decode instances re-used as sources of accepted inputs (vectors re-interpreted by `replay --derive`)"""
    out = []
    for n in names:
        j = dict([x for x in sum(JOBS_BASE.values(), []) if x.get("module") == n][0])
        j["derive"] = True
        out.append(j)
    return out


JOBS = {
    "C01": [
        {"module": "MC_DecodeTotal", "spec": "Spec", "invariants": ["InvDecodeTotal", "InvOrig", "InvDocPanic", "InvEncodeOk", "Emit"],
         "quick": {"timeout": 900, "fuzz_per_wire": 20}, "thorough": {"timeout": 1200, "fuzz_per_wire": 400},
         "rule": "(a) TLC: accepted items x 3 encodings x every follow-up action incl. the documented-panic ones, replayed; each injected wire "
                 "is also mutated (seeded) and pushed through all 36 byte-level entry points with follow-ups; (b) nesting recipes over 13 recursive "
                 "positions x repetition counts up to 4096 (65536 thorough), decoded in a child process on the default stack; (c) all byte strings "
                 "of length <= 2, the repository's own test vectors and seeded mutations of them, uniform random strings. "
                 "non-trivial = input accepted by the entry point (follow-ups exercised) or recipe with repetition > 3"},
        {"module": "MC_Nesting", "spec": "Spec", "invariants": ["InvRecipeParses", "InvReturns", "InvDeepAccepted", "Emit"],
         "constants": {"PropId": '"C01"', "SmallLimit": 40},
         "quick": {"constants": {"Reps": "{1, 2, 3, 8, 40, 256, 4096}", "MaxSteps": 1}, "timeout": 600},
         "thorough": {"constants": {"Reps": "{1, 2, 3, 8, 40, 256, 4096, 65536}", "MaxSteps": 2}, "timeout": 3000}},
        {"module": "MC_Machine", "spec": "Spec", "invariants": ["InvTotal", "InvDecodeOutcome", "InvOneItem", "InvReencode", "InvFixed", "Emit"],
         "quick": {"constants": {"MaxDepth": 3}, "timeout": 600},
         # depth 4 has > 10^7 states: breadth-first for 12 minutes (all of depth 3, then as much of depth 4 as fits)
         "thorough": {"constants": {"MaxDepth": 4}, "timeout": 720, "time_bounded": True}},
        {"module": "MC_Machine", "spec": "Spec", "invariants": ["InvTotal", "InvDecodeOutcome", "InvOneItem", "InvReencode", "InvFixed", "Emit"],
         "thorough_only": True,
         "thorough": {"constants": {"MaxDepth": 30}, "simulate": 3000, "depth": 30, "timeout": 720, "time_bounded": True}},
        {"kind": "cmd", "name": "fuzz", "cmd": ["fuzz", "--prop", "C01", "--seed", "{seed}", "--tier", "{tier}", "--summary", "{summary}",
                                               "--replay-dir", "{replays}"],
         "quick": {"timeout": 1200}, "thorough": {"timeout": 3000}},
        # the other configuration of the quantifier: coset built WITH its `std` feature (every other job builds it without)
        {"kind": "cmd", "name": "fuzz-std", "features": "std",
         "cmd": ["fuzz", "--prop", "C01", "--seed", "{seed}", "--tier", "{tier}", "--summary", "{summary}", "--replay-dir", "{replays}"],
         "quick": {"timeout": 1200}, "thorough": {"timeout": 3000}},
    ],
    "C07": [
        {"module": "MC_FixedPoint", "spec": "Spec", "invariants": ["InvAccepted", "InvFixedPoint", "InvF7", "Emit"],
         "quick": {"timeout": 900}, "thorough": {"timeout": 1200},
         "rule": "accepted items of every type x 7 encoding strategies x tagged/untagged, hand-made wires for what re-encoding changes, and every "
                 "accepted wire of the decode instances (derived); each case runs decode/encode/decode/encode; distinct_nontrivial = distinct "
                 "accepted (type, wire) pairs"},
    ],
    "C13": [
        {"module": "MC_OneItem", "spec": "Spec", "invariants": ["InvAccepted", "InvPrefix", "InvSuffix", "InvPrefixFree", "InvProtInner", "InvProtToVec", "Emit"],
         "quick": {"timeout": 900}, "thorough": {"timeout": 1200},
         "rule": "accepted items of every type x 4 encodings: every cut point, 7 suffixes, byte-vs-Value API agreement in both directions (untagged entry, and tagged entry with every tag-head width); the "
                 "header map inside a protected bstr likewise; plus every accepted wire of the decode instances (derived); distinct_nontrivial = "
                 "distinct accepted (type, wire) pairs"},
    ],
    "C11": [
        {"module": "MC_Encode", "spec": "Spec", "invariants": ["InvWFMem", "InvEncode", "InvDecodeBack", "Emit"],
         "quick": {"constants": {"Full": "FALSE"}, "timeout": 900},
         "thorough": {"constants": {"Full": "TRUE"}, "timeout": 3000},
         "rule": "well-formed in-memory values of 19 type classes over field palettes (headers: the product of per-field palettes; messages: "
                 "8 protected x 3 unprotected x payload x signature/recipient lists with nesting; keys, key sets, claims, party/supp-pub info, KDF "
                 "contexts, labels, timestamps); each state = one value; all non-trivial"},
    ],
    "C20": [
        {"module": "MC_Canon", "spec": "Spec", "invariants": ["InvSorted", "InvPairs", "InvIdem", "InvStable", "InvSameKey", "InvF6Exact", "Emit"],
         "quick": {"constants": {"MaxExtras": 2}, "timeout": 900},
         "thorough": {"constants": {"MaxExtras": 3}, "timeout": 3000},
         "rule": "16 subsets of the typed fields x every arrangement of up to MaxExtras distinct extra labels out of 16 (0, 6, 23, 24, 255, 256, "
                 "-1, -2, -24, -25, -257, a, b, aa, 2^63-1, -2^63) x both orderings; each state = one key; non-trivial = at least two extras"},
    ],
    "C06": [
        {"module": "MC_RoundTrip", "spec": "Spec", "invariants": ["InvWireFaithful", "InvVerify", "InvSameBytes", "InvTryErr", "Emit"],
         "quick": {"constants": {"MaxCalls": 2}, "timeout": 900},
         "thorough": {"constants": {"MaxCalls": 3}, "timeout": 3000},
         "rule": "every lifecycle behaviour new -> up to MaxCalls builder calls (setters and create helpers in any order, closure result chosen by "
                 "the environment) -> build -> encode (tagged/untagged) -> decode -> one verify/decrypt call with equal or perturbed AAD / payload / "
                 "signer index, for the seven carriers; each complete behaviour = one session; non-trivial = contains a successful create call"},
    ],
    "C02": [
        {"module": "MC_ProtBytes", "spec": "Spec", "invariants": ["InvProt"],
         "quick": {"timeout": 900}, "thorough": {"timeout": 1200},
         "rule": "(header content [8], encoding of that content [min, every head 1/2/4/8 bytes wide, indefinite with two chunkings, zero-length "
                 "form, bignum key], carrier and nesting position [17]) tuples; each state = one session inject/decode/encode/structures; "
                 "all non-trivial"},
    ],
    "C03": struct_job("sig"),
    "C04": struct_job("mac"),
    "C05": struct_job("enc"),
    "C19": [
        {"module": "MC_Builder", "spec": "Spec", "invariants": ["InvIvPiv", "InvBuiltProtNoOrig", "InvReserved", "InvFrame", "Emit"],
         "quick": {"constants": {"MaxLen": 2}, "timeout": 900},
         "thorough": {"constants": {"MaxLen": 3}, "timeout": 3000},
         "rule": "every call sequence up to MaxLen over the method palette of each of the 14 builders (key: 6 constructors); each state = one "
                 "history, replayed from new() and built; non-trivial = at least one call"},
    ],
    "C17": [
        {"module": "MC_Classify", "spec": "Spec", "invariants": ["InvPlain", "InvPriv", "InvPrivRange", "InvNoPrivAssigned", "InvBack", "Emit"],
         "quick": {"timeout": 900}, "thorough": {"timeout": 1200},
         "rule": "per registry: every name (finite, exhaustive), every integer of [-70000, 70000] plus 64-bit extremes through "
                 "from_i64/to_i64/is_private (walked by the harness against the specification's table), and label classification of every "
                 "assigned value, its neighbours, the private-use boundary and the extremes for both registry label types; "
                 "distinct_nontrivial counts registry names plus classification inputs"},
    ],
    "C16": [
        {"module": "MC_LabelOrder", "spec": "Spec",
         "invariants": ["InvLex", "InvCanon", "InvEq", "InvAntisym", "InvTrans", "InvTransCanon", "Emit"],
         "quick": {"timeout": 900, "workers": 8}, "thorough": {"timeout": 1200},
         "rule": "all ordered pairs of a 39-label palette (22 integers across every width boundary of both signs, 17 texts across the "
                 "length boundaries 0/1/2/23/24/255/256 incl. multi-byte) and of four registry-typed label sets; all triples as order "
                 "laws; non-trivial = the two labels differ"},
    ],
    "C14": [
        {"module": "MC_Tag", "spec": "Spec", "invariants": ["InvParse", "InvTagged", "InvF8", "InvUntagged", "InvExclusive", "InvToTagged", "Emit"],
         "quick": {"timeout": 900}, "thorough": {"timeout": 1200},
         "rule": "(body, tag sequence of length 0/1/2, tag number, tag-head width) tuples, each decoded tagged and untagged as all six "
                 "taggable types, plus tagged encoding of every accepted body; all non-trivial"},
    ],
    "C15": [
        {"module": "MC_Int", "spec": "Spec", "invariants": ["InvParse", "InvIff", "InvValue", "InvRange", "InvReenc", "Emit"],
         "quick": {"timeout": 900}, "thorough": {"timeout": 1200},
         "rule": "54 integers (27 magnitudes around 0, 23/24, 2^8, 2^16, 2^32, 2^63, 2^64, both signs) x every head width that holds the value "
                 "plus two bignum forms x 24 positions; each state = one (integer, encoding, position); all non-trivial"},
    ],
    "C12": [
        {"module": "MC_Dup", "spec": "Spec", "invariants": ["InvDecode", "InvOnlyFault", "InvEncode", "InvMustFail", "Emit"],
         "quick": {"constants": {"MaxN": 3, "AllEnc": "FALSE"}, "timeout": 900},
         "thorough": {"constants": {"MaxN": 4, "AllEnc": "TRUE"}, "timeout": 3000},
         "rule": "decode: (map kind, duplicated label, map size, position pair, encoding pair of the two keys, nesting position) tuples, "
                 "each with the control input that drops the second occurrence; encode: in-memory headers/keys/claims sets whose extras "
                 "clash, in every holder; non-trivial = the input really carries a duplicate"},
    ],
    "C10": [
        {"module": "MC_KeyDecode", "spec": "Spec", "invariants": MAP_INV + ["InvOpsOrder"],
         "quick": {"constants": {"MaxLen": 2, "MaxKeys": 3}, "timeout": 900},
         "thorough": {"constants": {"MaxLen": 3, "MaxKeys": 4}, "timeout": 1200, "time_bounded": True},
         "rule": "every COSE_Key map over the entry palette up to MaxLen entries and every key set up to MaxKeys elements "
                 "(each state = one item); non-trivial = non-empty container"},
    ],
    "C18": [
        {"module": "MC_Cwt", "spec": "Spec", "invariants": MAP_INV + ["InvRoundTrip"],
         "quick": {"constants": {"MaxLen": 2}, "timeout": 900},
         "thorough": {"constants": {"MaxLen": 3}, "timeout": 1800, "time_bounded": True},
         "rule": "every claims map over the entry palette up to MaxLen entries; every KDF-context array up to arity MaxLen and "
                 "every PartyInfo / SuppPubInfo sub-array up to arity 4 over slot palettes; non-trivial = non-empty container"},
        {"module": "MC_Kdf", "spec": "Spec", "invariants": ["InvIff", "InvValue", "InvRoundTrip", "Emit"],
         "quick": {"constants": {"MaxLen": 5}, "timeout": 900},
         "thorough": {"constants": {"MaxLen": 7}, "timeout": 1800, "time_bounded": True}},
    ],
    "C09": [
        {"module": "MC_MsgDecode", "spec": "Spec", "invariants": MSG_INV,
         "quick": {"constants": {"MaxLen": 6, "Wide": "FALSE"}, "timeout": 900},
         "thorough": {"constants": {"MaxLen": 7, "Wide": "TRUE"}, "timeout": 1500, "time_bounded": True},
         "rule": "every array of arity 0..MaxLen over per-position slot palettes (each state = one array), decoded as all "
                 "eight structure types by value API and two wire encodings; non-trivial = non-empty array"},
    ],
    "C08": [
        {"module": "MC_HeaderDecode", "spec": "Spec", "invariants": HDR_INV,
         "quick": {"constants": {"MaxLen": 2}, "timeout": 900},
         # one level more than quick: > 3 000 000 maps; breadth-first for 25 minutes (all maps of 0..2 entries, then as many of 3 as fit)
         "thorough": {"constants": {"MaxLen": 3}, "timeout": 1500, "time_bounded": True},
         "rule": "every header map over the entry palette up to MaxLen entries (each state = one map), decoded "
                 "standalone / as unprotected header / inside a protected bstr, by value API and two wire encodings; "
                 "non-trivial = a map or array with at least one entry"},
    ],
}

JOBS_BASE.update({k: v for k, v in JOBS.items()})
# (C01 pushes every wire through all 36 entry points with follow-ups: the quick bounds of the decode instances in both tiers)
JOBS["C01"] = JOBS["C01"] + [dict(j, thorough=j["quick"]) for j in derived(["MC_HeaderDecode", "MC_MsgDecode", "MC_KeyDecode", "MC_Cwt", "MC_Kdf"])]
for _p in ("C07", "C13"):
    JOBS[_p] = JOBS[_p] + [dict(j, thorough=j["quick"]) for j in
                           derived(["MC_HeaderDecode", "MC_MsgDecode", "MC_KeyDecode", "MC_Cwt", "MC_Kdf"] + (["MC_Tag"] if _p == "C07" else []))]


def trace_job(fams):
    return {"kind": "trace", "name": "trace:" + "+".join(fams), "fams": fams,
            "quick": {"sessions": 150, "timeout": 600}, "thorough": {"sessions": 4000, "timeout": 3000}}


TRACE_FAMS = {
    "C02": ["valid", "follow"], "C03": ["struct-sig", "follow"], "C04": ["struct-mac", "follow"], "C05": ["struct-enc", "follow"],
    "C06": ["lifecycle"], "C07": ["valid", "header", "key"], "C08": ["header"], "C09": ["msg"], "C10": ["key"], "C11": ["builder", "lifecycle"],
    "C12": ["header", "key", "cwtkdf"], "C13": ["valid", "msg"], "C14": ["msg"], "C15": ["header", "key", "cwtkdf"], "C16": ["cmp"],
    "C18": ["cwtkdf"], "C19": ["builder"], "C20": ["canon"],
}
def nesting_job(pid):
    return {"module": "MC_Nesting", "spec": "Spec", "invariants": ["InvRecipeParses", "InvReturns", "InvDeepAccepted", "Emit"],
            "constants": {"PropId": '"%s"' % pid, "SmallLimit": 40},
            "quick": {"constants": {"Reps": "{1, 3, 17, 40}", "MaxSteps": 1}, "timeout": 600},
            "thorough": {"constants": {"Reps": "{1, 3, 17, 40}", "MaxSteps": 2}, "timeout": 3000}}


for _p in ("C09", "C13"):
    JOBS[_p] = JOBS[_p] + [nesting_job(_p)]


def parse_job():
    """exhaustive short byte strings: the parser model against ciborium (both directions, error class included), every type's byte-level
    decoder, and the Value-level fixed point"""
    return {"module": "MC_Parse", "spec": "Spec",
            "invariants": ["InvShape", "InvLocal", "InvPrefixEof", "InvStableFail", "InvEncParse", "InvEncShorter", "InvRead", "Emit"],
            "quick": {"constants": {"MaxLen": 2, "MaxLen2": 3}, "timeout": 900, "workers": 8},
            "thorough": {"constants": {"MaxLen": 3, "MaxLen2": 4}, "timeout": 1800, "workers": 8}}


for _p in ("C01", "C07", "C13"):
    JOBS[_p] = JOBS[_p] + [parse_job()]


def float_job():
    """all binary16 patterns and boundary binary32/binary64 patterns through the widening / shortest-form model and the crate"""
    return {"module": "MC_Float", "spec": "Spec",
            "invariants": ["InvParses", "InvHalf", "InvSingle", "InvBack", "InvLossless", "InvFixedPoint", "InvNotLabel", "Emit"],
            "quick": {"constants": {"H1s": "{0, 1, 3, 4, 60, 123, 124, 125, 126, 127, 128, 252}"}, "timeout": 900, "workers": 8},
            "thorough": {"constants": {"H1s": "{" + ", ".join(str(i) for i in range(256)) + "}"}, "timeout": 1800, "workers": 8}}      # (a .cfg takes no `0..255`)


for _p in ("C07", "C13"):
    JOBS[_p] = JOBS[_p] + [float_job()]


def scale_job(fam):
    """quantity: each repeatable part of the grammar at sizes where an implementation could plausibly change behaviour"""
    return {"module": "MC_Scale", "spec": "Spec", "invariants": ["InvDup", "InvBig", "InvCanon", "InvRt", "Emit"],
            "constants": {"Fam": '"%s"' % fam},
            "quick": {"constants": {"Sizes": "{4, 9, 12, 17, 24, 25, 33, 65, 257}"}, "timeout": 900, "workers": 8},
            "thorough": {"constants": {"Sizes": "{4, 5, 7, 8, 9, 10, 11, 12, 13, 15, 16, 17, 24, 25, 31, 32, 33, 64, 65, 128, 129, 255, 256, 257}"},
                         "timeout": 2400, "workers": 8}}


for _p, _fams in {"C12": ["dup"], "C08": ["header"], "C09": ["msg"], "C10": ["key"], "C18": ["cwtkdf"], "C20": ["canon"],
                  "C11": ["header", "msg", "key", "cwtkdf"], "C07": ["header", "msg", "key", "cwtkdf"],
                  "C01": ["header", "msg", "key", "cwtkdf"], "C06": ["roundtrip"], "C19": ["builder"]}.items():
    JOBS[_p] = JOBS[_p] + [scale_job(f) for f in _fams]


def limit_job():
    """the parser's recursion budget seen from C08 (position of a header map) and C10 (key alone vs inside a key set): findings F10, F11"""
    return {"module": "MC_Limit", "spec": "Spec", "invariants": ["InvBudget", "InvPosition", "Emit"],
            "quick": {"timeout": 900, "workers": 4}, "thorough": {"timeout": 900, "workers": 4}}


for _p in ("C08", "C10"):
    JOBS[_p] = JOBS[_p] + [limit_job()]


def longtext_job():
    """texts longer than ciborium's scratch buffer (streamed pull by pull); thorough only: TLC needs minutes on 8 KB sequences"""
    return {"module": "MC_LongText", "spec": "Spec", "invariants": ["InvText", "InvValue", "InvBytes", "InvCut", "InvHolders", "Emit"],
            "thorough_only": True, "thorough": {"timeout": 2400}}


for _p in ("C07", "C13"):
    JOBS[_p] = JOBS[_p] + [longtext_job()]
for _p, _f in TRACE_FAMS.items():
    JOBS[_p] = JOBS[_p] + [trace_job(_f)]

NOT_APPLICABLE = {}
TRUST = ("Trusted: TLC, CommunityModules Json, rustc/cargo, serde_json, the harness' proj/unproj/reader (cross-checked against the "
         "spec's Parse on every wire), my transcription of RFC 8152 / IANA into spec/. Exhaustive only inside the stated palettes.")
TEXT = {
    "C08": {
        "level": "TLC enumerates every header map over a ~150-entry palette (all standard labels x valid/each-rule-violated values, "
                 "unknown/negative/extreme/text labels, bad labels) up to 2 (quick) / 3 (thorough) entries; on every state it checks "
                 "Design |= Prop (iff with Header_WF, fields = Header_ValueOf, IV/PIV exclusion, duplicate-only-fault => DuplicateMapKey) "
                 "and the real crate is run on the same map (value API + two wire encodings, three embedding positions) and judged "
                 "against the Prop layer. Model checking is the right level: the property is an iff over a rule system whose "
                 "interactions are pairwise/triple.",
        "note": TRUST,
        "technique": "TLA+ spec (Header.tla) model-checked by TLC; every TLC state replayed on the crate (spec->impl conformance)",
    },
}

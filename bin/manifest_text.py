NOT_APPLICABLE = {}
TRUST = ("Trusted: TLC, CommunityModules Json, rustc/cargo, serde_json, the harness' proj/unproj/reader (cross-checked: every wire the "
         "spec emits must parse with ciborium to the spec's item, else it is counted as parser_model_deviation and not judged), my "
         "transcription of RFC 8152 / IANA into spec/. Exhaustive only inside the stated palettes (DESIGN.md section 9).")
MC = "TLA+ spec model-checked by TLC (Design |= Prop on every state); every TLC state replayed on the real crate and judged by the Prop layer"
TEXT = {
    "C08": {
        "level": "TLC enumerates every header map over a ~150-entry palette (all standard labels x valid/each-rule-violated values, "
                 "unknown/negative/extreme/text labels, bad labels) up to 2 (quick) / 3 (thorough) entries; on every state it checks "
                 "Design |= Prop (iff with Header_WF, fields = Header_ValueOf, IV/PIV exclusion, duplicate-only-fault => DuplicateMapKey) "
                 "and the real crate is run on the same map (value API + two wire encodings, three embedding positions) and judged "
                 "against the Prop layer. Model checking is the right level: the property is an iff over a rule system whose "
                 "interactions are pairwise/triple.",
        "note": TRUST, "technique": MC + " (spec/Header.tla, spec/mc/MC_HeaderDecode.tla)"},
    "C09": {
        "level": "TLC enumerates every array of arity 0..5 (quick) / 0..7 with wider palettes (thorough) over per-slot palettes of every CBOR "
                 "kind (valid/invalid/trailing-byte/non-map protected bstr, valid/invalid/duplicate maps, bstr/nil/wrong payloads, nested "
                 "signature and recipient arrays to depth 3) and decodes EACH array as all eight structure types; invariants: accepted iff "
                 "the CDDL predicate Msg_WF, fields = Msg_ValueOf; the crate is run on every array as every type. Empty nested arrays are "
                 "emitted unjudged (the property leaves them open).",
        "note": TRUST, "technique": MC + " (spec/Msg.tla, spec/mc/MC_MsgDecode.tla)"},
    "C10": {
        "level": "TLC enumerates every COSE_Key map up to 2/3 entries over a palette with kty present/absent/reserved/unregistered/text at "
                 "every position, key_ops arrays with registered/unregistered/repeated/text entries, every other label class, and key sets "
                 "up to 3/4 elements with a bad element at each position; iff with Key_WF / KeySet_WF, fields = Key_ValueOf (operations "
                 "compared as a set); replayed on the crate.",
        "note": TRUST, "technique": MC + " (spec/Key.tla, spec/mc/MC_KeyDecode.tla)"},
    "C12": {
        "level": "decode: TLC enumerates (map kind, duplicated label of every class, map size <= 3/4, position pair, pair of byte encodings of "
                 "the two keys incl. non-minimal widths, bignum form and indefinite text, 15 nesting positions) with the duplicate as the "
                 "only fault (control vector: dropping the second occurrence is accepted) and checks the Design reports DuplicateMapKey; the "
                 "crate must report exactly that error kind. encode: in-memory headers/keys/claims sets whose extras clash with each other "
                 "or with a populated typed field, in 9 holders; the crate must fail, and EVERY encode vector of every check is scanned for "
                 "maps with repeated keys at all nesting levels.",
        "note": TRUST + " Known finding F4 (ClaimsSet encode) is listed in KNOWN_FINDINGS.txt and matched by an input tag.",
        "technique": MC + " (spec/mc/MC_Dup.tla)"},
    "C14": {
        "level": "TLC enumerates bodies (accepted by the type / by another type of the same shape / by none) x tag sequences of length 0/1/2 "
                 "x 14 tag numbers x every tag-head width and checks: tagged decode accepts iff registered tag applied once to an accepted "
                 "body, same value; untagged decode rejects every tagged item; exclusivity across the six types; to_tagged_vec = head || "
                 "to_vec. Every item is decoded tagged and untagged as all six types on the crate.",
        "note": TRUST, "technique": MC + " (spec/mc/MC_Tag.tla); tag numbers come from spec/Iana.tla, not from the crate"},
    "C15": {
        "level": "TLC enumerates 54 boundary integers x every head width that holds them + two bignum forms x 24 positions (labels, "
                 "algorithm in header/key/KDF, key type, content format, crit, key op, nonce, three timestamps, key data length, bare label "
                 "types, and three uninterpreted positions) and checks: all encodings denote the same integer (Parse), in-range => exact "
                 "value, out-of-range => OutOfRangeIntegerValue (kind pinned), uninterpreted => preserved, re-encoding gives the integer back.",
        "note": TRUST, "technique": MC + " (spec/mc/MC_Int.tla); integers are (sign, big-endian magnitude) in the spec, no 32-bit arithmetic"},
    "C16": {
        "level": "TLC checks on all pairs and triples of a 39-label palette (and 4 registry-typed sets) that the Design of Ord (sign-aware "
                 "nine-way match) equals bytewise order of the deterministic encodings, cmp_canonical equals length-first order, "
                 "EQ <=> equal, antisymmetry, transitivity; the crate's cmp/partial_cmp/==/cmp_canonical, sort(), sort_by and BTreeSet are run "
                 "on every pair / list and compared with the order the spec computes from Enc.",
        "note": TRUST, "technique": MC + " (spec/Label.tla, spec/mc/MC_LabelOrder.tla)"},
    "C17": {
        "level": "spec/Iana.tla is an independent transcription of the sixteen registries (TLC ASSUMEs injectivity); the harness walks every "
                 "name and every integer of [-70000, 70000] plus 64-bit extremes through from_i64/to_i64/is_private and compares with the "
                 "table BY VARIANT IDENTITY (finite, exhaustive); TLC enumerates label classification for every assigned value, neighbours, "
                 "private boundary and extremes in both registry label types.",
        "note": TRUST + " A variant unknown to the harness table (upstream addition) is not judged.",
        "technique": "TLA+ registry tables + TLC classification instance (spec/mc/MC_Classify.tla); exhaustive window walk on the crate"},
    "C18": {
        "level": "TLC enumerates claims maps up to 2/3 entries (every claim key class x values of every kind, whole/fractional/extreme "
                 "timestamps) and KDF-context arrays of arity 0..5/7 plus PartyInfo / SuppPubInfo sub-arrays of arity 0..4 with every slot "
                 "kind; iff with Claims_WF / Kdf_WF, fields = *_ValueOf, decode(encode(x)) = x; replayed on the crate (private KDF fields "
                 "observed through to_vec read by the independent reader).",
        "note": TRUST, "technique": MC + " (spec/Cwt.tla, spec/Kdf.tla, spec/mc/MC_Cwt.tla, MC_Kdf.tla)"},
}

NOT_APPLICABLE = {}
TRUST = ("Trusted: TLC, CommunityModules Json, rustc/cargo, serde_json, the harness' proj/unproj/reader (cross-checked: every wire the "
         "spec emits must parse with ciborium to the spec's item, else it is counted as parser_model_deviation and not judged), my "
         "transcription of RFC 8152 / IANA into spec/. Exhaustive only inside the stated palettes (DESIGN.md section 9).")
MC = "TLA+ spec model-checked by TLC (Design |= Prop on every state); every TLC state replayed on the real crate and judged by the Prop layer"
TEXT = {
    "C08": {
        "level": "TLC enumerates every header map over a ~150-entry palette (all standard labels x valid/each-rule-violated values, "
                 "unknown/negative/extreme/text labels, bad labels) up to 2 (quick) / 3 (thorough) entries; on every state it checks "
                 "Design |= Prop (iff with Header_WF, fields = Header_ValueOf, IV/PIV exclusion, duplicate-only-fault => DuplicateMapKey) "
                 "and the real crate is run on the same map (value API + two wire encodings, three embedding positions) and judged "
                 "against the Prop layer. Model checking is the right level: the property is an iff over a rule system whose "
                 "interactions are pairwise/triple.",
        "note": TRUST, "technique": MC + " (spec/Header.tla, spec/mc/MC_HeaderDecode.tla)"},
    "C09": {
        "level": "TLC enumerates every array of arity 0..5 (quick) / 0..7 with wider palettes (thorough) over per-slot palettes of every CBOR "
                 "kind (valid/invalid/trailing-byte/non-map protected bstr, valid/invalid/duplicate maps, bstr/nil/wrong payloads, nested "
                 "signature and recipient arrays to depth 3) and decodes EACH array as all eight structure types; invariants: accepted iff "
                 "the CDDL predicate Msg_WF, fields = Msg_ValueOf; the crate is run on every array as every type. Empty nested arrays are "
                 "emitted unjudged (the property leaves them open).",
        "note": TRUST, "technique": MC + " (spec/Msg.tla, spec/mc/MC_MsgDecode.tla)"},
    "C10": {
        "level": "TLC enumerates every COSE_Key map up to 2/3 entries over a palette with kty present/absent/reserved/unregistered/text at "
                 "every position, key_ops arrays with registered/unregistered/repeated/text entries, every other label class, and key sets "
                 "up to 3/4 elements with a bad element at each position; iff with Key_WF / KeySet_WF, fields = Key_ValueOf (operations "
                 "compared as a set); replayed on the crate.",
        "note": TRUST, "technique": MC + " (spec/Key.tla, spec/mc/MC_KeyDecode.tla)"},
    "C12": {
        "level": "decode: TLC enumerates (map kind, duplicated label of every class, map size <= 3/4, position pair, pair of byte encodings of "
                 "the two keys incl. non-minimal widths, bignum form and indefinite text, 15 nesting positions) with the duplicate as the "
                 "only fault (control vector: dropping the second occurrence is accepted) and checks the Design reports DuplicateMapKey; the "
                 "crate must report exactly that error kind. encode: in-memory headers/keys/claims sets whose extras clash with each other "
                 "or with a populated typed field, in 9 holders; the crate must fail, and EVERY encode vector of every check is scanned for "
                 "maps with repeated keys at all nesting levels.",
        "note": TRUST + " Known finding F4 (ClaimsSet encode) is listed in KNOWN_FINDINGS.txt and matched by an input tag.",
        "technique": MC + " (spec/mc/MC_Dup.tla)"},
    "C14": {
        "level": "TLC enumerates bodies (accepted by the type / by another type of the same shape / by none) x tag sequences of length 0/1/2 "
                 "x 14 tag numbers x every tag-head width and checks: tagged decode accepts iff registered tag applied once to an accepted "
                 "body, same value; untagged decode rejects every tagged item; exclusivity across the six types; to_tagged_vec = head || "
                 "to_vec. Every item is decoded tagged and untagged as all six types on the crate.",
        "note": TRUST, "technique": MC + " (spec/mc/MC_Tag.tla); tag numbers come from spec/Iana.tla, not from the crate"},
    "C15": {
        "level": "TLC enumerates 54 boundary integers x every head width that holds them + two bignum forms x 24 positions (labels, "
                 "algorithm in header/key/KDF, key type, content format, crit, key op, nonce, three timestamps, key data length, bare label "
                 "types, and three uninterpreted positions) and checks: all encodings denote the same integer (Parse), in-range => exact "
                 "value, out-of-range => OutOfRangeIntegerValue (kind pinned), uninterpreted => preserved, re-encoding gives the integer back.",
        "note": TRUST, "technique": MC + " (spec/mc/MC_Int.tla); integers are (sign, big-endian magnitude) in the spec, no 32-bit arithmetic"},
    "C16": {
        "level": "TLC checks on all pairs and triples of a 39-label palette (and 4 registry-typed sets) that the Design of Ord (sign-aware "
                 "nine-way match) equals bytewise order of the deterministic encodings, cmp_canonical equals length-first order, "
                 "EQ <=> equal, antisymmetry, transitivity; the crate's cmp/partial_cmp/==/cmp_canonical, sort(), sort_by and BTreeSet are run "
                 "on every pair / list and compared with the order the spec computes from Enc.",
        "note": TRUST, "technique": MC + " (spec/Label.tla, spec/mc/MC_LabelOrder.tla)"},
    "C17": {
        "level": "spec/Iana.tla is an independent transcription of the sixteen registries (TLC ASSUMEs injectivity); the harness walks every "
                 "name and every integer of [-70000, 70000] plus 64-bit extremes through from_i64/to_i64/is_private and compares with the "
                 "table BY VARIANT IDENTITY (finite, exhaustive); TLC enumerates label classification for every assigned value, neighbours, "
                 "private boundary and extremes in both registry label types.",
        "note": TRUST + " A variant unknown to the harness table (upstream addition) is not judged.",
        "technique": "TLA+ registry tables + TLC classification instance (spec/mc/MC_Classify.tla); exhaustive window walk on the crate"},
    "C18": {
        "level": "TLC enumerates claims maps up to 2/3 entries (every claim key class x values of every kind, whole/fractional/extreme "
                 "timestamps) and KDF-context arrays of arity 0..5/7 plus PartyInfo / SuppPubInfo sub-arrays of arity 0..4 with every slot "
                 "kind; iff with Claims_WF / Kdf_WF, fields = *_ValueOf, decode(encode(x)) = x; replayed on the crate (private KDF fields "
                 "observed through to_vec read by the independent reader).",
        "note": TRUST, "technique": MC + " (spec/Cwt.tla, spec/Kdf.tla, spec/mc/MC_Cwt.tla, MC_Kdf.tla)"},
    "C01": {
        "level": "Exploration driven and judged by the specification: in spec/Cose.tla every decoder action has outcome ok|err only, and "
                 "follow-up actions panic exactly under the documented preconditions (TLC: MC_DecodeTotal, invariants InvDecodeTotal, InvOrig, "
                 "InvDocPanic, InvEncodeOk over accepted items x encodings x every follow-up). Those behaviours are replayed on the crate; each "
                 "wire is additionally mutated (seeded) through all 36 byte-level entry points; TLC-enumerated nesting recipes over 13 recursive "
                 "grammar positions (MC_Nesting; bytes bound to the spec for small repetition counts) are materialised up to 4096/65536 levels and "
                 "decoded in a child process on the default 8 MiB stack; all strings of length <= 2, the repository's test vectors, their "
                 "mutations and random strings go through every entry point with all follow-ups; so does every wire (accepted or not) of the five "
                 "decode instances and every byte string of MC_Parse (exhaustive over a 46-byte alphabet to length 2/3, a 16-byte alphabet "
                 "to length 3/4); the fuzz job runs in both configurations of the crate (with and without its std feature). Exploration is the honest level: 'never "
                 "crashes on any byte string' is not decidable by a bounded model; the resource clause (time/stack) is observed, not modelled.",
        "note": TRUST + " Stack use is observed on one platform (release build, overflow-checks on). Known finding F1 is matched by recipe tag AND failure mode.",
        "technique": "TLA+ lifecycle machine (decoders total, documented panics) model-checked by TLC; behaviours + TLC-enumerated nesting recipes + seeded mutation fuzzing replayed on the crate (child process for deep inputs)"},
    "C02": {
        "level": "TLC enumerates 8 header contents x 9 encodings of that content (minimal, every head 1/2/4/8 bytes, indefinite with two "
                 "chunkings, zero-length form, bignum key) x 17 carriers/nesting positions (bodies, signers 0 and 2, recipients to depth 3, "
                 "counter-signature in unprotected and inside protected, SuppPubInfo, KDF context) and checks on the Design: accepted, retained "
                 "bytes = received slot at that position, parsed view = Header_ValueOf(content) for every encoding, re-encoding = received wire, "
                 "every structure handed to a closure contains the received slot. Each case is a session replayed on the crate (inject, decode, "
                 "encode, tbs/verify/decrypt, counter-signature structure) with bytes, closure arguments and value compared.",
        "note": TRUST, "technique": MC + " (spec/mc/MC_ProtBytes.tla, sessions through spec/Cose.tla Step)"},
    "C03": {
        "level": "TLC enumerates (API route [14], body protected [5 built + 5 decoded incl. non-canonical], signer protected, AAD length class, "
                 "payload length class or absent) and checks that every structure observed through the free function, tbs_*, and every "
                 "create/verify closure equals the RFC 8152 4.4 array encoded by the spec's own deterministic encoder, that refusals are exactly "
                 "the documented ones, that verify hands over the stored signature and returns the closure's result, and injectivity over the "
                 "palette; every tuple is replayed on the crate byte for byte (built protected slots modulo entry order) with an "
                 "implementation-level injectivity table over all outputs.",
        "note": TRUST, "technique": MC + " (spec/Struct.tla, spec/mc/MC_Struct.tla Fam=sig)"},
    "C04": {
        "level": "As C03 for MAC_structure (RFC 8152 6.3): 8 routes (free function for MAC/MAC0, verify_tag, create_tag, try_create_tag), "
                 "payload absent => documented panic, contexts separated (injectivity across MAC/MAC0/Signature1/Encrypt0 families).",
        "note": TRUST, "technique": MC + " (spec/mc/MC_Struct.tla Fam=mac)"},
    "C05": {
        "level": "As C03 for Enc_structure (RFC 8152 5.3): 18 routes over the five contexts and three carriers, recipient operations with a "
                 "non-recipient context and decryption without ciphertext => documented panic, injectivity across contexts.",
        "note": TRUST, "technique": MC + " (spec/mc/MC_Struct.tla Fam=enc)"},
    "C06": {
        "level": "TLC explores the lifecycle machine new -> <=2/3 builder calls (setters and create helpers in any order, closure result "
                 "environment-chosen incl. failing) -> build -> to_vec|to_tagged_vec -> from_slice|from_tagged_slice -> one verify/decrypt with "
                 "equal or perturbed AAD/payload/index, for 7 carriers, and checks relationally on the Design: wire-faithfulness, verify hands "
                 "over the stored signature/tag/ciphertext and returns the result unchanged, created bytes = verified bytes IFF protected slot, "
                 "payload, AAD (and context) are unchanged since the create call, failing creator => error and no message. Every complete "
                 "behaviour is replayed end to end on the crate with recording closures and compared step by step.",
        "note": TRUST, "technique": "TLA+ lifecycle state machine model-checked by TLC (spec/mc/MC_RoundTrip.tla); every behaviour replayed on the crate"},
    "C07": {
        "level": "TLC checks decode;encode;decode;encode on accepted items of every type x 7 encoding strategies x tagged/untagged plus "
                 "hand-made wires for everything re-encoding changes (bignum integers in key and value position, indefinite lengths, "
                 "4-element recipient with empty list, reordered key_ops, f16/f32/f64/NaN, two-byte simple values, nested indefinite chunks); "
                 "the Design with ciborium's behaviour modelled reproduces finding F7 (invariant InvF7) and satisfies the property everywhere "
                 "else. The crate runs the same relational check on those wires and on every accepted wire of five decode instances, on every "
                 "complete item among the exhaustive short byte strings of MC_Parse, and on ALL 65536 binary16 patterns plus boundary "
                 "binary32/binary64 patterns (MC_Float: the specification's arithmetic widening / shortest-form model, bound to ciborium "
                 "pattern by pattern) inside Value, Timestamp, ClaimsSet, Header and CoseKey.",
        "note": TRUST + " Purely relational on the crate's own outputs (no expected field values), so a symmetric encoder/decoder slip is not reported here.",
        "technique": MC + " (spec/mc/MC_FixedPoint.tla); relational fixed-point check on the crate over spec-generated wires"},
    "C11": {
        "level": "TLC enumerates well-formed in-memory values of 19 type classes over per-field palettes and checks: encoding succeeds; the "
                 "output read back by the Prop layer (WF/ValueOf) is the value with protected bytes assigned; explicit omission rules (count of "
                 "map entries, single counter-signature inlined, zero-length protected iff empty, recipient list omitted when empty); decode of "
                 "the output returns the value. The crate's to_vec output is read by the independent strict reader (definite lengths, shortest "
                 "heads) and compared with the spec's item (maps modulo entry order, extras order checked separately), then decoded again.",
        "note": TRUST, "technique": MC + " (spec/mc/MC_Encode.tla)"},
    "C13": {
        "level": "TLC checks on accepted items x 4 encodings: every proper prefix rejected, every suffix of a 7-element suffix set gives "
                 "ExtraneousData, Parse is prefix-free, and the same for the header map inside a protected bstr. The crate is run on every cut "
                 "point and suffix of those wires and of every accepted wire of five decode instances, plus byte-API vs Value-API agreement in "
                 "both directions, the tagged entry point of the six taggable types included (tag head of every width before every accepted "
                 "item: same value as parse + unwrap + convert, one more byte is extraneous data, proper prefixes rejected). MC_Parse adds every short byte string (exhaustive, see C01) decoded as 21 types: DecodeFailed iff no item "
                 "parses, ExtraneousData iff an item parses and bytes remain, otherwise the conversion of the parsed item; the parser model "
                 "itself is compared with ciborium on each string (value, bytes consumed, class of failure).",
        "note": TRUST, "technique": MC + " (spec/mc/MC_OneItem.tla); prefix/suffix/API-agreement sweep on the crate"},
    "C19": {
        "level": "TLC explores every builder as a state machine whose state is the call history (all sequences up to 2/3 calls over the "
                 "method palette of each of the 14 builders, 6 key constructors) with invariants IV/PIV exclusion, frame condition of each "
                 "header setter, reserved labels never enter the extras, built protected headers carry no retained bytes; every history is "
                 "replayed from new() on the crate and the built value / panic compared after each prefix.",
        "note": TRUST + " param(0, _) on CoseKeyBuilder is emitted unjudged (label 0 is Reserved in the registry; the property names only the common key parameters).",
        "technique": "TLA+ builder state machines (spec/Builder.tla) model-checked by TLC (spec/mc/MC_Builder.tla); every history replayed on the crate"},
    "C20": {
        "level": "TLC enumerates 16 typed-field subsets x every arrangement of up to 2/3 distinct extra labels out of 16 x both orderings and "
                 "checks on the Design: encoded keys strictly ascending under the order computed on the ENCODED keys (except the known class "
                 "'extras contain integer label 0', for which the Design provably fails: InvF6Exact), pair set unchanged, idempotent, "
                 "decode/encode stable. The crate's canonicalize + to_vec is read by the independent reader and judged by the same predicate.",
        "note": TRUST + " Known finding F6 matched by the input tag extras-contain-int-label-0.",
        "technique": MC + " (spec/Key.tla Key_Canonicalize, spec/mc/MC_Canon.tla)"},
}

#!/usr/bin/env python3
"""Regenerates /verif/MANIFEST.json from bin/jobs.py and the per-property texts below."""
import json, os, sys
ROOT = os.path.dirname(os.path.dirname(os.path.abspath(__file__)))
sys.path.insert(0, os.path.join(ROOT, "bin"))
from jobs import JOBS, LEVEL
from manifest_text import TEXT, NOT_APPLICABLE

props = [json.loads(l)["id"] for l in open(os.path.join(ROOT, "properties.jsonl"))]
checks = []
SCALE = (" The instance MC_Scale repeats the relevant part at sizes 4..257 (thorough: 24 sizes) and nesting depths up to 65: maps with a "
         "repeated label around positions 8/9 and 16/17, n extras / signers / recipients / key operations / keys / claims / builder "
         "calls, values nested n deep (DESIGN.md 15.5).")
for pid in props:
    if pid not in JOBS or pid not in TEXT:
        continue
    t = TEXT[pid]
    checks.append({
        "property_id": pid,
        "quick_cmd": "bin/check %s quick" % pid,
        "thorough_cmd": "bin/check %s thorough" % pid,
        "evidence_file": "/verif/evidence/%s.json" % pid,
        "replay_cmd_template": "bin/check replay %s {path}" % pid,
        "engine": "tlc+harness",
        "level_claimed": {"category": LEVEL.get(pid, "model_checking"),
                          "text": t["level"] + (SCALE if pid in ("C01", "C06", "C07", "C08", "C09", "C10", "C11", "C12", "C18", "C19", "C20") else ""),
                          "design_ref": "DESIGN.md section 9 and 15.5, " + pid},
        "level_note": t["note"],
        "technique": t["technique"],
    })
na = [{"property_id": p, "reason": NOT_APPLICABLE.get(p, "check not built yet in this session (the specification covers it; see DESIGN.md section 9)")}
      for p in props if p not in [c["property_id"] for c in checks]]
m = {
    "version": 1,
    "setup_cmd": "bin/check build",
    "hooks": {"guard": "coset_verif", "enable": "none needed: every observation goes through the public API (no source hooks)",
              "baseline_off_cmd": "cd /repo && cargo test --workspace --no-fail-fast --offline", "source_commits": [], "add_only": True},
    "engines": [{"name": "tlc+harness", "path": "/verif/bin/check", "serves_properties": [c["property_id"] for c in checks],
                 "kind_free_text": "explicit TLA+ specification (spec/*.tla) model-checked by TLC on bounded instances (spec/mc); every TLC state is "
                                   "replayed on the real crate by harness/ (spec -> impl), and traces recorded from the real crate are validated by TLC "
                                   "against spec/trace/Trace.tla (impl -> spec)"}],
    "checks": checks,
    "notes": "fix: commits in /repo (recorded in KNOWN_FINDINGS.txt as fixed:): f6ae51b, 906e791, 928b9bd, 2d5a00a. Known findings (KNOWN_FINDINGS.txt): C01 stack overflow via protected counter-signature recursion, C07 tag 2/3 on indefinite bstr, C12 ClaimsSet encode, C14 tagged body at the recursion limit, C08 / C10 header map / key set at the recursion limit, C20 extra label 0.",
    "not_applicable": na,
}
json.dump(m, open(os.path.join(ROOT, "MANIFEST.json"), "w"), indent=1)
print("checks:", [c["property_id"] for c in checks], "not claimed:", [x["property_id"] for x in na])

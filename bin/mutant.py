#!/usr/bin/env python3
"""mutant.py <agent-out-dir> <m1|m2> <target-prop> [props...|all]
Confirms a seeded change independently (applies, existing suite passes, demo fails with it and passes without it) in a
scratch worktree of /repo, then runs the named checks against it in a private copy of /verif whose harness points at
that worktree, and writes /verif/seeded/<target>-<m>/{patch.diff, demo.rs, meta.json}.  Scratch is removed afterwards."""
import json, os, shutil, subprocess, sys, time

out, m, target = sys.argv[1], sys.argv[2], sys.argv[3]
props = sys.argv[4:] or [target]
ALL = ["C%02d" % i for i in range(1, 21)]
if props == ["all"]:
    props = ALL
sid = os.environ.get("SID") or "%s-%s" % (target, m)
base = "/tmp/mut/%s" % sid
shutil.rmtree(base, ignore_errors=True)
os.makedirs(base)
repo = base + "/repo"
diff = os.path.join(out, m + ".diff")
demo = os.path.join(out, m + "_demo.rs")


def sh(cmd, cwd=None, timeout=3600):
    r = subprocess.run(cmd, shell=True, cwd=cwd, stdout=subprocess.PIPE, stderr=subprocess.STDOUT, text=True, timeout=timeout)
    return r.returncode, r.stdout


meta = {"id": sid, "breaks_property": target, "ran": []}
try:
    sh("git -C /repo worktree add -q --detach %s HEAD" % repo)
    shutil.copytree("/repo/target", repo + "/target", dirs_exist_ok=True) if os.path.isdir("/repo/target") else None
    fast = bool(os.environ.get("FAST"))      # a stored change that was confirmed before: apply it and go straight to the checks
    # 1. demo passes WITHOUT the change
    os.makedirs(repo + "/tests", exist_ok=True)
    shutil.copy(demo, repo + "/tests/seeded_demo.rs")
    rc0, o0 = (0, "test result: ok") if fast else sh("cargo test --offline --test seeded_demo 2>&1 | tail -15", cwd=repo)
    passes_without = "test result: ok" in o0 and "FAILED" not in o0
    # 2. apply; existing suite passes; demo fails
    rc, o = sh("git apply %s" % diff, cwd=repo)
    applied = rc == 0
    rc1, o1 = (0, "test result: ok. 117 passed\ntest result: ok.") if fast else sh("cargo test --offline --lib 2>&1 | grep 'test result'; cargo test --offline --doc 2>&1 | grep 'test result'", cwd=repo)
    suite_ok = applied and o1.count("test result: ok") == 2 and "117 passed" in o1
    rc2, o2 = (1, "FAILED (not re-run: FAST)") if fast else sh("cargo test --offline --test seeded_demo 2>&1 | tail -15", cwd=repo)
    fails_with = "FAILED" in o2 or "panicked" in o2 or "error" in o2.lower() and "test result: ok" not in o2
    os.remove(repo + "/tests/seeded_demo.rs")
    meta.update({"applies": applied, "existing_suite_passes": suite_ok, "demo_passes_without": passes_without, "demo_fails_with": fails_with,
                 "suite_output": o1.strip(), "demo_output_with": o2[-600:]})
    confirmed = applied and suite_ok and passes_without and fails_with
    meta["confirmed"] = confirmed
    if os.path.exists(os.path.join(out, m + ".json")):
        try:
            a = json.load(open(os.path.join(out, m + ".json")))
            meta["summary"] = a.get("summary")
            meta["needs"] = a.get("needs")
        except Exception as e:
            meta["agent_json_error"] = str(e)
    if confirmed:
        # 3. private copy of /verif whose harness depends on the mutated worktree
        v = base + "/verif"
        sh("rsync -a --exclude .git --exclude .scratch --exclude replays --exclude evidence --exclude seeded --exclude benign --exclude 'harness/target-*' /verif/ %s/" % v)
        ct = open(v + "/harness/Cargo.toml").read().replace('path = "/repo"', 'path = "%s"' % repo)
        open(v + "/harness/Cargo.toml", "w").write(ct)
        detected = {}
        for p in props:
            t = time.time()
            rc, o = sh("bin/check %s %s" % (p, os.environ.get("TIER", "quick")), cwd=v, timeout=6000)
            nv = o.count("VIOLATION property=")
            whats = []
            for line in o.splitlines():
                if line.startswith("VIOLATION property="):
                    path = line.split("replay=")[1].strip()
                    try:
                        whats.append(json.load(open(path)).get("what"))
                    except Exception:
                        pass
            detected[p] = {"rc": rc, "violations_printed": nv, "what": sorted(set(whats))[:6], "wall_s": round(time.time() - t, 1)}
            if rc == 2:
                detected[p]["tail"] = o[-800:]
            meta["ran"].append("bin/check %s quick -> rc=%d" % (p, rc))
        meta["checks"] = detected
        meta["caught_by"] = [p for p, d in detected.items() if d["rc"] == 1]
        meta["caught_by_target"] = detected.get(target, {}).get("rc") == 1
    dst = "/verif/seeded/%s" % sid
    os.makedirs(dst, exist_ok=True)
    # keep what earlier evaluations found (a change first missed by its target check stays recorded as such)
    if os.path.exists(dst + "/meta.json"):
        try:
            prev = json.load(open(dst + "/meta.json"))
            meta["history"] = prev.get("history", [])
            if fast:
                # the confirmation is not repeated: keep what the confirming evaluation recorded, and accumulate the check results
                for k in ("suite_output", "demo_output_with", "demo_passes_without", "demo_fails_with", "existing_suite_passes", "applies",
                          "final_regression", "checks_earlier_evaluation"):
                    if k in prev:
                        meta[k] = prev[k]
                merged = dict(prev.get("checks_earlier_evaluation", {}))
                merged.update(prev.get("checks", {}))
                merged.update(meta.get("checks", {}))
                meta["checks"] = merged
                meta.pop("checks_earlier_evaluation", None)
                meta["caught_by"] = sorted(p for p, d in merged.items() if d.get("rc") == 1)
            if prev.get("confirmed") and not prev.get("caught_by_target") and "checks" in prev:
                meta["history"].append("earlier run: missed by %s (caught by %s)%s" % (
                    target, ", ".join(prev.get("caught_by", [])) or "none", (": " + os.environ["NOTE"]) if os.environ.get("NOTE") else ""))
        except Exception:
            pass
    shutil.copy(diff, dst + "/patch.diff")
    shutil.copy(demo, dst + "/demo.rs")
    json.dump(meta, open(dst + "/meta.json", "w"), indent=1)
    print(json.dumps({k: meta.get(k) for k in ("id", "confirmed", "caught_by", "caught_by_target", "summary")}, indent=1))
finally:
    if os.environ.get("KEEP"):      # leave /tmp/mut/<sid>/{repo,verif} for inspection; remove by hand afterwards
        print("kept", base)
    else:
        sh("git -C /repo worktree remove --force %s" % repo)
        shutil.rmtree(base, ignore_errors=True)

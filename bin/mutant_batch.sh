#!/bin/sh
# mutant_batch.sh Cxx...   evaluate m1/m2 of each listed agent output dir: target check first, all checks if missed
for p in "$@"; do
  for m in m1 m2 m3 m4 m5 m6; do
    [ -f /tmp/wt/$p-out/$m.diff ] || continue
    [ -f /verif/seeded/$p-$m/meta.json ] && continue
    python3 /verif/bin/mutant.py /tmp/wt/$p-out $m $p $p > /tmp/mut-$p-$m.log 2>&1
    if ! grep -q '"caught_by_target": true' /tmp/mut-$p-$m.log; then
      python3 /verif/bin/mutant.py /tmp/wt/$p-out $m $p all > /tmp/mut-$p-$m.log 2>&1
    fi
    echo "$p-$m: $(python3 -c "import json; m=json.load(open('/verif/seeded/$p-$m/meta.json')); print('confirmed' if m.get('confirmed') else 'NOT-CONFIRMED', 'caught_by', m.get('caught_by'))")"
  done
done

#!/bin/sh
# mutant_r4.sh N...   evaluate m1..m3 of round-7 group N (/tmp/wt/R7-N-out); the target property is read from mK.json.
# Target (and also_breaks) checks first, every check if none of them reports.
for g in "$@"; do
  for m in m1 m2; do
    d=/tmp/wt/R7-$g-out
    [ -f $d/$m.diff ] || continue
    p=$(python3 -c "import json;print(json.load(open('$d/$m.json'))['property'])")
    also=$(python3 -c "import json;print(' '.join(x for x in json.load(open('$d/$m.json')).get('also_breaks',[]) if x.startswith('C') and len(x)==3))")
    sid=$p-r7g$g$m
    [ -f /verif/seeded/$sid/meta.json ] && continue
    SID=$sid python3 /verif/bin/mutant.py $d $m $p $p $also > /tmp/mut-$sid.log 2>&1
    if ! grep -q '"caught_by_target": true' /tmp/mut-$sid.log; then
      SID=$sid python3 /verif/bin/mutant.py $d $m $p all > /tmp/mut-$sid.log 2>&1
    fi
    echo "$sid: $(python3 -c "import json; m=json.load(open('/verif/seeded/$sid/meta.json')); print('confirmed' if m.get('confirmed') else 'NOT-CONFIRMED', 'target', m.get('caught_by_target'), 'caught_by', m.get('caught_by'))")"
  done
done

#!/bin/sh
# mutant_re.sh <sid> <props...>   re-evaluate a stored seeded change (seeded/<sid>/) against the named checks; NOTE=... is recorded in history
sid=$1; shift
d=/tmp/mutre-$sid; rm -rf $d; mkdir -p $d
cp /verif/seeded/$sid/patch.diff $d/m1.diff; cp /verif/seeded/$sid/demo.rs $d/m1_demo.rs
python3 -c "import json;m=json.load(open('/verif/seeded/$sid/meta.json'));json.dump({'summary':m.get('summary'),'needs':m.get('needs')},open('$d/m1.json','w'))"
t=$(python3 -c "import json;print(json.load(open('/verif/seeded/$sid/meta.json'))['breaks_property'])")
SID=$sid python3 /verif/bin/mutant.py $d m1 $t "$@" | tail -8
rm -rf $d

#!/bin/sh
# mutant_regress.sh <k> <n>   re-evaluates every stored seeded change whose index is k modulo n against its target check
# (run n copies in parallel with k = 0..n-1); appends "<sid> <caught|MISSED>" to /tmp/regress.log
k=$1; n=$2; i=0
for d in /verif/seeded/*/; do
  sid=$(basename $d)
  i=$((i+1))
  [ $((i % n)) -eq $k ] || continue
  grep -q "^$sid " /tmp/regress.log 2>/dev/null && continue
  t=$(python3 -c "import json;print(json.load(open('/verif/seeded/$sid/meta.json'))['breaks_property'])")
  out=$(FAST=1 /verif/bin/mutant_re.sh $sid $t 2>&1)
  if echo "$out" | grep -q '"caught_by_target": true'; then echo "$sid caught" >> /tmp/regress.log; else echo "$sid MISSED" >> /tmp/regress.log; fi
done

#!/usr/bin/env python3
"""prints the markdown table of /verif/seeded/*/meta.json (DESIGN.md section 16)"""
import json, glob, os
rows = []
for m in sorted(glob.glob(os.path.join(os.path.dirname(os.path.dirname(os.path.abspath(__file__))), "seeded", "*", "meta.json"))):
    j = json.load(open(m))
    s = (j.get("summary") or "").replace("|", "\\|").replace("\n", " ")
    if len(s) > 230:
        s = s[:227] + "..."
    caught = ", ".join(j.get("caught_by") or []) or "**none**"
    hist = "; ".join(j.get("history", []))
    rows.append("| %s | %s | %s | %s | %s |" % (j["id"], j["breaks_property"], "yes" if j.get("confirmed") else "NO", caught + (" (" + hist + ")" if hist else ""), s))
print("| id | property | confirmed | caught by (quick tier) | change |\n|---|---|---|---|---|")
print("\n".join(rows))

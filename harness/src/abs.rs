//! Abstract JSON shapes shared with the TLA+ specification.
use coset::cbor::value::{Integer, Value};
use serde_json::{json, Value as J};

pub fn jbytes(b: &[u8]) -> J {
    J::Array(b.iter().map(|x| J::from(*x)).collect())
}

pub fn bytes_of(j: &J) -> Result<Vec<u8>, String> {
    let a = j.as_array().ok_or_else(|| format!("expected byte array, got {}", j))?;
    a.iter()
        .map(|x| x.as_u64().filter(|v| *v < 256).map(|v| v as u8).ok_or_else(|| format!("bad byte {}", x)))
        .collect()
}

pub fn text_of(j: &J) -> Result<String, String> {
    String::from_utf8(bytes_of(j)?).map_err(|e| format!("invalid utf8 in abstract text: {}", e))
}

/// Option<T> is a 0/1-element array.
pub fn opt<'a>(j: &'a J) -> Result<Option<&'a J>, String> {
    let a = j.as_array().ok_or_else(|| format!("expected option array, got {}", j))?;
    match a.len() {
        0 => Ok(None),
        1 => Ok(Some(&a[0])),
        _ => Err(format!("option with {} elements", a.len())),
    }
}

pub fn jopt(o: Option<J>) -> J {
    match o {
        None => json!([]),
        Some(x) => json!([x]),
    }
}

/// magnitude bytes (big endian, no leading zeros) of a non-negative number
pub fn mag_of(mut n: u128) -> Vec<u8> {
    let mut v = Vec::new();
    while n > 0 {
        v.push((n & 0xff) as u8);
        n >>= 8;
    }
    v.reverse();
    v
}

pub fn nat_of_mag(m: &[u8]) -> Result<u128, String> {
    if m.len() > 16 {
        return Err("magnitude too large".into());
    }
    let mut n: u128 = 0;
    for b in m {
        n = (n << 8) | (*b as u128);
    }
    Ok(n)
}

/// abstract integer record from an i128
pub fn jint(i: i128) -> J {
    if i >= 0 {
        json!({"t": "int", "neg": false, "mag": jbytes(&mag_of(i as u128))})
    } else {
        json!({"t": "int", "neg": true, "mag": jbytes(&mag_of((-1 - i) as u128))})
    }
}

pub fn int_of(j: &J) -> Result<i128, String> {
    if j["t"] != "int" {
        return Err(format!("expected int record, got {}", j));
    }
    let neg = j["neg"].as_bool().ok_or("int.neg")?;
    let mag = nat_of_mag(&bytes_of(&j["mag"])?)?;
    if mag > (u64::MAX as u128) {
        return Err("int magnitude beyond CBOR range".into());
    }
    Ok(if neg { -1 - (mag as i128) } else { mag as i128 })
}

pub fn i64_of(j: &J) -> Result<i64, String> {
    i64::try_from(int_of(j)?).map_err(|_| "abstract int does not fit i64".to_string())
}

pub fn u64_of(j: &J) -> Result<u64, String> {
    u64::try_from(int_of(j)?).map_err(|_| "abstract int does not fit u64".to_string())
}

/// ciborium Value -> abstract CBOR value
pub fn jvalue(v: &Value) -> J {
    match v {
        Value::Integer(i) => jint(i128::from(*i)),
        Value::Bytes(b) => json!({"t": "bytes", "b": jbytes(b)}),
        Value::Text(s) => json!({"t": "text", "s": jbytes(s.as_bytes())}),
        Value::Array(a) => json!({"t": "array", "a": a.iter().map(jvalue).collect::<Vec<_>>()}),
        Value::Map(m) => json!({"t": "map", "m": m.iter().map(|(k, v)| json!([jvalue(k), jvalue(v)])).collect::<Vec<_>>()}),
        Value::Tag(t, x) => json!({"t": "tag", "tag": jbytes(&mag_of(*t as u128)), "x": jvalue(x)}),
        Value::Bool(b) => json!({"t": "bool", "bool": b}),
        Value::Null => json!({"t": "null"}),
        Value::Float(f) => json!({"t": "float", "bits": jbytes(&f.to_bits().to_be_bytes())}),
        _ => json!({"t": "other"}),
    }
}

/// abstract CBOR value -> ciborium Value
pub fn value_of(j: &J) -> Result<Value, String> {
    let t = j["t"].as_str().ok_or_else(|| format!("value without t: {}", j))?;
    Ok(match t {
        "int" => Value::Integer(Integer::try_from(int_of(j)?).map_err(|_| "int out of range")?),
        "bytes" => Value::Bytes(bytes_of(&j["b"])?),
        "text" => Value::Text(text_of(&j["s"])?),
        "array" => Value::Array(
            j["a"].as_array().ok_or("array.a")?.iter().map(value_of).collect::<Result<Vec<_>, _>>()?,
        ),
        "map" => Value::Map(
            j["m"]
                .as_array()
                .ok_or("map.m")?
                .iter()
                .map(|p| Ok::<_, String>((value_of(&p[0])?, value_of(&p[1])?)))
                .collect::<Result<Vec<_>, _>>()?,
        ),
        "tag" => {
            let n = nat_of_mag(&bytes_of(&j["tag"])?)?;
            Value::Tag(u64::try_from(n).map_err(|_| "tag too large")?, Box::new(value_of(&j["x"])?))
        }
        "bool" => Value::Bool(j["bool"].as_bool().ok_or("bool.bool")?),
        "null" => Value::Null,
        "float" => {
            let b = bytes_of(&j["bits"])?;
            if b.len() != 8 {
                return Err("float bits".into());
            }
            let mut a = [0u8; 8];
            a.copy_from_slice(&b);
            Value::Float(f64::from_bits(u64::from_be_bytes(a)))
        }
        other => return Err(format!("unknown value kind {}", other)),
    })
}

pub fn hex(b: &[u8]) -> String {
    b.iter().map(|x| format!("{:02x}", x)).collect()
}

//! Decodes ONE input with ONE entry point on the default main-thread stack, then runs the follow-ups.
//! usage: child <type> <registry|-> <api> <file>      exit 0 + one line "accepted" | "rejected" | "bad <what>"
//! A panic exits 101; a stack overflow is a SIGABRT / SIGSEGV of this process -- both are data for the parent.
use coset_verif_harness::gen::{decode_and_follow, lean_decode_and_follow};

fn main() {
    let a: Vec<String> = std::env::args().collect();
    if a.len() != 5 {
        eprintln!("usage: child <type> <registry|-> <api> <file>");
        std::process::exit(3);
    }
    let bytes = std::fs::read(&a[4]).expect("read input");
    let reg = if a[2] == "-" { "" } else { a[2].as_str() };
    // no catch_unwind, default panic hook: the exit status tells the story
    // lean path: no projection, so the time and stack measured are the crate's own
    if let Some((acc, bad)) = lean_decode_and_follow(&a[1], reg, &a[3], &bytes) {
        match bad {
            None => println!("{}", if acc { "accepted" } else { "rejected" }),
            Some(w) => println!("bad {}", w),
        }
        return;
    }
    let o = decode_and_follow(&a[1], reg, &a[3], &bytes);
    match o.bad {
        None => println!("{}", if o.accepted { "accepted" } else { "rejected" }),
        Some((what, ev)) => println!("bad {} {}", what, ev),
    }
}

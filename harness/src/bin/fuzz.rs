//! C01 driver: exhaustive short strings and seeded random / mutated inputs through EVERY decoding entry
//! point in process (catch_unwind), each accepted value then put through every follow-up operation.
//! usage: fuzz --prop C01 --seed S --tier quick|thorough --summary out.json [--replay-dir d] [--known f]
use coset_verif_harness::gen::*;
use coset_verif_harness::machine::silence_panics;
use coset_verif_harness::runner::{Ctx, Known};
use coset_verif_harness::runner6::fuzz_one;

fn arg(name: &str) -> Option<String> {
    let a: Vec<String> = std::env::args().collect();
    a.iter().position(|x| x == name).and_then(|i| a.get(i + 1).cloned())
}

fn hexlits(src: &str) -> Vec<Vec<u8>> {
    // hex literals of the repository's own test vectors: maximal runs of hex digits of even length >= 2 inside quotes
    let mut out = vec![];
    let mut cur: Vec<u8> = vec![];
    let mut joined: Vec<u8> = vec![];
    for line in src.lines() {
        let t = line.trim();
        if let Some(rest) = t.strip_prefix('"') {
            if let Some(end) = rest.find('"') {
                let lit = &rest[..end];
                if !lit.is_empty() && lit.len() % 2 == 0 && lit.chars().all(|c| c.is_ascii_hexdigit()) {
                    cur.clear();
                    for i in (0..lit.len()).step_by(2) {
                        cur.push(u8::from_str_radix(&lit[i..i + 2], 16).unwrap());
                    }
                    joined.extend_from_slice(&cur);
                    continue;
                }
            }
        }
        if !joined.is_empty() {
            out.push(std::mem::take(&mut joined));
        }
    }
    out
}

const SHAPES: [&str; 12] = ["header-int-labels", "header-text-labels", "key-params", "claims", "crit-labels", "key-ops", "signers", "recipients",
                            "keyset", "kdf-priv-slots", "counter-signatures", "sign1-protected-map"];

fn head(mj: u8, n: usize, o: &mut Vec<u8>) {
    if n < 24 {
        o.push(mj << 5 | n as u8);
    } else if n < 256 {
        o.extend_from_slice(&[mj << 5 | 24, n as u8]);
    } else if n < 65536 {
        o.push(mj << 5 | 25);
        o.extend_from_slice(&(n as u16).to_be_bytes());
    } else {
        o.push(mj << 5 | 26);
        o.extend_from_slice(&(n as u32).to_be_bytes());
    }
}
fn text3(i: usize, o: &mut Vec<u8>) {
    // distinct 4-letter texts
    o.push(0x64);
    o.extend_from_slice(&[b'a' + (i % 26) as u8, b'a' + ((i / 26) % 26) as u8, b'a' + ((i / 676) % 26) as u8, b'a' + ((i / 17576) % 26) as u8]);
}
/// (entry point, wire) of a wide structure with n elements
fn wide(shape: &str, n: usize) -> (&'static str, Vec<u8>) {
    let mut o = vec![];
    match shape {
        "header-int-labels" => {
            head(5, n, &mut o);
            for i in 0..n {
                head(0, 100 + i, &mut o);
                o.push(1);
            }
            ("Header", o)
        }
        "header-text-labels" => {
            head(5, n, &mut o);
            for i in 0..n {
                text3(i, &mut o);
                o.push(1);
            }
            ("Header", o)
        }
        "key-params" => {
            head(5, n + 1, &mut o);
            o.extend_from_slice(&[1, 1]);
            for i in 0..n {
                head(0, 100 + i, &mut o);
                o.push(1);
            }
            ("CoseKey", o)
        }
        "claims" => {
            head(5, n, &mut o);
            for i in 0..n {
                text3(i, &mut o);
                o.push(1);
            }
            ("ClaimsSet", o)
        }
        "crit-labels" => {
            o.extend_from_slice(&[0xa1, 2]);
            head(4, n, &mut o);
            for i in 0..n {
                text3(i, &mut o);
            }
            ("Header", o)
        }
        "key-ops" => {
            o.extend_from_slice(&[0xa2, 1, 1, 4]);
            head(4, n, &mut o);
            for i in 0..n {
                text3(i, &mut o);
            }
            ("CoseKey", o)
        }
        "signers" => {
            o.extend_from_slice(&[0x84, 0x40, 0xa0, 0xf6]);
            head(4, n, &mut o);
            for _ in 0..n {
                o.extend_from_slice(&[0x83, 0x40, 0xa0, 0x40]);
            }
            ("CoseSign", o)
        }
        "recipients" => {
            o.extend_from_slice(&[0x84, 0x40, 0xa0, 0xf6]);
            head(4, n, &mut o);
            for _ in 0..n {
                o.extend_from_slice(&[0x83, 0x40, 0xa0, 0xf6]);
            }
            ("CoseEncrypt", o)
        }
        "keyset" => {
            head(4, n, &mut o);
            for _ in 0..n {
                o.extend_from_slice(&[0xa1, 1, 1]);
            }
            ("CoseKeySet", o)
        }
        "kdf-priv-slots" => {
            head(4, n + 4, &mut o);
            o.extend_from_slice(&[1, 0x83, 0xf6, 0xf6, 0xf6, 0x83, 0xf6, 0xf6, 0xf6, 0x82, 0x18, 0x80, 0x40]);
            for _ in 0..n {
                o.extend_from_slice(&[0x41, 7]);
            }
            ("CoseKdfContext", o)
        }
        "counter-signatures" => {
            o.extend_from_slice(&[0xa1, 7]);
            head(4, n, &mut o);
            for _ in 0..n {
                o.extend_from_slice(&[0x83, 0x40, 0xa0, 0x40]);
            }
            ("Header", o)
        }
        _ => {
            // sign1-protected-map
            let (_, inner) = wide("header-int-labels", n);
            o.push(0x84);
            head(2, inner.len(), &mut o);
            o.extend_from_slice(&inner);
            o.extend_from_slice(&[0xa0, 0xf6, 0x40]);
            ("CoseSign1", o)
        }
    }
}
/// best of three: seconds to decode the wide structure and run the follow-up operations on it
fn time_shape(shape: &str, n: usize) -> f64 {
    let (ty, w) = wide(shape, n);
    let mut best = f64::MAX;
    for _ in 0..3 {
        let t = std::time::Instant::now();
        let r = coset_verif_harness::gen::lean_decode_and_follow(ty, "", "slice", &w);
        let dt = t.elapsed().as_secs_f64();
        if let Some((accepted, _)) = r {
            if !accepted {
                return 0.0; // the shape is meant to be accepted; a rejection is not this probe's business
            }
        }
        if dt < best {
            best = dt;
        }
    }
    best
}

fn main() {
    silence_panics();
    let seed: u64 = arg("--seed").and_then(|s| s.parse().ok()).unwrap_or(1);
    let tier = arg("--tier").unwrap_or_else(|| "quick".into());
    let summary = arg("--summary").expect("--summary");
    let replay_dir = arg("--replay-dir").unwrap_or_else(|| "/verif/replays".into());
    let known: Vec<Known> = vec![];
    let mut ctx = Ctx::new("C01", &replay_dir, known);
    let mut rng = Rng(seed ^ 0xc0537);
    // 1. all strings of length <= 2 (65 793 of them), exhaustively
    fuzz_one(&mut ctx, &[], "exhaustive");
    for a in 0..=255u8 {
        fuzz_one(&mut ctx, &[a], "exhaustive");
    }
    let two = if tier == "thorough" { 256 } else { 256 };
    for a in 0..two {
        for b in 0..=255u8 {
            fuzz_one(&mut ctx, &[a as u8, b], "exhaustive");
        }
    }
    // 2. seeds: the repository's own test vectors (read from the current working tree)
    let mut seeds: Vec<Vec<u8>> = vec![];
    for m in ["common", "context", "cwt", "encrypt", "header", "key", "mac", "sign"] {
        if let Ok(s) = std::fs::read_to_string(format!("/repo/src/{}/tests.rs", m)) {
            seeds.extend(hexlits(&s));
        }
    }
    seeds.retain(|s| s.len() <= 2048);
    for s in &seeds {
        fuzz_one(&mut ctx, s, "repo-test-vector");
    }
    let n_mut = if tier == "thorough" { 400_000 } else { 12_000 };
    let n_rand = if tier == "thorough" { 100_000 } else { 4_000 };
    if !seeds.is_empty() {
        for _ in 0..n_mut {
            let a = &seeds[rng.below(seeds.len())];
            let b = &seeds[rng.below(seeds.len())];
            let m = mutate(&mut rng, a, b);
            fuzz_one(&mut ctx, &m, "mutated-test-vector");
        }
    }
    // 3. uniform random bytes, lengths 3..64
    for _ in 0..n_rand {
        let len = 3 + rng.below(62);
        let b: Vec<u8> = (0..len).map(|_| rng.byte()).collect();
        fuzz_one(&mut ctx, &b, "random");
    }
    // 4. scaling (the resource clause: time proportional to the input).  Each wide shape is decoded (with the follow-up
    //    operations) at n and 4n elements; a decoder whose cost grows quadratically shows a ratio near 16 instead of 4.
    //    Reported only when BOTH the ratio is far from linear AND the larger input takes more than a second (so that a
    //    loaded machine, which slows both measurements alike, cannot raise an alarm).
    let (n1, n2) = (16_000usize, 64_000usize);
    let mut scaling = vec![];
    for shape in SHAPES {
        let mut t1 = time_shape(shape, n1);
        let mut t2 = time_shape(shape, n2);
        let mut ratio = if t1 > 0.0 { t2 / t1 } else { 0.0 };
        if t2 > 1.0 && ratio > 8.0 {
            // suspicious: measure again, the two sizes interleaved (a load change between the two first measurements must not count)
            for _ in 0..4 {
                t1 = t1.min(time_shape(shape, n1));
                t2 = t2.min(time_shape(shape, n2));
            }
            ratio = if t1 > 0.0 { t2 / t1 } else { 0.0 };
        }
        scaling.push(serde_json::json!({"shape": shape, "n": [n1, n2], "seconds": [t1, t2], "ratio": ratio}));
        ctx.evaluations += 2;
        ctx.judged += 1;
        if t2 > 1.0 && ratio > 8.0 {
            let v = serde_json::json!({"kind": "scaling", "props": ["C01"], "shape": shape, "n": [n1, n2], "seconds": [t1, t2], "ratio": ratio,
                                       "how": "wire built by harness/src/bin/fuzz.rs::wide(shape, n); decoded by the entry point of that shape with follow-ups"});
            ctx.mismatch("C01", &v, "decode-time-not-proportional-to-input", serde_json::json!({"ratio": ratio, "seconds_at_4n": t2}));
        }
    }
    let mut s = ctx.summary();
    s["scaling"] = serde_json::json!(scaling);
    s["extra"] = serde_json::json!({"seeds_from_repo_tests": seeds.len(), "mutations": n_mut, "random": n_rand, "entry_points": entry_points().len()});
    s["vectors"] = serde_json::json!(ctx.distinct.len());
    s["samples"] = serde_json::json!([{"exhaustive": "all byte strings of length 0, 1, 2"}, {"seed_example_hex": seeds.get(0).map(|x| coset_verif_harness::abs::hex(x))}]);
    std::fs::write(&summary, serde_json::to_string_pretty(&s).unwrap()).expect("write summary");
    if ctx.violations > 0 {
        std::process::exit(1);
    }
    if ctx.harness_errors > 0 {
        eprintln!("harness errors: {:?}", ctx.harness_error_samples);
        std::process::exit(2);
    }
}

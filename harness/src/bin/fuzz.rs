//! C01 driver: exhaustive short strings and seeded random / mutated inputs through EVERY decoding entry
//! point in process (catch_unwind), each accepted value then put through every follow-up operation.
//! usage: fuzz --prop C01 --seed S --tier quick|thorough --summary out.json [--replay-dir d] [--known f]
use coset_verif_harness::gen::*;
use coset_verif_harness::machine::silence_panics;
use coset_verif_harness::runner::{Ctx, Known};
use coset_verif_harness::runner6::fuzz_one;

fn arg(name: &str) -> Option<String> {
    let a: Vec<String> = std::env::args().collect();
    a.iter().position(|x| x == name).and_then(|i| a.get(i + 1).cloned())
}

fn hexlits(src: &str) -> Vec<Vec<u8>> {
    // hex literals of the repository's own test vectors: maximal runs of hex digits of even length >= 2 inside quotes
    let mut out = vec![];
    let mut cur: Vec<u8> = vec![];
    let mut joined: Vec<u8> = vec![];
    for line in src.lines() {
        let t = line.trim();
        if let Some(rest) = t.strip_prefix('"') {
            if let Some(end) = rest.find('"') {
                let lit = &rest[..end];
                if !lit.is_empty() && lit.len() % 2 == 0 && lit.chars().all(|c| c.is_ascii_hexdigit()) {
                    cur.clear();
                    for i in (0..lit.len()).step_by(2) {
                        cur.push(u8::from_str_radix(&lit[i..i + 2], 16).unwrap());
                    }
                    joined.extend_from_slice(&cur);
                    continue;
                }
            }
        }
        if !joined.is_empty() {
            out.push(std::mem::take(&mut joined));
        }
    }
    out
}

fn main() {
    silence_panics();
    let seed: u64 = arg("--seed").and_then(|s| s.parse().ok()).unwrap_or(1);
    let tier = arg("--tier").unwrap_or_else(|| "quick".into());
    let summary = arg("--summary").expect("--summary");
    let replay_dir = arg("--replay-dir").unwrap_or_else(|| "/verif/replays".into());
    let known: Vec<Known> = vec![];
    let mut ctx = Ctx::new("C01", &replay_dir, known);
    let mut rng = Rng(seed ^ 0xc0537);
    // 1. all strings of length <= 2 (65 793 of them), exhaustively
    fuzz_one(&mut ctx, &[], "exhaustive");
    for a in 0..=255u8 {
        fuzz_one(&mut ctx, &[a], "exhaustive");
    }
    let two = if tier == "thorough" { 256 } else { 256 };
    for a in 0..two {
        for b in 0..=255u8 {
            fuzz_one(&mut ctx, &[a as u8, b], "exhaustive");
        }
    }
    // 2. seeds: the repository's own test vectors (read from the current working tree)
    let mut seeds: Vec<Vec<u8>> = vec![];
    for m in ["common", "context", "cwt", "encrypt", "header", "key", "mac", "sign"] {
        if let Ok(s) = std::fs::read_to_string(format!("/repo/src/{}/tests.rs", m)) {
            seeds.extend(hexlits(&s));
        }
    }
    seeds.retain(|s| s.len() <= 2048);
    for s in &seeds {
        fuzz_one(&mut ctx, s, "repo-test-vector");
    }
    let n_mut = if tier == "thorough" { 400_000 } else { 12_000 };
    let n_rand = if tier == "thorough" { 100_000 } else { 4_000 };
    if !seeds.is_empty() {
        for _ in 0..n_mut {
            let a = &seeds[rng.below(seeds.len())];
            let b = &seeds[rng.below(seeds.len())];
            let m = mutate(&mut rng, a, b);
            fuzz_one(&mut ctx, &m, "mutated-test-vector");
        }
    }
    // 3. uniform random bytes, lengths 3..64
    for _ in 0..n_rand {
        let len = 3 + rng.below(62);
        let b: Vec<u8> = (0..len).map(|_| rng.byte()).collect();
        fuzz_one(&mut ctx, &b, "random");
    }
    let mut s = ctx.summary();
    s["extra"] = serde_json::json!({"seeds_from_repo_tests": seeds.len(), "mutations": n_mut, "random": n_rand, "entry_points": entry_points().len()});
    s["vectors"] = serde_json::json!(ctx.distinct.len());
    s["samples"] = serde_json::json!([{"exhaustive": "all byte strings of length 0, 1, 2"}, {"seed_example_hex": seeds.get(0).map(|x| coset_verif_harness::abs::hex(x))}]);
    std::fs::write(&summary, serde_json::to_string_pretty(&s).unwrap()).expect("write summary");
    if ctx.violations > 0 {
        std::process::exit(1);
    }
    if ctx.harness_errors > 0 {
        eprintln!("harness errors: {:?}", ctx.harness_error_samples);
        std::process::exit(2);
    }
}

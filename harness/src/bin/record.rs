//! implementation -> specification: drives the real crate and writes an ndjson trace
//! ({"e": event, "o": observation} per line, sessions separated by {"e":{"ev":"reset"}}).
//!
//!   record --from-vectors            stdin = TLC vector lines; re-executes every session and logs what the crate did
//!   record --gen <family> --n N --seed S     seeded generators (see harness/src/tracegen.rs)
//!   --out <file>   --corrupt <k>     (negative control: corrupt one logged field of event k)
use coset_verif_harness::machine::{silence_panics, Machine};
use coset_verif_harness::tracegen;
use serde_json::{json, Value as J};
use std::io::{BufRead, Write};

fn arg(name: &str) -> Option<String> {
    let a: Vec<String> = std::env::args().collect();
    a.iter().position(|x| x == name).and_then(|i| a.get(i + 1).cloned())
}

pub fn log_session(out: &mut impl Write, steps: &[J], n: &mut u64) {
    let mut m = Machine::new();
    for e in steps {
        let mut o = if e["ev"] == "cmp" { tracegen::cmp_obs(e) } else { m.step(e) };
        if o["kind"] == "harness" {
            break;
        }
        // values that cannot be observed exactly (private KDF fields) are not compared by TLC
        let cmpval = !coset_verif_harness::judge::has_unobservable(&o) && !coset_verif_harness::judge::has_unknown(&o) && !o.to_string().contains("\"?\"");
        o["cmpval"] = json!(cmpval);
        if !cmpval {
            o["val"] = json!([]);
        }
        writeln!(out, "{}", json!({"e": e, "o": o})).unwrap();
        *n += 1;
    }
    writeln!(out, "{}", json!({"e": {"ev": "reset"}, "o": {}})).unwrap();
    *n += 1;
}

fn main() {
    silence_panics();
    let out_path = arg("--out").expect("--out");
    let mut out = std::io::BufWriter::new(std::fs::File::create(&out_path).expect("create trace"));
    let mut n = 0u64;
    let mut sessions = 0u64;
    if std::env::args().any(|a| a == "--from-vectors") {
        let max: u64 = arg("--max").and_then(|s| s.parse().ok()).unwrap_or(u64::MAX);
        for line in std::io::stdin().lock().lines().flatten() {
            if !line.starts_with("\"{") {
                continue;
            }
            let v: J = match serde_json::from_str::<String>(&line).ok().and_then(|s| coset_verif_harness::json_deep(&s)) {
                Some(v) => v,
                None => continue,
            };
            if v["kind"] == "session" && sessions < max {
                if let Some(steps) = v["steps"].as_array() {
                    log_session(&mut out, steps, &mut n);
                    sessions += 1;
                }
            }
        }
    } else {
        let fam = arg("--gen").expect("--gen");
        let count: u64 = arg("--n").and_then(|s| s.parse().ok()).unwrap_or(1000);
        let seed: u64 = arg("--seed").and_then(|s| s.parse().ok()).unwrap_or(1);
        let mut g = tracegen::Gen::new(seed);
        for _ in 0..count {
            let steps = g.session(&fam);
            log_session(&mut out, &steps, &mut n);
            sessions += 1;
        }
    }
    out.flush().unwrap();
    println!("{}", json!({"events": n, "sessions": sessions, "file": out_path}));
}

//! stdin: the output of a TLC run (vector lines are JSON strings as printed by PrintT(ToJson(..)));
//! executes every vector on the real crate, prints VIOLATION lines, writes a summary JSON.
use coset_verif_harness::machine::silence_panics;
use coset_verif_harness::runner::{run_vector_guarded, Ctx, Known};
use std::io::{BufRead, Write};

fn arg(name: &str) -> Option<String> {
    let a: Vec<String> = std::env::args().collect();
    a.iter().position(|x| x == name).and_then(|i| a.get(i + 1).cloned())
}

fn load_known(path: &str) -> Vec<Known> {
    let mut out = vec![];
    if let Ok(s) = std::fs::read_to_string(path) {
        for line in s.lines() {
            let line = line.trim();
            if !line.starts_with("known:") {
                continue;
            }
            // known: property=C07 tag=<tag> <text>
            let mut prop = String::new();
            let mut tag = String::new();
            let mut what: Option<String> = None;
            let mut text = vec![];
            for w in line["known:".len()..].split_whitespace() {
                if let Some(p) = w.strip_prefix("property=") {
                    prop = p.into();
                } else if let Some(t) = w.strip_prefix("tag=") {
                    tag = t.into();
                } else if let Some(t) = w.strip_prefix("what=") {
                    what = Some(t.into());
                } else {
                    text.push(w);
                }
            }
            if !prop.is_empty() && !tag.is_empty() {
                out.push(Known { prop, tag, what, text: text.join(" ") });
            }
        }
    }
    out
}

fn main() {
    silence_panics();
    let prop = arg("--prop").expect("--prop");
    let replay_dir = arg("--replay-dir").unwrap_or_else(|| "/verif/replays".into());
    let summary = arg("--summary").expect("--summary");
    let known = arg("--known").map(|p| load_known(&p)).unwrap_or_default();
    let mut tlc_log = arg("--tlc-log").map(|p| std::fs::File::create(p).expect("tlc log"));
    let mut ctx = Ctx::new(&prop, &replay_dir, known);
    ctx.derive = std::env::args().any(|a| a == "--derive");
    if let Some(s) = arg("--scratch") {
        ctx.scratch = s;
    }
    ctx.fuzz_per_wire = arg("--fuzz-per-wire").and_then(|s| s.parse().ok()).unwrap_or(0);
    ctx.rng = coset_verif_harness::gen::Rng(arg("--seed").and_then(|s| s.parse().ok()).unwrap_or(1));
    let stdin = std::io::stdin();
    let mut bad_lines = 0u64;
    // a time-bounded TLC run is stopped from outside and may leave its last line cut off: with --allow-cut a bad FINAL line is not an error
    let allow_cut = std::env::args().any(|a| a == "--allow-cut");
    let mut last_bad = false;
    for line in stdin.lock().lines() {
        let line = match line {
            Ok(l) => l,
            Err(_) => continue,
        };
        let before = bad_lines;
        if line.starts_with("\"{") {
            // a TLA+ string literal holding JSON: unescape, then parse
            match serde_json::from_str::<String>(&line).ok().and_then(|s| coset_verif_harness::json_deep(&s)) {
                Some(v) => run_vector_guarded(&mut ctx, &v),
                None => bad_lines += 1,
            }
        } else if line.starts_with('{') {
            match serde_json::from_str::<serde_json::Value>(&line) {
                Ok(v) => run_vector_guarded(&mut ctx, &v),
                Err(_) => bad_lines += 1,
            }
        } else if let Some(f) = tlc_log.as_mut() {
            let _ = writeln!(f, "{}", line);
        }
        last_bad = bad_lines > before;
    }
    if allow_cut && last_bad {
        bad_lines -= 1;
    }
    let mut s = ctx.summary();
    s["bad_lines"] = serde_json::json!(bad_lines);
    std::fs::write(&summary, serde_json::to_string_pretty(&s).unwrap()).expect("write summary");
    for (t, n) in &ctx.known_hits {
        println!("KNOWN-FINDING: {} ({} occurrences)", t, n);
    }
    if ctx.violations > 0 {
        std::process::exit(1);
    }
    if ctx.harness_errors > 0 || bad_lines > 0 {
        eprintln!("harness errors: {} bad lines: {} {:?}", ctx.harness_errors, bad_lines, ctx.harness_error_samples);
        std::process::exit(2);
    }
}

//! Seeded generators and the "decode with every entry point, then do everything a user can do with the
//! value" driver used by the C01 checks (in-process under catch_unwind, or in a child process).
use crate::abs::*;
use crate::machine::*;
use serde_json::{json, Value as J};

/// splitmix64: small, seedable, no dependency
pub struct Rng(pub u64);
impl Rng {
    pub fn next(&mut self) -> u64 {
        self.0 = self.0.wrapping_add(0x9e3779b97f4a7c15);
        let mut z = self.0;
        z = (z ^ (z >> 30)).wrapping_mul(0xbf58476d1ce4e5b9);
        z = (z ^ (z >> 27)).wrapping_mul(0x94d049bb133111eb);
        z ^ (z >> 31)
    }
    pub fn below(&mut self, n: usize) -> usize {
        if n == 0 {
            0
        } else {
            (self.next() % n as u64) as usize
        }
    }
    pub fn byte(&mut self) -> u8 {
        (self.next() & 0xff) as u8
    }
}

/// every byte-level decoding entry point: (label, type, registry, api)
pub fn entry_points() -> Vec<(&'static str, &'static str, &'static str)> {
    let mut v: Vec<(&'static str, &'static str, &'static str)> = vec![];
    for ty in [
        "Header", "ProtectedHeader", "CoseSignature", "CoseSign", "CoseSign1", "CoseMac", "CoseMac0", "CoseEncrypt", "CoseEncrypt0",
        "CoseRecipient", "CoseKey", "CoseKeySet", "ClaimsSet", "PartyInfo", "SuppPubInfo", "CoseKdfContext", "Label", "Value", "Timestamp",
    ] {
        v.push((ty, "", "slice"));
    }
    for ty in ["CoseSign", "CoseSign1", "CoseMac", "CoseMac0", "CoseEncrypt", "CoseEncrypt0"] {
        v.push((ty, "", "tagged"));
    }
    v.push(("ProtectedHeader", "", "bstr"));
    for reg in ["Algorithm", "CwtClaimName", "HeaderParameter", "EllipticCurve"] {
        v.push(("RegisteredLabelWithPrivate", reg, "slice"));
    }
    for reg in ["CoapContentFormat", "KeyType", "KeyOperation", "HeaderParameter", "KeyParameter", "CborTag"] {
        v.push(("RegisteredLabel", reg, "slice"));
    }
    v
}

/// the follow-up events available on the held value that the documentation does NOT declare panicking
pub fn followups(m: &Machine) -> Vec<J> {
    let aad = jbytes(&[0xaa, 0xbb]);
    let pl = jbytes(&[0x55]);
    let vr = json!({"ok": true, "bytes": []});
    let dr = json!({"ok": false, "bytes": [1]});
    let mut ev = vec![json!({"ev": "encode", "api": "vec"}), json!({"ev": "clone_eq"})];
    match &m.mem {
        Obj::Sign1(x) => {
            ev.push(json!({"ev": "encode", "api": "tagged"}));
            ev.push(json!({"ev": "tbs", "m": "tbs_data", "aad": aad}));
            ev.push(json!({"ev": "verify", "m": "verify_signature", "aad": aad, "res": vr}));
            if x.payload.is_none() {
                ev.push(json!({"ev": "tbs", "m": "tbs_detached_data", "pl": pl, "aad": aad}));
                ev.push(json!({"ev": "verify", "m": "verify_detached_signature", "pl": pl, "aad": aad, "res": vr}));
            }
        }
        Obj::Sign(x) => {
            ev.push(json!({"ev": "encode", "api": "tagged"}));
            for w in 0..x.signatures.len().min(4) {
                ev.push(json!({"ev": "tbs", "m": "tbs_data", "which": w, "aad": aad}));
                ev.push(json!({"ev": "verify", "m": "verify_signature", "which": w, "aad": aad, "res": vr}));
                if x.payload.is_none() {
                    ev.push(json!({"ev": "verify", "m": "verify_detached_signature", "which": w, "pl": pl, "aad": aad, "res": dr}));
                }
            }
        }
        Obj::Mac(x) => {
            ev.push(json!({"ev": "encode", "api": "tagged"}));
            if x.payload.is_some() {
                ev.push(json!({"ev": "verify", "m": "verify_tag", "aad": aad, "res": vr}));
            }
        }
        Obj::Mac0(x) => {
            ev.push(json!({"ev": "encode", "api": "tagged"}));
            if x.payload.is_some() {
                ev.push(json!({"ev": "verify", "m": "verify_tag", "aad": aad, "res": dr}));
            }
        }
        Obj::Encrypt(x) => {
            ev.push(json!({"ev": "encode", "api": "tagged"}));
            if x.ciphertext.is_some() {
                ev.push(json!({"ev": "verify", "m": "decrypt", "aad": aad, "res": vr}));
            }
        }
        Obj::Encrypt0(x) => {
            ev.push(json!({"ev": "encode", "api": "tagged"}));
            if x.ciphertext.is_some() {
                ev.push(json!({"ev": "verify", "m": "decrypt", "aad": aad, "res": dr}));
            }
        }
        Obj::Recipient(x) => {
            if x.ciphertext.is_some() {
                ev.push(json!({"ev": "verify", "m": "decrypt", "ctx": "MacRecipient", "aad": aad, "res": vr}));
            }
        }
        Obj::Prot(_) => ev.push(json!({"ev": "encode", "api": "bstr"})),
        _ => {}
    }
    ev
}

pub struct Outcome {
    pub accepted: bool,
    /// (what, event) of the first non-returning / failing step
    pub bad: Option<(String, J)>,
    pub followups: usize,
}

/// decode `bytes` with one entry point; on success run every non-documented-panic follow-up
pub fn decode_and_follow(ty: &str, reg: &str, api: &str, bytes: &[u8]) -> Outcome {
    let mut m = Machine::new();
    m.wire = Some(bytes.to_vec());
    let dec = json!({"ev": "decode", "api": api, "ty": ty, "reg": reg});
    let o = m.step(&dec);
    match o["kind"].as_str() {
        Some("err") => return Outcome { accepted: false, bad: None, followups: 0 },
        Some("ok") => {}
        Some("panic") => return Outcome { accepted: false, bad: Some(("decode-panicked".into(), dec)), followups: 0 },
        _ => return Outcome { accepted: false, bad: Some((format!("harness: {}", o["err"]), dec)), followups: 0 },
    }
    let evs = followups(&m);
    let n = evs.len();
    for e in evs {
        let o = m.step(&e);
        match o["kind"].as_str() {
            Some("ok") => {}
            // a decoded value always re-encodes (its protected headers carry their bytes)
            Some("err") if e["ev"] == "encode" => return Outcome { accepted: true, bad: Some(("accepted-value-does-not-encode".into(), e)), followups: n },
            Some("err") => {}
            Some("panic") => return Outcome { accepted: true, bad: Some(("follow-up-panicked".into(), e)), followups: n },
            _ => return Outcome { accepted: true, bad: Some((format!("harness: {}", o["err"]), e)), followups: n },
        }
    }
    // dropping the value is part of what must not crash
    m.mem = Obj::None;
    Outcome { accepted: true, bad: None, followups: n }
}

/// bit / byte / splice / truncate / extend mutations
pub fn mutate(rng: &mut Rng, seed: &[u8], other: &[u8]) -> Vec<u8> {
    let mut b = seed.to_vec();
    let n = 1 + rng.below(3);
    for _ in 0..n {
        match rng.below(9) {
            0 if !b.is_empty() => {
                let i = rng.below(b.len());
                b[i] ^= 1 << rng.below(8);
            }
            1 if !b.is_empty() => {
                let i = rng.below(b.len());
                b[i] = rng.byte();
            }
            2 if !b.is_empty() => {
                let i = rng.below(b.len());
                b.remove(i);
            }
            3 => {
                let i = rng.below(b.len() + 1);
                b.insert(i, rng.byte());
            }
            4 if !b.is_empty() => {
                let k = rng.below(b.len());
                b.truncate(k);
            }
            5 if !other.is_empty() => {
                let i = rng.below(b.len() + 1);
                let (s, e) = {
                    let s = rng.below(other.len());
                    (s, s + rng.below(other.len() - s + 1))
                };
                let tail = b.split_off(i);
                b.extend_from_slice(&other[s..e]);
                b.extend_from_slice(&tail);
            }
            6 if !b.is_empty() => {
                // boundary values in a head position
                let i = rng.below(b.len());
                b[i] = [0x17, 0x18, 0x19, 0x1a, 0x1b, 0x1f, 0x3b, 0x5f, 0x7f, 0x9f, 0xbf, 0xc2, 0xc3, 0xf9, 0xfb, 0xff][rng.below(16)];
            }
            7 if b.len() >= 2 => {
                let i = rng.below(b.len() - 1);
                b.swap(i, i + 1);
            }
            _ => {
                // huge declared length without data
                let mj = [0x5b, 0x7b, 0x9b, 0xbb, 0x5a, 0x9a][rng.below(6)];
                let i = rng.below(b.len() + 1);
                let mut ins = vec![mj];
                for _ in 0..(if mj & 1 == 1 { 8 } else { 4 }) {
                    ins.push(0xff);
                }
                let tail = b.split_off(i);
                b.extend_from_slice(&ins);
                b.extend_from_slice(&tail);
            }
        }
    }
    b
}

// ------------------------------------------------------------------------------------------------
// Lean path (no projection to JSON): used by the child process and by the in-process fuzz sweep, so that
// the time and stack measured are the crate's, not the harness'.
use coset::{
    cwt::ClaimsSet, CborSerializable, CoseEncrypt, CoseEncrypt0, CoseError, CoseKdfContext, CoseKey, CoseKeySet, CoseMac, CoseMac0,
    CoseRecipient, CoseSign, CoseSign1, CoseSignature, EncryptionContext, Header, Label, PartyInfo, ProtectedHeader, SuppPubInfo,
    TaggedCborSerializable,
};

/// everything a user can do with a decoded value that the documentation does not declare panicking
pub trait Follow: Sized + Clone + PartialEq {
    fn encode(self) -> Result<Vec<u8>, CoseError>;
    fn follow(&self) {}
}

const AAD: &[u8] = &[0xaa, 0xbb];
const PL: &[u8] = &[0x55];

macro_rules! plain_follow {
    ($($t:ty),*) => { $( impl Follow for $t { fn encode(self) -> Result<Vec<u8>, CoseError> { self.to_vec() } } )* };
}
plain_follow!(Header, ProtectedHeader, CoseSignature, CoseKey, CoseKeySet, ClaimsSet, PartyInfo, SuppPubInfo, CoseKdfContext, Label, coset::cbor::value::Value);

impl Follow for CoseSign1 {
    fn encode(self) -> Result<Vec<u8>, CoseError> {
        self.to_vec()
    }
    fn follow(&self) {
        let _ = self.tbs_data(AAD);
        let _ = self.verify_signature(AAD, |_s, _d| Ok::<(), ()>(()));
        if self.payload.is_none() {
            let _ = self.tbs_detached_data(PL, AAD);
            let _ = self.verify_detached_signature(PL, AAD, |_s, _d| Err::<(), ()>(()));
        }
        let _ = self.clone().to_tagged_vec();
    }
}
impl Follow for CoseSign {
    fn encode(self) -> Result<Vec<u8>, CoseError> {
        self.to_vec()
    }
    fn follow(&self) {
        for (i, sig) in self.signatures.iter().enumerate().take(4) {
            let _ = self.tbs_data(AAD, sig);
            let _ = self.verify_signature(i, AAD, |_s, _d| Ok::<(), ()>(()));
            if self.payload.is_none() {
                let _ = self.tbs_detached_data(PL, AAD, sig);
                let _ = self.verify_detached_signature(i, PL, AAD, |_s, _d| Err::<(), ()>(()));
            }
        }
        let _ = self.clone().to_tagged_vec();
    }
}
impl Follow for CoseMac {
    fn encode(self) -> Result<Vec<u8>, CoseError> {
        self.to_vec()
    }
    fn follow(&self) {
        if self.payload.is_some() {
            let _ = self.verify_tag(AAD, |_t, _d| Ok::<(), ()>(()));
        }
        let _ = self.clone().to_tagged_vec();
    }
}
impl Follow for CoseMac0 {
    fn encode(self) -> Result<Vec<u8>, CoseError> {
        self.to_vec()
    }
    fn follow(&self) {
        if self.payload.is_some() {
            let _ = self.verify_tag(AAD, |_t, _d| Err::<(), ()>(()));
        }
        let _ = self.clone().to_tagged_vec();
    }
}
impl Follow for CoseEncrypt {
    fn encode(self) -> Result<Vec<u8>, CoseError> {
        self.to_vec()
    }
    fn follow(&self) {
        if self.ciphertext.is_some() {
            let _ = self.decrypt(AAD, |_c, _a| Ok::<Vec<u8>, ()>(vec![]));
        }
        let _ = self.clone().to_tagged_vec();
    }
}
impl Follow for CoseEncrypt0 {
    fn encode(self) -> Result<Vec<u8>, CoseError> {
        self.to_vec()
    }
    fn follow(&self) {
        if self.ciphertext.is_some() {
            let _ = self.decrypt(AAD, |_c, _a| Err::<Vec<u8>, ()>(()));
        }
        let _ = self.clone().to_tagged_vec();
    }
}
impl Follow for CoseRecipient {
    fn encode(self) -> Result<Vec<u8>, CoseError> {
        self.to_vec()
    }
    fn follow(&self) {
        if self.ciphertext.is_some() {
            let _ = self.decrypt(EncryptionContext::MacRecipient, AAD, |_c, _a| Ok::<Vec<u8>, ()>(vec![]));
        }
    }
}

/// (accepted, failure) -- failure = an accepted value that does not re-encode
fn lean_after<T: Follow>(r: Result<T, CoseError>) -> (bool, Option<&'static str>) {
    match r {
        Err(_) => (false, None),
        Ok(v) => {
            let c = v.clone();
            let _same = c == v; // NaN floats make a value differ from its clone; not an error
            let bad = if c.encode().is_err() { Some("accepted-value-does-not-encode") } else { None };
            v.follow();
            drop(v);
            (true, bad)
        }
    }
}

/// the lean counterpart of `decode_and_follow`; None = this entry point has no lean form (use the machine)
pub fn lean_decode_and_follow(ty: &str, reg: &str, api: &str, b: &[u8]) -> Option<(bool, Option<&'static str>)> {
    if !reg.is_empty() || ty == "Timestamp" {
        return None;
    }
    Some(match (api, ty) {
        ("bstr", _) => lean_after(ProtectedHeader::from_cbor_bstr(coset::cbor::value::Value::Bytes(b.to_vec()))),
        ("tagged", "CoseSign") => lean_after(CoseSign::from_tagged_slice(b)),
        ("tagged", "CoseSign1") => lean_after(CoseSign1::from_tagged_slice(b)),
        ("tagged", "CoseMac") => lean_after(CoseMac::from_tagged_slice(b)),
        ("tagged", "CoseMac0") => lean_after(CoseMac0::from_tagged_slice(b)),
        ("tagged", "CoseEncrypt") => lean_after(CoseEncrypt::from_tagged_slice(b)),
        ("tagged", "CoseEncrypt0") => lean_after(CoseEncrypt0::from_tagged_slice(b)),
        ("slice", "Header") => lean_after(Header::from_slice(b)),
        ("slice", "ProtectedHeader") => lean_after(ProtectedHeader::from_slice(b)),
        ("slice", "CoseSignature") => lean_after(CoseSignature::from_slice(b)),
        ("slice", "CoseSign") => lean_after(CoseSign::from_slice(b)),
        ("slice", "CoseSign1") => lean_after(CoseSign1::from_slice(b)),
        ("slice", "CoseMac") => lean_after(CoseMac::from_slice(b)),
        ("slice", "CoseMac0") => lean_after(CoseMac0::from_slice(b)),
        ("slice", "CoseEncrypt") => lean_after(CoseEncrypt::from_slice(b)),
        ("slice", "CoseEncrypt0") => lean_after(CoseEncrypt0::from_slice(b)),
        ("slice", "CoseRecipient") => lean_after(CoseRecipient::from_slice(b)),
        ("slice", "CoseKey") => lean_after(CoseKey::from_slice(b)),
        ("slice", "CoseKeySet") => lean_after(CoseKeySet::from_slice(b)),
        ("slice", "ClaimsSet") => lean_after(ClaimsSet::from_slice(b)),
        ("slice", "PartyInfo") => lean_after(PartyInfo::from_slice(b)),
        ("slice", "SuppPubInfo") => lean_after(SuppPubInfo::from_slice(b)),
        ("slice", "CoseKdfContext") => lean_after(CoseKdfContext::from_slice(b)),
        ("slice", "Label") => lean_after(Label::from_slice(b)),
        ("slice", "Value") => lean_after(<coset::cbor::value::Value as CborSerializable>::from_slice(b)),
        _ => return None,
    })
}

/// in-process, panics caught: (accepted, what went wrong)
pub fn guarded_decode_and_follow(ty: &str, reg: &str, api: &str, b: &[u8]) -> Outcome {
    let r = std::panic::catch_unwind(std::panic::AssertUnwindSafe(|| lean_decode_and_follow(ty, reg, api, b)));
    match r {
        Ok(Some((acc, None))) => Outcome { accepted: acc, bad: None, followups: 0 },
        Ok(Some((acc, Some(w)))) => Outcome { accepted: acc, bad: Some((w.to_string(), json!({"ev": "encode"}))), followups: 0 },
        Ok(None) => decode_and_follow(ty, reg, api, b),
        Err(_) => Outcome { accepted: false, bad: Some(("panicked-in-decode-or-follow-up".into(), json!({"ev": "decode/follow-up"}))), followups: 0 },
    }
}

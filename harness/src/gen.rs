pub fn placeholder() {}

//! Registry rows bound to the crate's enum variants BY IDENTITY: `("ES256", iana::Algorithm::ES256)`.
//! The integer of a row lives only in the specification (spec/Iana.tla); the harness never uses
//! `to_i64()` to decide which row a variant is (that would hide a changed constant).
use coset::iana::{self, EnumI64, WithPrivateRange};

pub trait Reg: EnumI64 + Copy + PartialEq + 'static {
    const NAME: &'static str;
    fn table() -> &'static [(&'static str, Self)];
    fn name_of(v: Self) -> Option<&'static str> {
        Self::table().iter().find(|(_, x)| *x == v).map(|(n, _)| *n)
    }
    fn variant_of(name: &str) -> Option<Self> {
        Self::table().iter().find(|(n, _)| *n == name).map(|(_, x)| *x)
    }
}

macro_rules! reg {
    ($reg:ident : $($v:ident),* $(,)?) => {
        impl Reg for iana::$reg {
            const NAME: &'static str = stringify!($reg);
            fn table() -> &'static [(&'static str, Self)] {
                &[ $( (stringify!($v), iana::$reg::$v) ),* ]
            }
        }
    };
}

reg!(Algorithm: RS1, WalnutDSA, RS512, RS384, RS256, ES256K, HSS_LMS, SHAKE256, SHA_512, SHA_384,
    RSAES_OAEP_SHA_512, RSAES_OAEP_SHA_256, RSAES_OAEP_RFC_8017_default, PS512, PS384, PS256, ES512, ES384,
    ECDH_SS_A256KW, ECDH_SS_A192KW, ECDH_SS_A128KW, ECDH_ES_A256KW, ECDH_ES_A192KW, ECDH_ES_A128KW,
    ECDH_SS_HKDF_512, ECDH_SS_HKDF_256, ECDH_ES_HKDF_512, ECDH_ES_HKDF_256, SHAKE128, SHA_512_256, SHA_256,
    SHA_256_64, SHA_1, Direct_HKDF_AES_256, Direct_HKDF_AES_128, Direct_HKDF_SHA_512, Direct_HKDF_SHA_256,
    EdDSA, ES256, Direct, A256KW, A192KW, A128KW, Reserved, A128GCM, A192GCM, A256GCM, HMAC_256_64,
    HMAC_256_256, HMAC_384_384, HMAC_512_512, AES_CCM_16_64_128, AES_CCM_16_64_256, AES_CCM_64_64_128,
    AES_CCM_64_64_256, AES_MAC_128_64, AES_MAC_256_64, ChaCha20Poly1305, AES_MAC_128_128, AES_MAC_256_128,
    AES_CCM_16_128_128, AES_CCM_16_128_256, AES_CCM_64_128_128, AES_CCM_64_128_256, IV_GENERATION);
reg!(HeaderParameter: Reserved, Alg, Crit, ContentType, Kid, Iv, PartialIv, CounterSignature,
    CounterSignature0, KidContext, X5Bag, X5Chain, X5T, X5U, CuphNonce, CuphOwnerPubKey);
reg!(HeaderAlgorithmParameter: PartyVOther, PartyVNonce, PartyVIdentity, PartyUOther, PartyUNonce,
    PartyUIdentity, Salt, StaticKeyId, StaticKey, EphemeralKey);
reg!(KeyParameter: Reserved, Kty, Kid, Alg, KeyOps, BaseIv);
reg!(OkpKeyParameter: Crv, X, D);
reg!(Ec2KeyParameter: Crv, X, Y, D);
reg!(RsaKeyParameter: N, E, D, P, Q, DP, DQ, QInv, Other, RI, DI, TI);
reg!(SymmetricKeyParameter: K);
reg!(HssLmsKeyParameter: Pub);
reg!(WalnutDsaKeyParameter: N, Q, TValues, Matrix1, Permutation1, Matrix2);
reg!(KeyType: Reserved, OKP, EC2, RSA, Symmetric, HSS_LMS, WalnutDSA);
reg!(EllipticCurve: Reserved, P_256, P_384, P_521, X25519, X448, Ed25519, Ed448, Secp256k1);
reg!(KeyOperation: Sign, Verify, Encrypt, Decrypt, WrapKey, UnwrapKey, DeriveKey, DeriveBits, MacCreate, MacVerify);
reg!(CborTag: CoseEncrypt0, CoseMac0, CoseSign1, Cwt, CoseEncrypt, CoseMac, CoseSign);
reg!(CoapContentFormat: TextPlainUtf8, CoseEncrypt0, CoseMac0, CoseSign1, LinkFormat, Xml, OctetStream, Exi,
    Json, JsonPatchJson, MergePatchJson, Cbor, Cwt, MultipartCore, CborSeq, CoseEncrypt, CoseMac, CoseSign,
    CoseKey, CoseKeySet, SenmlJson, SensmlJson, SenmlCbor, SensmlCbor, SenmlExi, SensmlExi, CoapGroupJson,
    DotsCbor, Pkcs7MimeSmimeTypeServerGeneratedKey, Pkcs7MimeSmimeTypeCertsOnly, Pkcs7MimeSmimeTypeCmcRequest,
    Pkcs7MimeSmimeTypeCmcResponse, Pkcs8, Csrattrs, Pkcs10, PkixCert, SenmlXml, SensmlXml, SenmlEtchJson,
    SenmlEtchCbor, TdJson, VndOcfCbor, Oscore, JsonDeflate, CborDeflate, VndOmaLwm2mTlv, VndOmaLwm2mJson,
    VndOmaLwm2mCbor);
reg!(CwtClaimName: Hcert, EuphNonce, EatMaroePrefix, EatFido, Reserved, Iss, Sub, Aud, Exp, Nbf, Iat, Cti,
    Cnf, Scope, AceProfile, CNonce, Exi);

/// Run `f` with the registry type named `reg`.  Used by the C17 probes and the label entry points.
pub trait RegVisitor {
    type Out;
    fn visit<T: Reg>(self) -> Self::Out;
    fn visit_priv<T: Reg + WithPrivateRange>(self) -> Self::Out;
}

pub fn with_registry<V: RegVisitor>(reg: &str, v: V) -> Option<V::Out> {
    Some(match reg {
        "Algorithm" => v.visit_priv::<iana::Algorithm>(),
        "HeaderParameter" => v.visit_priv::<iana::HeaderParameter>(),
        "EllipticCurve" => v.visit_priv::<iana::EllipticCurve>(),
        "CwtClaimName" => v.visit_priv::<iana::CwtClaimName>(),
        "HeaderAlgorithmParameter" => v.visit::<iana::HeaderAlgorithmParameter>(),
        "KeyParameter" => v.visit::<iana::KeyParameter>(),
        "OkpKeyParameter" => v.visit::<iana::OkpKeyParameter>(),
        "Ec2KeyParameter" => v.visit::<iana::Ec2KeyParameter>(),
        "RsaKeyParameter" => v.visit::<iana::RsaKeyParameter>(),
        "SymmetricKeyParameter" => v.visit::<iana::SymmetricKeyParameter>(),
        "HssLmsKeyParameter" => v.visit::<iana::HssLmsKeyParameter>(),
        "WalnutDsaKeyParameter" => v.visit::<iana::WalnutDsaKeyParameter>(),
        "KeyType" => v.visit::<iana::KeyType>(),
        "KeyOperation" => v.visit::<iana::KeyOperation>(),
        "CborTag" => v.visit::<iana::CborTag>(),
        "CoapContentFormat" => v.visit::<iana::CoapContentFormat>(),
        _ => return None,
    })
}

pub const REGISTRIES: &[&str] = &[
    "Algorithm", "HeaderParameter", "HeaderAlgorithmParameter", "KeyParameter", "OkpKeyParameter",
    "Ec2KeyParameter", "RsaKeyParameter", "SymmetricKeyParameter", "HssLmsKeyParameter",
    "WalnutDsaKeyParameter", "KeyType", "EllipticCurve", "KeyOperation", "CborTag", "CoapContentFormat",
    "CwtClaimName",
];

//! Comparison of what the crate did with what the specification expects.
use serde_json::Value as J;

/// canonical form for comparison: key_ops ("ops") are a set
pub fn norm(j: &J) -> J {
    match j {
        J::Array(a) => J::Array(a.iter().map(norm).collect()),
        J::Object(m) => {
            let mut out = serde_json::Map::new();
            for (k, v) in m {
                let mut nv = norm(v);
                if k == "ops" {
                    if let J::Array(a) = &mut nv {
                        a.sort_by_key(|x| x.to_string());
                    }
                }
                out.insert(k.clone(), nv);
            }
            J::Object(out)
        }
        _ => j.clone(),
    }
}

/// equality with "?" as a wildcard on either side
pub fn eq_abs(a: &J, b: &J) -> bool {
    if a == "?" || b == "?" {
        return true;
    }
    match (a, b) {
        (J::Array(x), J::Array(y)) => x.len() == y.len() && x.iter().zip(y).all(|(p, q)| eq_abs(p, q)),
        (J::Object(x), J::Object(y)) => {
            x.len() == y.len() && x.iter().all(|(k, v)| y.get(k).map(|w| eq_abs(v, w)).unwrap_or(false))
        }
        _ => a == b,
    }
}

pub fn same(a: &J, b: &J) -> bool {
    eq_abs(&norm(a), &norm(b))
}

/// a registry variant the harness table does not know (an upstream addition): never judged
pub fn has_unknown(j: &J) -> bool {
    match j {
        J::Array(a) => a.iter().any(has_unknown),
        J::Object(m) => m.get("k").map(|k| k == "unknown").unwrap_or(false) || m.values().any(has_unknown),
        _ => false,
    }
}

pub fn has_unobservable(j: &J) -> bool {
    match j {
        J::Array(a) => a.iter().any(has_unobservable),
        J::Object(m) => m.contains_key("unobservable") || m.values().any(has_unobservable),
        _ => false,
    }
}

/// multiset equality of map entries (for "maps modulo entry order")
pub fn same_entries(a: &[J], b: &[J]) -> bool {
    let mut x: Vec<String> = a.iter().map(|e| norm(e).to_string()).collect();
    let mut y: Vec<String> = b.iter().map(|e| norm(e).to_string()).collect();
    x.sort();
    y.sort();
    x == y
}

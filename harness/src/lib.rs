//! Conformance harness binding the TLA+ specification in /verif/spec to the real `coset` crate.
//!
//! * `abs`      — the abstract JSON shapes shared with the specification (CBOR data model, integers as
//!                (neg, mag), byte strings as arrays) and conversion to/from `ciborium::Value`
//! * `iana_tab` — registry rows bound to Rust variants **by identity**
//! * `proj`     — coset value  -> abstract JSON
//! * `unproj`   — abstract JSON -> coset value
//! * `reader`   — strict, definite-length, shortest-head CBOR reader, independent of ciborium
//! * `machine`  — one function per specification event, executed on the real crate under catch_unwind
//! * `judge`    — comparison of an observed outcome with the outcome the specification expects
pub mod abs;
pub mod gen;
pub mod iana_tab;
pub mod judge;
pub mod machine;
pub mod proj;
pub mod reader;
pub mod tracegen;
pub mod runner;
pub mod runner2;
pub mod runner3;
pub mod runner4;
pub mod runner5;
pub mod runner6;
pub mod runner7;
pub mod unproj;

/// JSON text -> value without serde_json's nesting limit of 128 (deeply nested CBOR items print as deeply nested JSON)
pub fn json_deep(s: &str) -> Option<serde_json::Value> {
    use serde::de::Deserialize;
    let mut de = serde_json::Deserializer::from_str(s);
    de.disable_recursion_limit();
    let v = serde_json::Value::deserialize(&mut de).ok()?;
    de.end().ok()?;
    Some(v)
}

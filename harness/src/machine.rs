//! The implementation side of spec/Cose.tla: one function per specification event, executed on the
//! real crate.  `Machine::step(event)` returns the observation `Obs(s)` of the specification
//! (kind / err / bytes / cb / ret / val), with panics caught and reported as data.
use crate::abs::*;
use crate::iana_tab::{with_registry, Reg, RegVisitor};
use crate::{proj, unproj};
use coset::cbor::value::Value;
use coset::iana::WithPrivateRange;
use coset::*;
use serde_json::{json, Value as J};
use std::cell::RefCell;
use std::panic::{catch_unwind, AssertUnwindSafe};

thread_local! {
    /// the (got, want) diagnostic of the last error classified by `err_kind` (None unless it was an UnexpectedItem)
    pub static LAST_DIAG: RefCell<Option<(&'static str, &'static str)>> = RefCell::new(None);
    /// Display and Debug text of the last error classified by `err_kind`
    pub static LAST_TEXT: RefCell<(String, String)> = RefCell::new((String::new(), String::new()));
}

pub fn last_text() -> (String, String) {
    LAST_TEXT.with(|d| d.borrow().clone())
}

/// the diagnostic of the last classified error as JSON: [got, want] or []
pub fn last_diag() -> J {
    LAST_DIAG.with(|d| match *d.borrow() {
        Some((g, w)) => json!([g, w]),
        None => json!([]),
    })
}

pub fn err_kind(e: &CoseError) -> &'static str {
    LAST_TEXT.with(|d| *d.borrow_mut() = (format!("{}", e), format!("{:?}", e)));
    LAST_DIAG.with(|d| {
        *d.borrow_mut() = match e {
            CoseError::UnexpectedItem(g, w) => Some((*g, *w)),
            _ => None,
        }
    });
    match e {
        CoseError::DecodeFailed(_) => "DecodeFailed",
        CoseError::DuplicateMapKey => "DuplicateMapKey",
        CoseError::EncodeFailed => "EncodeFailed",
        CoseError::ExtraneousData => "ExtraneousData",
        CoseError::OutOfRangeIntegerValue => "OutOfRangeIntegerValue",
        CoseError::UnexpectedItem(_, _) => "UnexpectedItem",
        CoseError::UnregisteredIanaValue => "UnregisteredIanaValue",
        CoseError::UnregisteredIanaNonPrivateValue => "UnregisteredIanaNonPrivateValue",
    }
}

pub fn silence_panics() {
    std::panic::set_hook(Box::new(|_| {}));
}

/// A value type of the crate as the machine sees it.
pub trait Ty: CborSerializable + Clone + PartialEq {
    fn proj(&self) -> J;
    fn wrap(self) -> Obj;
    fn unproj(j: &J) -> Result<Self, String>;
}

macro_rules! ty_impl {
    ($t:ty, $variant:ident, $p:path, $u:path) => {
        impl Ty for $t {
            fn proj(&self) -> J {
                $p(self)
            }
            fn wrap(self) -> Obj {
                Obj::$variant(self)
            }
            fn unproj(j: &J) -> Result<Self, String> {
                $u(j)
            }
        }
    };
}

ty_impl!(Header, Header, proj::header, unproj::header);
ty_impl!(ProtectedHeader, Prot, proj::prot, unproj::prot);
ty_impl!(CoseSignature, Signature, proj::signature, unproj::signature);
ty_impl!(CoseSign, Sign, proj::sign, unproj::sign);
ty_impl!(CoseSign1, Sign1, proj::sign1, unproj::sign1);
ty_impl!(CoseMac, Mac, proj::mac, unproj::mac);
ty_impl!(CoseMac0, Mac0, proj::mac0, unproj::mac0);
ty_impl!(CoseEncrypt, Encrypt, proj::encrypt, unproj::encrypt);
ty_impl!(CoseEncrypt0, Encrypt0, proj::encrypt0, unproj::encrypt0);
ty_impl!(CoseRecipient, Recipient, proj::recipient, unproj::recipient);
ty_impl!(CoseKey, Key, proj::key, unproj::key);
ty_impl!(CoseKeySet, KeySet, proj::keyset, unproj::keyset);
ty_impl!(cwt::ClaimsSet, Claims, proj::claims, unproj::claims);
ty_impl!(PartyInfo, Party, proj::party, unproj::party);
ty_impl!(SuppPubInfo, SuppPub, proj::supp_pub, unproj::supp_pub);
ty_impl!(CoseKdfContext, Kdf, proj::kdf, unproj::kdf);
ty_impl!(Label, Label, proj::label, unproj::label);
ty_impl!(Value, Value, jvalue, value_of);

pub enum Obj {
    None,
    Header(Header),
    Prot(ProtectedHeader),
    Signature(CoseSignature),
    Sign(CoseSign),
    Sign1(CoseSign1),
    Mac(CoseMac),
    Mac0(CoseMac0),
    Encrypt(CoseEncrypt),
    Encrypt0(CoseEncrypt0),
    Recipient(CoseRecipient),
    Key(CoseKey),
    KeySet(CoseKeySet),
    Claims(cwt::ClaimsSet),
    Party(PartyInfo),
    SuppPub(SuppPubInfo),
    Kdf(CoseKdfContext),
    Label(Label),
    Value(Value),
    /// registry-typed labels and timestamps are kept projected (generic over the registry type)
    Reg { ty: String, reg: String, j: J },
    Timestamp(cwt::Timestamp),
    HeaderB(HeaderBuilder),
    SignatureB(CoseSignatureBuilder),
    SignB(CoseSignBuilder),
    Sign1B(CoseSign1Builder),
    MacB(CoseMacBuilder),
    Mac0B(CoseMac0Builder),
    EncryptB(CoseEncryptBuilder),
    Encrypt0B(CoseEncrypt0Builder),
    RecipientB(CoseRecipientBuilder),
    KeyB(CoseKeyBuilder),
    ClaimsB(cwt::ClaimsSetBuilder),
    PartyB(PartyInfoBuilder),
    SuppPubB(SuppPubInfoBuilder),
    KdfB(CoseKdfContextBuilder),
}

/// run `$body` with `$T` bound to the value type named by `$ty`
#[macro_export]
macro_rules! with_ty {
    ($ty:expr, $T:ident => $body:expr, else $other:expr) => {
        match $ty {
            "Header" => { type $T = coset::Header; $body }
            "ProtectedHeader" => { type $T = coset::ProtectedHeader; $body }
            "CoseSignature" => { type $T = coset::CoseSignature; $body }
            "CoseSign" => { type $T = coset::CoseSign; $body }
            "CoseSign1" => { type $T = coset::CoseSign1; $body }
            "CoseMac" => { type $T = coset::CoseMac; $body }
            "CoseMac0" => { type $T = coset::CoseMac0; $body }
            "CoseEncrypt" => { type $T = coset::CoseEncrypt; $body }
            "CoseEncrypt0" => { type $T = coset::CoseEncrypt0; $body }
            "CoseRecipient" => { type $T = coset::CoseRecipient; $body }
            "CoseKey" => { type $T = coset::CoseKey; $body }
            "CoseKeySet" => { type $T = coset::CoseKeySet; $body }
            "ClaimsSet" => { type $T = coset::cwt::ClaimsSet; $body }
            "PartyInfo" => { type $T = coset::PartyInfo; $body }
            "SuppPubInfo" => { type $T = coset::SuppPubInfo; $body }
            "CoseKdfContext" => { type $T = coset::CoseKdfContext; $body }
            "Label" => { type $T = coset::Label; $body }
            "Value" => { type $T = coset::cbor::value::Value; $body }
            _ => $other,
        }
    };
}

#[macro_export]
macro_rules! with_tagged_ty {
    ($ty:expr, $T:ident => $body:expr, else $other:expr) => {
        match $ty {
            "CoseSign" => { type $T = coset::CoseSign; $body }
            "CoseSign1" => { type $T = coset::CoseSign1; $body }
            "CoseMac" => { type $T = coset::CoseMac; $body }
            "CoseMac0" => { type $T = coset::CoseMac0; $body }
            "CoseEncrypt" => { type $T = coset::CoseEncrypt; $body }
            "CoseEncrypt0" => { type $T = coset::CoseEncrypt0; $body }
            _ => $other,
        }
    };
}

/// outcome of one decode call, before it is turned into an observation
pub enum Dec {
    Ok(Obj, J),
    Err(&'static str),
    Harness(String),
}

struct RegFromValue(Value);
impl RegVisitor for RegFromValue {
    type Out = (bool, Result<J, &'static str>, Result<J, &'static str>);
    fn visit<T: Reg>(self) -> Self::Out {
        let r = RegisteredLabel::<T>::from_cbor_value(self.0).map(|l| proj::reglabel(&l)).map_err(|e| err_kind(&e));
        (false, r.clone(), r)
    }
    fn visit_priv<T: Reg + WithPrivateRange>(self) -> Self::Out {
        let a = RegisteredLabel::<T>::from_cbor_value(self.0.clone()).map(|l| proj::reglabel(&l)).map_err(|e| err_kind(&e));
        let b = RegisteredLabelWithPrivate::<T>::from_cbor_value(self.0).map(|l| proj::regpriv(&l)).map_err(|e| err_kind(&e));
        (true, a, b)
    }
}

struct RegToValue<'a>(&'a J, bool);
impl<'a> RegVisitor for RegToValue<'a> {
    type Out = Result<Result<Value, &'static str>, String>;
    fn visit<T: Reg>(self) -> Self::Out {
        Ok(unproj::reglabel::<T>(self.0)?.to_cbor_value().map_err(|e| err_kind(&e)))
    }
    fn visit_priv<T: Reg + WithPrivateRange>(self) -> Self::Out {
        if self.1 {
            Ok(unproj::regpriv::<T>(self.0)?.to_cbor_value().map_err(|e| err_kind(&e)))
        } else {
            Ok(unproj::reglabel::<T>(self.0)?.to_cbor_value().map_err(|e| err_kind(&e)))
        }
    }
}

/// `T::from_cbor_value` for every type name of the specification
pub fn decode_value(ty: &str, reg: &str, v: Value) -> Dec {
    match ty {
        "RegisteredLabel" | "RegisteredLabelWithPrivate" => {
            let want_priv = ty == "RegisteredLabelWithPrivate";
            match with_registry(reg, RegFromValue(v)) {
                None => Dec::Harness(format!("unknown registry {}", reg)),
                Some((has_priv, plain, privd)) => {
                    if want_priv && !has_priv {
                        return Dec::Harness(format!("registry {} has no private range", reg));
                    }
                    match if want_priv { privd } else { plain } {
                        Ok(j) => Dec::Ok(Obj::Reg { ty: ty.into(), reg: reg.into(), j: j.clone() }, j),
                        Err(k) => Dec::Err(k),
                    }
                }
            }
        }
        "Timestamp" => match cwt::Timestamp::from_cbor_value(v) {
            Ok(t) => {
                let j = proj::timestamp(&t);
                Dec::Ok(Obj::Timestamp(t), j)
            }
            Err(e) => Dec::Err(err_kind(&e)),
        },
        _ => with_ty!(ty, T => match <T as AsCborValue>::from_cbor_value(v) {
            Ok(x) => { let j = Ty::proj(&x); Dec::Ok(Ty::wrap(x), j) }
            Err(e) => Dec::Err(err_kind(&e)),
        }, else Dec::Harness(format!("unknown type {}", ty))),
    }
}

/// the crate's own read_to_value, reproduced through the public API: Value::from_slice
fn read_value(b: &[u8]) -> Result<Value, &'static str> {
    <Value as CborSerializable>::from_slice(b).map_err(|e| err_kind(&e))
}

pub fn decode_slice(ty: &str, reg: &str, b: &[u8]) -> Dec {
    match ty {
        // the label types generic over a registry, and Timestamp (no byte-level API), go through Value
        "RegisteredLabel" | "RegisteredLabelWithPrivate" => {
            // from_slice of these types is read_to_value + from_cbor_value by the trait's default method;
            // call the real from_slice for the registries the crate itself instantiates
            match (ty, reg) {
                ("RegisteredLabelWithPrivate", "Algorithm") => match Algorithm::from_slice(b) {
                    Ok(l) => { let j = proj::regpriv(&l); Dec::Ok(Obj::Reg { ty: ty.into(), reg: reg.into(), j: j.clone() }, j) }
                    Err(e) => Dec::Err(err_kind(&e)),
                },
                ("RegisteredLabelWithPrivate", "CwtClaimName") => match cwt::ClaimName::from_slice(b) {
                    Ok(l) => { let j = proj::regpriv(&l); Dec::Ok(Obj::Reg { ty: ty.into(), reg: reg.into(), j: j.clone() }, j) }
                    Err(e) => Dec::Err(err_kind(&e)),
                },
                ("RegisteredLabel", "CoapContentFormat") => match ContentType::from_slice(b) {
                    Ok(l) => { let j = proj::reglabel(&l); Dec::Ok(Obj::Reg { ty: ty.into(), reg: reg.into(), j: j.clone() }, j) }
                    Err(e) => Dec::Err(err_kind(&e)),
                },
                ("RegisteredLabel", "KeyType") => match KeyType::from_slice(b) {
                    Ok(l) => { let j = proj::reglabel(&l); Dec::Ok(Obj::Reg { ty: ty.into(), reg: reg.into(), j: j.clone() }, j) }
                    Err(e) => Dec::Err(err_kind(&e)),
                },
                ("RegisteredLabel", "KeyOperation") => match KeyOperation::from_slice(b) {
                    Ok(l) => { let j = proj::reglabel(&l); Dec::Ok(Obj::Reg { ty: ty.into(), reg: reg.into(), j: j.clone() }, j) }
                    Err(e) => Dec::Err(err_kind(&e)),
                },
                ("RegisteredLabel", "HeaderParameter") => match RegisteredLabel::<iana::HeaderParameter>::from_slice(b) {
                    Ok(l) => { let j = proj::reglabel(&l); Dec::Ok(Obj::Reg { ty: ty.into(), reg: reg.into(), j: j.clone() }, j) }
                    Err(e) => Dec::Err(err_kind(&e)),
                },
                _ => match read_value(b) {
                    Ok(v) => decode_value(ty, reg, v),
                    Err(k) => Dec::Err(k),
                },
            }
        }
        "Timestamp" => match read_value(b) {
            Ok(v) => decode_value(ty, reg, v),
            Err(k) => Dec::Err(k),
        },
        _ => with_ty!(ty, T => match <T as CborSerializable>::from_slice(b) {
            Ok(x) => { let j = Ty::proj(&x); Dec::Ok(Ty::wrap(x), j) }
            Err(e) => Dec::Err(err_kind(&e)),
        }, else Dec::Harness(format!("unknown type {}", ty))),
    }
}

pub fn decode_tagged(ty: &str, b: &[u8]) -> Dec {
    with_tagged_ty!(ty, T => match <T as TaggedCborSerializable>::from_tagged_slice(b) {
        Ok(x) => { let j = Ty::proj(&x); Dec::Ok(Ty::wrap(x), j) }
        Err(e) => Dec::Err(err_kind(&e)),
    }, else Dec::Harness(format!("type {} has no tagged form", ty)))
}

pub fn decode_bstr(b: &[u8]) -> Dec {
    match ProtectedHeader::from_cbor_bstr(Value::Bytes(b.to_vec())) {
        Ok(x) => {
            let j = proj::prot(&x);
            Dec::Ok(Obj::Prot(x), j)
        }
        Err(e) => Dec::Err(err_kind(&e)),
    }
}

pub fn obs_base() -> J {
    json!({"kind": "ok", "err": "", "diag": [], "bytes": [], "cb": [], "ret": [], "val": []})
}

fn obs_err(k: &str) -> J {
    let mut o = obs_base();
    o["kind"] = json!("err");
    o["err"] = json!(k);
    if k == "UnexpectedItem" {
        o["diag"] = last_diag();
    }
    o
}

fn obs_panic() -> J {
    let mut o = obs_base();
    o["kind"] = json!("panic");
    o
}

pub fn obs_harness(msg: &str) -> J {
    let mut o = obs_base();
    o["kind"] = json!("harness");
    o["err"] = json!(msg);
    o
}

pub struct Machine {
    pub mem: Obj,
    pub wire: Option<Vec<u8>>,
}

pub type Enc = Result<Result<Vec<u8>, &'static str>, String>;

impl Obj {
    pub fn proj(&self) -> Option<J> {
        Some(match self {
            Obj::Header(x) => proj::header(x),
            Obj::Prot(x) => proj::prot(x),
            Obj::Signature(x) => proj::signature(x),
            Obj::Sign(x) => proj::sign(x),
            Obj::Sign1(x) => proj::sign1(x),
            Obj::Mac(x) => proj::mac(x),
            Obj::Mac0(x) => proj::mac0(x),
            Obj::Encrypt(x) => proj::encrypt(x),
            Obj::Encrypt0(x) => proj::encrypt0(x),
            Obj::Recipient(x) => proj::recipient(x),
            Obj::Key(x) => proj::key(x),
            Obj::KeySet(x) => proj::keyset(x),
            Obj::Claims(x) => proj::claims(x),
            Obj::Party(x) => proj::party(x),
            Obj::SuppPub(x) => proj::supp_pub(x),
            Obj::Kdf(x) => proj::kdf(x),
            Obj::Label(x) => proj::label(x),
            Obj::Value(x) => jvalue(x),
            Obj::Reg { j, .. } => j.clone(),
            Obj::Timestamp(t) => proj::timestamp(t),
            _ => return None,
        })
    }

    /// to_vec / to_tagged_vec of a clone of the held value
    pub fn encode(&self, tagged: bool) -> Enc {
        macro_rules! enc {
            ($x:expr) => {
                Ok($x.clone().to_vec().map_err(|e| err_kind(&e)))
            };
        }
        macro_rules! enct {
            ($x:expr) => {
                if tagged {
                    Ok($x.clone().to_tagged_vec().map_err(|e| err_kind(&e)))
                } else {
                    Ok($x.clone().to_vec().map_err(|e| err_kind(&e)))
                }
            };
        }
        if tagged && !matches!(self, Obj::Sign(_) | Obj::Sign1(_) | Obj::Mac(_) | Obj::Mac0(_) | Obj::Encrypt(_) | Obj::Encrypt0(_)) {
            return Err("no tagged form".into());
        }
        match self {
            Obj::Header(x) => enc!(x),
            Obj::Prot(x) => enc!(x),
            Obj::Signature(x) => enc!(x),
            Obj::Sign(x) => enct!(x),
            Obj::Sign1(x) => enct!(x),
            Obj::Mac(x) => enct!(x),
            Obj::Mac0(x) => enct!(x),
            Obj::Encrypt(x) => enct!(x),
            Obj::Encrypt0(x) => enct!(x),
            Obj::Recipient(x) => enc!(x),
            Obj::Key(x) => enc!(x),
            Obj::KeySet(x) => enc!(x),
            Obj::Claims(x) => enc!(x),
            Obj::Party(x) => enc!(x),
            Obj::SuppPub(x) => enc!(x),
            Obj::Kdf(x) => enc!(x),
            Obj::Label(x) => enc!(x),
            Obj::Value(x) => enc!(x),
            Obj::Reg { ty, reg, j } => {
                let v = with_registry(reg, RegToValue(j, ty == "RegisteredLabelWithPrivate"))
                    .ok_or_else(|| format!("unknown registry {}", reg))??;
                match v {
                    Ok(v) => Ok(v.to_vec().map_err(|e| err_kind(&e))),
                    Err(k) => Ok(Err(k)),
                }
            }
            Obj::Timestamp(t) => match t.clone().to_cbor_value() {
                Ok(v) => Ok(v.to_vec().map_err(|e| err_kind(&e))),
                Err(e) => Ok(Err(err_kind(&e))),
            },
            _ => Err("encode: not a value".into()),
        }
    }

    /// to_cbor_value of a clone of the held value, serialised with ciborium directly (C13 agreement)
    pub fn encode_via_value(&self) -> Enc {
        macro_rules! encv {
            ($x:expr) => {
                match $x.clone().to_cbor_value() {
                    Ok(v) => {
                        let mut data = Vec::new();
                        match coset::cbor::ser::into_writer(&v, &mut data) {
                            Ok(()) => Ok(Ok(data)),
                            Err(_) => Ok(Err("EncodeFailed")),
                        }
                    }
                    Err(e) => Ok(Err(err_kind(&e))),
                }
            };
        }
        match self {
            Obj::Header(x) => encv!(x),
            Obj::Prot(x) => encv!(x),
            Obj::Signature(x) => encv!(x),
            Obj::Sign(x) => encv!(x),
            Obj::Sign1(x) => encv!(x),
            Obj::Mac(x) => encv!(x),
            Obj::Mac0(x) => encv!(x),
            Obj::Encrypt(x) => encv!(x),
            Obj::Encrypt0(x) => encv!(x),
            Obj::Recipient(x) => encv!(x),
            Obj::Key(x) => encv!(x),
            Obj::KeySet(x) => encv!(x),
            Obj::Claims(x) => encv!(x),
            Obj::Party(x) => encv!(x),
            Obj::SuppPub(x) => encv!(x),
            Obj::Kdf(x) => encv!(x),
            Obj::Label(x) => encv!(x),
            Obj::Value(x) => encv!(x),
            _ => Err("encode_via_value: unsupported".into()),
        }
    }
}

fn ctx_sig(s: &str) -> Result<SignatureContext, String> {
    Ok(match s {
        "CoseSignature" => SignatureContext::CoseSignature,
        "CoseSign1" => SignatureContext::CoseSign1,
        "CounterSignature" => SignatureContext::CounterSignature,
        _ => return Err(format!("bad signature context {}", s)),
    })
}
fn ctx_mac(s: &str) -> Result<MacContext, String> {
    Ok(match s {
        "CoseMac" => MacContext::CoseMac,
        "CoseMac0" => MacContext::CoseMac0,
        _ => return Err(format!("bad mac context {}", s)),
    })
}
fn ctx_enc(s: &str) -> Result<EncryptionContext, String> {
    Ok(match s {
        "CoseEncrypt" => EncryptionContext::CoseEncrypt,
        "CoseEncrypt0" => EncryptionContext::CoseEncrypt0,
        "EncRecipient" => EncryptionContext::EncRecipient,
        "MacRecipient" => EncryptionContext::MacRecipient,
        "RecRecipient" => EncryptionContext::RecRecipient,
        _ => return Err(format!("bad encryption context {}", s)),
    })
}

fn s<'a>(e: &'a J, k: &str) -> Result<&'a str, String> {
    e[k].as_str().ok_or_else(|| format!("event field {} missing in {}", k, e))
}
fn b(e: &J, k: &str) -> Result<Vec<u8>, String> {
    bytes_of(&e[k]).map_err(|m| format!("event field {}: {}", k, m))
}

/// what a caller-supplied closure returns: {ok, bytes}
fn res_of(e: &J) -> Result<(bool, Vec<u8>), String> {
    Ok((e["res"]["ok"].as_bool().ok_or("res.ok")?, bytes_of(&e["res"]["bytes"])?))
}

enum Called {
    Ok(Obj),
    ClosureErr,
}

impl Machine {
    pub fn new() -> Self {
        Machine { mem: Obj::None, wire: None }
    }

    /// Execute one event; never panics (panics of the code under test are an outcome).
    pub fn step(&mut self, e: &J) -> J {
        let cb: RefCell<Vec<J>> = RefCell::new(Vec::new());
        let r = catch_unwind(AssertUnwindSafe(|| self.step_inner(e, &cb)));
        match r {
            Ok(Ok(mut o)) => {
                if o["cb"].as_array().map(|a| a.is_empty()).unwrap_or(true) {
                    o["cb"] = J::Array(cb.into_inner());
                }
                if let Some(v) = self.mem.proj() {
                    o["val"] = json!([v]);
                }
                o
            }
            Ok(Err(msg)) => obs_harness(&msg),
            Err(_) => {
                // the object a panicking call consumed is gone
                if matches!(s(e, "ev"), Ok("call")) {
                    self.mem = Obj::None;
                }
                let mut o = obs_panic();
                if let Some(v) = self.mem.proj() {
                    o["val"] = json!([v]);
                }
                o
            }
        }
    }

    fn step_inner(&mut self, e: &J, cb: &RefCell<Vec<J>>) -> Result<J, String> {
        match s(e, "ev")? {
            "lit" => {
                let ty = s(e, "ty")?;
                self.mem = match ty {
                    "RegisteredLabel" | "RegisteredLabelWithPrivate" => {
                        Obj::Reg { ty: ty.into(), reg: s(e, "reg")?.into(), j: e["x"].clone() }
                    }
                    "Timestamp" => Obj::Timestamp(unproj::timestamp(&e["x"])?),
                    _ => with_ty!(ty, T => Ty::wrap(<T as Ty>::unproj(&e["x"])?), else return Err(format!("lit: unknown type {}", ty))),
                };
                Ok(obs_base())
            }
            "new" => {
                self.mem = match s(e, "ty")? {
                    "Header" => Obj::HeaderB(HeaderBuilder::new()),
                    "CoseSignature" => Obj::SignatureB(CoseSignatureBuilder::new()),
                    "CoseSign" => Obj::SignB(CoseSignBuilder::new()),
                    "CoseSign1" => Obj::Sign1B(CoseSign1Builder::new()),
                    "CoseMac" => Obj::MacB(CoseMacBuilder::new()),
                    "CoseMac0" => Obj::Mac0B(CoseMac0Builder::new()),
                    "CoseEncrypt" => Obj::EncryptB(CoseEncryptBuilder::new()),
                    "CoseEncrypt0" => Obj::Encrypt0B(CoseEncrypt0Builder::new()),
                    "CoseRecipient" => Obj::RecipientB(CoseRecipientBuilder::new()),
                    "CoseKey" => Obj::KeyB(CoseKeyBuilder::new()),
                    "ClaimsSet" => Obj::ClaimsB(cwt::ClaimsSetBuilder::new()),
                    "PartyInfo" => Obj::PartyB(PartyInfoBuilder::new()),
                    "SuppPubInfo" => Obj::SuppPubB(SuppPubInfoBuilder::new()),
                    "CoseKdfContext" => Obj::KdfB(CoseKdfContextBuilder::new()),
                    t => return Err(format!("new: no builder for {}", t)),
                };
                Ok(obs_base())
            }
            "ctor" => {
                let crv = || -> Result<iana::EllipticCurve, String> {
                    <iana::EllipticCurve as Reg>::variant_of(s(e, "crv")?).ok_or_else(|| "bad curve".to_string())
                };
                self.mem = Obj::KeyB(match s(e, "m")? {
                    "new" => CoseKeyBuilder::new(),
                    "new_ec2_pub_key" => CoseKeyBuilder::new_ec2_pub_key(crv()?, b(e, "kx")?, b(e, "ky")?),
                    "new_ec2_pub_key_y_sign" => CoseKeyBuilder::new_ec2_pub_key_y_sign(
                        crv()?,
                        b(e, "kx")?,
                        e["ysign"].as_bool().ok_or("ysign")?,
                    ),
                    "new_ec2_priv_key" => CoseKeyBuilder::new_ec2_priv_key(crv()?, b(e, "kx")?, b(e, "ky")?, b(e, "kd")?),
                    "new_symmetric_key" => CoseKeyBuilder::new_symmetric_key(b(e, "kk")?),
                    "new_okp_key" => CoseKeyBuilder::new_okp_key(),
                    m => return Err(format!("unknown key constructor {}", m)),
                });
                Ok(obs_base())
            }
            "call" => {
                let obj = std::mem::replace(&mut self.mem, Obj::None);
                match call(obj, e, cb)? {
                    Called::Ok(o) => {
                        self.mem = o;
                        Ok(obs_base())
                    }
                    Called::ClosureErr => {
                        let mut o = obs_err("closure");
                        o["cb"] = J::Array(cb.borrow().clone());
                        Ok(o)
                    }
                }
            }
            "build" => {
                let obj = std::mem::replace(&mut self.mem, Obj::None);
                self.mem = match obj {
                    Obj::HeaderB(x) => Obj::Header(x.build()),
                    Obj::SignatureB(x) => Obj::Signature(x.build()),
                    Obj::SignB(x) => Obj::Sign(x.build()),
                    Obj::Sign1B(x) => Obj::Sign1(x.build()),
                    Obj::MacB(x) => Obj::Mac(x.build()),
                    Obj::Mac0B(x) => Obj::Mac0(x.build()),
                    Obj::EncryptB(x) => Obj::Encrypt(x.build()),
                    Obj::Encrypt0B(x) => Obj::Encrypt0(x.build()),
                    Obj::RecipientB(x) => Obj::Recipient(x.build()),
                    Obj::KeyB(x) => Obj::Key(x.build()),
                    Obj::ClaimsB(x) => Obj::Claims(x.build()),
                    Obj::PartyB(x) => Obj::Party(x.build()),
                    Obj::SuppPubB(x) => Obj::SuppPub(x.build()),
                    Obj::KdfB(x) => Obj::Kdf(x.build()),
                    _ => return Err("build: not a builder".into()),
                };
                Ok(obs_base())
            }
            "encode" => {
                let r = match s(e, "api")? {
                    "vec" => self.mem.encode(false)?,
                    "tagged" => self.mem.encode(true)?,
                    "bstr" => match &self.mem {
                        Obj::Prot(p) => match p.clone().cbor_bstr() {
                            Ok(Value::Bytes(b)) => Ok(b),
                            Ok(_) => return Err("cbor_bstr returned a non-bstr".into()),
                            Err(e) => Err(err_kind(&e)),
                        },
                        _ => return Err("bstr: not a protected header".into()),
                    },
                    a => return Err(format!("unknown encode api {}", a)),
                };
                match r {
                    Ok(bytes) => {
                        let mut o = obs_base();
                        o["bytes"] = json!([jbytes(&bytes)]);
                        self.wire = Some(bytes);
                        Ok(o)
                    }
                    Err(k) => Ok(obs_err(k)),
                }
            }
            "inject" => {
                self.wire = Some(b(e, "bytes")?);
                Ok(obs_base())
            }
            "truncate" => {
                let n = e["n"].as_u64().ok_or("truncate.n")? as usize;
                let w = self.wire.take().ok_or("truncate: empty wire")?;
                self.wire = Some(w[..n.min(w.len())].to_vec());
                Ok(obs_base())
            }
            "append" => {
                let mut w = self.wire.take().ok_or("append: empty wire")?;
                w.extend_from_slice(&b(e, "bytes")?);
                self.wire = Some(w);
                Ok(obs_base())
            }
            "decode" => {
                let w = self.wire.clone().ok_or("decode: empty wire")?;
                let d = match s(e, "api")? {
                    "slice" => decode_slice(s(e, "ty")?, e["reg"].as_str().unwrap_or(""), &w),
                    "tagged" => decode_tagged(s(e, "ty")?, &w),
                    "bstr" => decode_bstr(&w),
                    a => return Err(format!("unknown decode api {}", a)),
                };
                self.decoded(d)
            }
            "decode_value" => {
                let v = value_of(&e["val"])?;
                let d = decode_value(s(e, "ty")?, e["reg"].as_str().unwrap_or(""), v);
                self.decoded(d)
            }
            "tbs" => {
                let aad = b(e, "aad")?;
                let bytes = match (&self.mem, s(e, "m")?) {
                    (Obj::Sign1(x), "tbs_data") => x.tbs_data(&aad),
                    (Obj::Sign1(x), "tbs_detached_data") => x.tbs_detached_data(&b(e, "pl")?, &aad),
                    (Obj::Sign(x), m) => {
                        let which = e["which"].as_u64().ok_or("which")? as usize;
                        let sig = x.signatures.get(which).ok_or("tbs: signer index out of range (harness)")?;
                        if m == "tbs_data" {
                            x.tbs_data(&aad, sig)
                        } else {
                            x.tbs_detached_data(&b(e, "pl")?, &aad, sig)
                        }
                    }
                    _ => return Err("tbs: wrong object".into()),
                };
                let mut o = obs_base();
                o["bytes"] = json!([jbytes(&bytes)]);
                Ok(o)
            }
            "verify" => {
                let aad = b(e, "aad")?;
                let (ok, rb) = res_of(e)?;
                let rb2 = rb.clone();
                let verifier = |sig: &[u8], data: &[u8]| -> Result<(), Vec<u8>> {
                    cb.borrow_mut().push(jbytes(sig));
                    cb.borrow_mut().push(jbytes(data));
                    if ok {
                        Ok(())
                    } else {
                        Err(rb2)
                    }
                };
                let rb3 = rb.clone();
                let cipher = |ct: &[u8], ad: &[u8]| -> Result<Vec<u8>, Vec<u8>> {
                    cb.borrow_mut().push(jbytes(ct));
                    cb.borrow_mut().push(jbytes(ad));
                    if ok {
                        Ok(rb3.clone())
                    } else {
                        Err(rb3)
                    }
                };
                let unit = |r: Result<(), Vec<u8>>| match r {
                    Ok(()) => json!({"ok": true, "bytes": jbytes(&rb)}),
                    Err(x) => json!({"ok": false, "bytes": jbytes(&x)}),
                };
                let ret = match (&self.mem, s(e, "m")?) {
                    (Obj::Sign1(x), "verify_signature") => unit(x.verify_signature(&aad, verifier)),
                    (Obj::Sign1(x), "verify_detached_signature") => {
                        unit(x.verify_detached_signature(&b(e, "pl")?, &aad, verifier))
                    }
                    (Obj::Sign(x), "verify_signature") => {
                        unit(x.verify_signature(e["which"].as_u64().ok_or("which")? as usize, &aad, verifier))
                    }
                    (Obj::Sign(x), "verify_detached_signature") => unit(x.verify_detached_signature(
                        e["which"].as_u64().ok_or("which")? as usize,
                        &b(e, "pl")?,
                        &aad,
                        verifier,
                    )),
                    (Obj::Mac(x), "verify_tag") => unit(x.verify_tag(&aad, verifier)),
                    (Obj::Mac0(x), "verify_tag") => unit(x.verify_tag(&aad, verifier)),
                    (obj, "decrypt") => {
                        let r = match obj {
                            Obj::Encrypt(x) => x.decrypt(&aad, cipher),
                            Obj::Encrypt0(x) => x.decrypt(&aad, cipher),
                            Obj::Recipient(x) => x.decrypt(ctx_enc(s(e, "ctx")?)?, &aad, cipher),
                            _ => return Err("decrypt: wrong object".into()),
                        };
                        match r {
                            Ok(x) => json!({"ok": true, "bytes": jbytes(&x)}),
                            Err(x) => json!({"ok": false, "bytes": jbytes(&x)}),
                        }
                    }
                    _ => return Err("verify: wrong object/method".into()),
                };
                let mut o = obs_base();
                o["ret"] = json!([ret]);
                Ok(o)
            }
            "struct" => {
                let body = unproj::prot(&e["body"])?;
                let aad = b(e, "aad")?;
                let bytes = match s(e, "fn")? {
                    "sig" => {
                        let sp = opt(&e["signp"])?.map(unproj::prot).transpose()?;
                        sig_structure_data(ctx_sig(s(e, "ctx")?)?, body, sp, &aad, &b(e, "pl")?)
                    }
                    "mac" => mac_structure_data(ctx_mac(s(e, "ctx")?)?, body, &aad, &b(e, "pl")?),
                    "enc" => enc_structure_data(ctx_enc(s(e, "ctx")?)?, body, &aad),
                    f => return Err(format!("unknown structure function {}", f)),
                };
                let mut o = obs_base();
                o["bytes"] = json!([jbytes(&bytes)]);
                Ok(o)
            }
            "focus" => {
                let i = e["i"].as_u64().unwrap_or(0) as usize;
                let obj = std::mem::replace(&mut self.mem, Obj::None);
                let oob = || "focus: index out of range (harness)".to_string();
                self.mem = match (s(e, "f")?, obj) {
                    ("recip", Obj::Encrypt(x)) => Obj::Recipient(x.recipients.get(i).cloned().ok_or_else(oob)?),
                    ("recip", Obj::Mac(x)) => Obj::Recipient(x.recipients.get(i).cloned().ok_or_else(oob)?),
                    ("recip", Obj::Recipient(x)) => Obj::Recipient(x.recipients.get(i).cloned().ok_or_else(oob)?),
                    ("sig", Obj::Sign(x)) => Obj::Signature(x.signatures.get(i).cloned().ok_or_else(oob)?),
                    ("cs-unprot", Obj::Sign1(x)) => Obj::Signature(x.unprotected.counter_signatures.get(i).cloned().ok_or_else(oob)?),
                    ("cs-prot", Obj::Sign1(x)) => Obj::Signature(x.protected.header.counter_signatures.get(i).cloned().ok_or_else(oob)?),
                    ("prot", Obj::SuppPub(x)) => Obj::Prot(x.protected),
                    ("prot", Obj::Sign1(x)) => Obj::Prot(x.protected),
                    (f, _) => return Err(format!("focus {}: wrong object", f)),
                };
                Ok(obs_base())
            }
            "canonicalize" => {
                let ord = match s(e, "ord")? {
                    "Lexicographic" => CborOrdering::Lexicographic,
                    "LengthFirstLexicographic" => CborOrdering::LengthFirstLexicographic,
                    o => return Err(format!("bad ordering {}", o)),
                };
                match &mut self.mem {
                    Obj::Key(k) => k.canonicalize(ord),
                    _ => return Err("canonicalize: not a key".into()),
                }
                Ok(obs_base())
            }
            "clone_eq" => {
                // Clone, PartialEq against the clone, Debug formatting and Drop of the clone
                macro_rules! ce {
                    ($x:expr) => {{
                        let c = $x.clone();
                        let same = c == *$x;
                        let _ = format!("{:?}", c);
                        drop(c);
                        same
                    }};
                }
                let same = match &self.mem {
                    Obj::Header(x) => ce!(x),
                    Obj::Prot(x) => ce!(x),
                    Obj::Signature(x) => ce!(x),
                    Obj::Sign(x) => ce!(x),
                    Obj::Sign1(x) => ce!(x),
                    Obj::Mac(x) => ce!(x),
                    Obj::Mac0(x) => ce!(x),
                    Obj::Encrypt(x) => ce!(x),
                    Obj::Encrypt0(x) => ce!(x),
                    Obj::Recipient(x) => ce!(x),
                    Obj::Key(x) => ce!(x),
                    Obj::KeySet(x) => ce!(x),
                    Obj::Claims(x) => ce!(x),
                    Obj::Party(x) => ce!(x),
                    Obj::SuppPub(x) => ce!(x),
                    Obj::Kdf(x) => ce!(x),
                    Obj::Label(x) => ce!(x),
                    Obj::Value(x) => ce!(x),
                    _ => true,
                };
                let mut o = obs_base();
                // NaN floats make a value differ from its own clone; that is not an error of the crate
                o["ret"] = json!([{"ok": same, "bytes": []}]);
                Ok(o)
            }
            ev => Err(format!("unknown event {}", ev)),
        }
    }

    fn decoded(&mut self, d: Dec) -> Result<J, String> {
        match d {
            Dec::Ok(o, _) => {
                self.mem = o;
                Ok(obs_base())
            }
            Dec::Err(k) => {
                self.mem = Obj::None;
                Ok(obs_err(k))
            }
            Dec::Harness(m) => Err(m),
        }
    }
}

fn hdr(e: &J) -> Result<Header, String> {
    unproj::header(&e["hdr"])
}
fn alg(e: &J) -> Result<iana::Algorithm, String> {
    <iana::Algorithm as Reg>::variant_of(s(e, "nm")?).ok_or_else(|| format!("no algorithm {}", e["nm"]))
}

/// one builder method call; closures record what they are handed into `cb`
fn call(obj: Obj, e: &J, cb: &RefCell<Vec<J>>) -> Result<Called, String> {
    let m = s(e, "m")?;
    // closures
    let signer = |data: &[u8]| -> Vec<u8> {
        cb.borrow_mut().push(jbytes(data));
        bytes_of(&e["res"]["bytes"]).unwrap_or_default()
    };
    let try_signer = |data: &[u8]| -> Result<Vec<u8>, ()> {
        cb.borrow_mut().push(jbytes(data));
        if e["res"]["ok"].as_bool().unwrap_or(false) {
            Ok(bytes_of(&e["res"]["bytes"]).unwrap_or_default())
        } else {
            Err(())
        }
    };
    let cipher = |pt: &[u8], aad: &[u8]| -> Vec<u8> {
        cb.borrow_mut().push(jbytes(pt));
        cb.borrow_mut().push(jbytes(aad));
        bytes_of(&e["res"]["bytes"]).unwrap_or_default()
    };
    let try_cipher = |pt: &[u8], aad: &[u8]| -> Result<Vec<u8>, ()> {
        cb.borrow_mut().push(jbytes(pt));
        cb.borrow_mut().push(jbytes(aad));
        if e["res"]["ok"].as_bool().unwrap_or(false) {
            Ok(bytes_of(&e["res"]["bytes"]).unwrap_or_default())
        } else {
            Err(())
        }
    };
    macro_rules! tryb {
        ($variant:ident, $r:expr) => {
            match $r {
                Ok(x) => Called::Ok(Obj::$variant(x)),
                Err(()) => Called::ClosureErr,
            }
        };
    }
    Ok(match obj {
        Obj::HeaderB(x) => Called::Ok(Obj::HeaderB(match m {
            "key_id" => x.key_id(b(e, "bytes")?),
            "algorithm" => x.algorithm(alg(e)?),
            "add_critical" => x.add_critical(
                <iana::HeaderParameter as Reg>::variant_of(s(e, "nm")?).ok_or("no header parameter")?,
            ),
            "add_critical_label" => x.add_critical_label(unproj::reglabel(&e["lbl"])?),
            "content_format" => x.content_format(
                <iana::CoapContentFormat as Reg>::variant_of(s(e, "nm")?).ok_or("no content format")?,
            ),
            "content_type" => x.content_type(text_of(&e["txt"])?),
            "iv" => x.iv(b(e, "bytes")?),
            "partial_iv" => x.partial_iv(b(e, "bytes")?),
            "add_counter_signature" => x.add_counter_signature(unproj::signature(&e["sigv"])?),
            "value" => x.value(i64_of(&e["z"])?, value_of(&e["val"])?),
            "text_value" => x.text_value(text_of(&e["txt"])?, value_of(&e["val"])?),
            _ => return Err(format!("HeaderBuilder has no method {}", m)),
        })),
        Obj::SignatureB(x) => Called::Ok(Obj::SignatureB(match m {
            "protected" => x.protected(hdr(e)?),
            "unprotected" => x.unprotected(hdr(e)?),
            "signature" => x.signature(b(e, "bytes")?),
            _ => return Err(format!("CoseSignatureBuilder has no method {}", m)),
        })),
        Obj::SignB(x) => match m {
            "protected" => Called::Ok(Obj::SignB(x.protected(hdr(e)?))),
            "unprotected" => Called::Ok(Obj::SignB(x.unprotected(hdr(e)?))),
            "payload" => Called::Ok(Obj::SignB(x.payload(b(e, "bytes")?))),
            "add_signature" => Called::Ok(Obj::SignB(x.add_signature(unproj::signature(&e["sigv"])?))),
            "add_created_signature" => {
                Called::Ok(Obj::SignB(x.add_created_signature(unproj::signature(&e["sigv"])?, &b(e, "aad")?, signer)))
            }
            "add_detached_signature" => Called::Ok(Obj::SignB(x.add_detached_signature(
                unproj::signature(&e["sigv"])?,
                &b(e, "pl")?,
                &b(e, "aad")?,
                signer,
            ))),
            "try_add_created_signature" => {
                tryb!(SignB, x.try_add_created_signature(unproj::signature(&e["sigv"])?, &b(e, "aad")?, try_signer))
            }
            "try_add_detached_signature" => tryb!(
                SignB,
                x.try_add_detached_signature(unproj::signature(&e["sigv"])?, &b(e, "pl")?, &b(e, "aad")?, try_signer)
            ),
            _ => return Err(format!("CoseSignBuilder has no method {}", m)),
        },
        Obj::Sign1B(x) => match m {
            "protected" => Called::Ok(Obj::Sign1B(x.protected(hdr(e)?))),
            "unprotected" => Called::Ok(Obj::Sign1B(x.unprotected(hdr(e)?))),
            "payload" => Called::Ok(Obj::Sign1B(x.payload(b(e, "bytes")?))),
            "signature" => Called::Ok(Obj::Sign1B(x.signature(b(e, "bytes")?))),
            "create_signature" => Called::Ok(Obj::Sign1B(x.create_signature(&b(e, "aad")?, signer))),
            "create_detached_signature" => {
                Called::Ok(Obj::Sign1B(x.create_detached_signature(&b(e, "pl")?, &b(e, "aad")?, signer)))
            }
            "try_create_signature" => tryb!(Sign1B, x.try_create_signature(&b(e, "aad")?, try_signer)),
            "try_create_detached_signature" => {
                tryb!(Sign1B, x.try_create_detached_signature(&b(e, "pl")?, &b(e, "aad")?, try_signer))
            }
            _ => return Err(format!("CoseSign1Builder has no method {}", m)),
        },
        Obj::MacB(x) => match m {
            "protected" => Called::Ok(Obj::MacB(x.protected(hdr(e)?))),
            "unprotected" => Called::Ok(Obj::MacB(x.unprotected(hdr(e)?))),
            "payload" => Called::Ok(Obj::MacB(x.payload(b(e, "bytes")?))),
            "tag" => Called::Ok(Obj::MacB(x.tag(b(e, "bytes")?))),
            "add_recipient" => Called::Ok(Obj::MacB(x.add_recipient(unproj::recipient(&e["rcp"])?))),
            "create_tag" => Called::Ok(Obj::MacB(x.create_tag(&b(e, "aad")?, signer))),
            "try_create_tag" => tryb!(MacB, x.try_create_tag(&b(e, "aad")?, try_signer)),
            _ => return Err(format!("CoseMacBuilder has no method {}", m)),
        },
        Obj::Mac0B(x) => match m {
            "protected" => Called::Ok(Obj::Mac0B(x.protected(hdr(e)?))),
            "unprotected" => Called::Ok(Obj::Mac0B(x.unprotected(hdr(e)?))),
            "payload" => Called::Ok(Obj::Mac0B(x.payload(b(e, "bytes")?))),
            "tag" => Called::Ok(Obj::Mac0B(x.tag(b(e, "bytes")?))),
            "create_tag" => Called::Ok(Obj::Mac0B(x.create_tag(&b(e, "aad")?, signer))),
            "try_create_tag" => tryb!(Mac0B, x.try_create_tag(&b(e, "aad")?, try_signer)),
            _ => return Err(format!("CoseMac0Builder has no method {}", m)),
        },
        Obj::EncryptB(x) => match m {
            "protected" => Called::Ok(Obj::EncryptB(x.protected(hdr(e)?))),
            "unprotected" => Called::Ok(Obj::EncryptB(x.unprotected(hdr(e)?))),
            "ciphertext" => Called::Ok(Obj::EncryptB(x.ciphertext(b(e, "bytes")?))),
            "add_recipient" => Called::Ok(Obj::EncryptB(x.add_recipient(unproj::recipient(&e["rcp"])?))),
            "create_ciphertext" => Called::Ok(Obj::EncryptB(x.create_ciphertext(&b(e, "pt")?, &b(e, "aad")?, cipher))),
            "try_create_ciphertext" => tryb!(EncryptB, x.try_create_ciphertext(&b(e, "pt")?, &b(e, "aad")?, try_cipher)),
            _ => return Err(format!("CoseEncryptBuilder has no method {}", m)),
        },
        Obj::Encrypt0B(x) => match m {
            "protected" => Called::Ok(Obj::Encrypt0B(x.protected(hdr(e)?))),
            "unprotected" => Called::Ok(Obj::Encrypt0B(x.unprotected(hdr(e)?))),
            "ciphertext" => Called::Ok(Obj::Encrypt0B(x.ciphertext(b(e, "bytes")?))),
            "create_ciphertext" => Called::Ok(Obj::Encrypt0B(x.create_ciphertext(&b(e, "pt")?, &b(e, "aad")?, cipher))),
            "try_create_ciphertext" => tryb!(Encrypt0B, x.try_create_ciphertext(&b(e, "pt")?, &b(e, "aad")?, try_cipher)),
            _ => return Err(format!("CoseEncrypt0Builder has no method {}", m)),
        },
        Obj::RecipientB(x) => match m {
            "protected" => Called::Ok(Obj::RecipientB(x.protected(hdr(e)?))),
            "unprotected" => Called::Ok(Obj::RecipientB(x.unprotected(hdr(e)?))),
            "ciphertext" => Called::Ok(Obj::RecipientB(x.ciphertext(b(e, "bytes")?))),
            "add_recipient" => Called::Ok(Obj::RecipientB(x.add_recipient(unproj::recipient(&e["rcp"])?))),
            "create_ciphertext" => Called::Ok(Obj::RecipientB(x.create_ciphertext(
                ctx_enc(s(e, "ctx")?)?,
                &b(e, "pt")?,
                &b(e, "aad")?,
                cipher,
            ))),
            "try_create_ciphertext" => tryb!(
                RecipientB,
                x.try_create_ciphertext(ctx_enc(s(e, "ctx")?)?, &b(e, "pt")?, &b(e, "aad")?, try_cipher)
            ),
            _ => return Err(format!("CoseRecipientBuilder has no method {}", m)),
        },
        Obj::KeyB(x) => Called::Ok(Obj::KeyB(match m {
            "kty" => x.kty(unproj::reglabel(&e["lbl"])?),
            "key_id" => x.key_id(b(e, "bytes")?),
            "base_iv" => x.base_iv(b(e, "bytes")?),
            "key_type" => x.key_type(<iana::KeyType as Reg>::variant_of(s(e, "nm")?).ok_or("no key type")?),
            "algorithm" => x.algorithm(alg(e)?),
            "add_key_op" => x.add_key_op(<iana::KeyOperation as Reg>::variant_of(s(e, "nm")?).ok_or("no key op")?),
            "param" => x.param(i64_of(&e["z"])?, value_of(&e["val"])?),
            _ => return Err(format!("CoseKeyBuilder has no method {}", m)),
        })),
        Obj::ClaimsB(x) => Called::Ok(Obj::ClaimsB(match m {
            "issuer" => x.issuer(text_of(&e["txt"])?),
            "subject" => x.subject(text_of(&e["txt"])?),
            "audience" => x.audience(text_of(&e["txt"])?),
            "expiration_time" => x.expiration_time(unproj::timestamp(&e["ts"])?),
            "not_before" => x.not_before(unproj::timestamp(&e["ts"])?),
            "issued_at" => x.issued_at(unproj::timestamp(&e["ts"])?),
            "cwt_id" => x.cwt_id(b(e, "bytes")?),
            "claim" => x.claim(
                <iana::CwtClaimName as Reg>::variant_of(s(e, "nm")?).ok_or("no claim name")?,
                value_of(&e["val"])?,
            ),
            "text_claim" => x.text_claim(text_of(&e["txt"])?, value_of(&e["val"])?),
            "private_claim" => x.private_claim(i64_of(&e["z"])?, value_of(&e["val"])?),
            _ => return Err(format!("ClaimsSetBuilder has no method {}", m)),
        })),
        Obj::PartyB(x) => Called::Ok(Obj::PartyB(match m {
            "identity" => x.identity(b(e, "bytes")?),
            "nonce" => x.nonce(unproj::nonce(&e["nonce"])?),
            "other" => x.other(b(e, "bytes")?),
            _ => return Err(format!("PartyInfoBuilder has no method {}", m)),
        })),
        Obj::SuppPubB(x) => Called::Ok(Obj::SuppPubB(match m {
            "key_data_length" => x.key_data_length(u64_of(&e["z"])?),
            "protected" => x.protected(hdr(e)?),
            "other" => x.other(b(e, "bytes")?),
            _ => return Err(format!("SuppPubInfoBuilder has no method {}", m)),
        })),
        Obj::KdfB(x) => Called::Ok(Obj::KdfB(match m {
            "party_u_info" => x.party_u_info(unproj::party(&e["party"])?),
            "party_v_info" => x.party_v_info(unproj::party(&e["party"])?),
            "supp_pub_info" => x.supp_pub_info(unproj::supp_pub(&e["spi"])?),
            "algorithm" => x.algorithm(alg(e)?),
            "add_supp_priv_info" => x.add_supp_priv_info(b(e, "bytes")?),
            _ => return Err(format!("CoseKdfContextBuilder has no method {}", m)),
        })),
        _ => return Err("call: not a builder".into()),
    })
}

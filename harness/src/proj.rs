//! Projection: coset value -> abstract JSON (the shapes of spec/Header.tla, Msg.tla, Key.tla, ...).
use crate::abs::*;
use crate::iana_tab::Reg;
use coset::iana::WithPrivateRange;
use coset::*;
use serde_json::{json, Value as J};

pub fn label(l: &Label) -> J {
    match l {
        Label::Int(i) => jint(*i as i128),
        Label::Text(t) => json!({"t": "text", "s": jbytes(t.as_bytes())}),
    }
}

fn assigned<T: Reg>(v: T) -> J {
    match T::name_of(v) {
        Some(n) => json!({"k": "assigned", "reg": T::NAME, "name": n}),
        // a variant the table does not know (upstream addition): projected as unknown, never judged
        None => json!({"k": "unknown", "reg": T::NAME, "i": v.to_i64()}),
    }
}

pub fn reglabel<T: Reg>(l: &RegisteredLabel<T>) -> J {
    match l {
        RegisteredLabel::Assigned(v) => assigned(*v),
        RegisteredLabel::Text(t) => json!({"k": "text", "s": jbytes(t.as_bytes())}),
    }
}

pub fn regpriv<T: Reg + WithPrivateRange>(l: &RegisteredLabelWithPrivate<T>) -> J {
    match l {
        RegisteredLabelWithPrivate::Assigned(v) => assigned(*v),
        RegisteredLabelWithPrivate::PrivateUse(i) => json!({"k": "priv", "v": jint(*i as i128)}),
        RegisteredLabelWithPrivate::Text(t) => json!({"k": "text", "s": jbytes(t.as_bytes())}),
    }
}

pub fn header(h: &Header) -> J {
    json!({
        "alg": jopt(h.alg.as_ref().map(regpriv)),
        "crit": h.crit.iter().map(reglabel).collect::<Vec<_>>(),
        "ct": jopt(h.content_type.as_ref().map(reglabel)),
        "kid": jbytes(&h.key_id),
        "iv": jbytes(&h.iv),
        "piv": jbytes(&h.partial_iv),
        "cs": h.counter_signatures.iter().map(signature).collect::<Vec<_>>(),
        "rest": h.rest.iter().map(|(l, v)| json!([label(l), jvalue(v)])).collect::<Vec<_>>(),
    })
}

pub fn prot(p: &ProtectedHeader) -> J {
    json!({
        "orig": jopt(p.original_data.as_ref().map(|b| jbytes(b))),
        "hdr": header(&p.header),
    })
}

fn optb(o: &Option<Vec<u8>>) -> J {
    jopt(o.as_ref().map(|b| jbytes(b)))
}

pub fn signature(s: &CoseSignature) -> J {
    json!({"prot": prot(&s.protected), "unprot": header(&s.unprotected), "sig": jbytes(&s.signature)})
}

pub fn sign(s: &CoseSign) -> J {
    json!({"prot": prot(&s.protected), "unprot": header(&s.unprotected), "payload": optb(&s.payload),
           "sigs": s.signatures.iter().map(signature).collect::<Vec<_>>()})
}

pub fn sign1(s: &CoseSign1) -> J {
    json!({"prot": prot(&s.protected), "unprot": header(&s.unprotected), "payload": optb(&s.payload),
           "sig": jbytes(&s.signature)})
}

pub fn recipient(r: &CoseRecipient) -> J {
    json!({"prot": prot(&r.protected), "unprot": header(&r.unprotected), "cipher": optb(&r.ciphertext),
           "recips": r.recipients.iter().map(recipient).collect::<Vec<_>>()})
}

pub fn mac(m: &CoseMac) -> J {
    json!({"prot": prot(&m.protected), "unprot": header(&m.unprotected), "payload": optb(&m.payload),
           "tag": jbytes(&m.tag), "recips": m.recipients.iter().map(recipient).collect::<Vec<_>>()})
}

pub fn mac0(m: &CoseMac0) -> J {
    json!({"prot": prot(&m.protected), "unprot": header(&m.unprotected), "payload": optb(&m.payload),
           "tag": jbytes(&m.tag)})
}

pub fn encrypt(e: &CoseEncrypt) -> J {
    json!({"prot": prot(&e.protected), "unprot": header(&e.unprotected), "cipher": optb(&e.ciphertext),
           "recips": e.recipients.iter().map(recipient).collect::<Vec<_>>()})
}

pub fn encrypt0(e: &CoseEncrypt0) -> J {
    json!({"prot": prot(&e.protected), "unprot": header(&e.unprotected), "cipher": optb(&e.ciphertext)})
}

pub fn key(k: &CoseKey) -> J {
    json!({
        "kty": reglabel(&k.kty),
        "kid": jbytes(&k.key_id),
        "alg": jopt(k.alg.as_ref().map(regpriv)),
        // BTreeSet iteration order; compared as a set by the judge
        "ops": k.key_ops.iter().map(reglabel).collect::<Vec<_>>(),
        "biv": jbytes(&k.base_iv),
        "params": k.params.iter().map(|(l, v)| json!([label(l), jvalue(v)])).collect::<Vec<_>>(),
    })
}

pub fn keyset(k: &CoseKeySet) -> J {
    J::Array(k.0.iter().map(key).collect())
}

pub fn timestamp(t: &cwt::Timestamp) -> J {
    match t {
        cwt::Timestamp::WholeSeconds(i) => json!({"k": "whole", "v": jint(*i as i128)}),
        cwt::Timestamp::FractionalSeconds(f) => json!({"k": "frac", "bits": jbytes(&f.to_bits().to_be_bytes())}),
    }
}

pub fn claims(c: &cwt::ClaimsSet) -> J {
    let ot = |o: &Option<String>| jopt(o.as_ref().map(|s| jbytes(s.as_bytes())));
    let ots = |o: &Option<cwt::Timestamp>| jopt(o.as_ref().map(timestamp));
    json!({
        "iss": ot(&c.issuer), "sub": ot(&c.subject), "aud": ot(&c.audience),
        "exp": ots(&c.expiration_time), "nbf": ots(&c.not_before), "iat": ots(&c.issued_at),
        "cti": optb(&c.cwt_id),
        "rest": c.rest.iter().map(|(n, v)| json!([regpriv(n), jvalue(v)])).collect::<Vec<_>>(),
    })
}

pub fn nonce(n: &Nonce) -> J {
    match n {
        Nonce::Bytes(b) => json!({"k": "bytes", "b": jbytes(b)}),
        Nonce::Integer(i) => json!({"k": "int", "v": jint(*i as i128)}),
    }
}

pub fn party(p: &PartyInfo) -> J {
    json!({"identity": optb(&p.identity), "nonce": jopt(p.nonce.as_ref().map(nonce)), "other": optb(&p.other)})
}

pub fn supp_pub(s: &SuppPubInfo) -> J {
    json!({"kdl": jint(s.key_data_length as i128), "prot": prot(&s.protected), "other": optb(&s.other)})
}

/// CoseKdfContext has private fields: it is observed through its own encoding, read by the
/// independent reader, and through the public decoders of its parts.
pub fn kdf(k: &CoseKdfContext) -> J {
    let bytes = match k.clone().to_vec() {
        Ok(b) => b,
        Err(e) => return json!({"unobservable": format!("{:?}", e)}),
    };
    let item = match crate::reader::read_all(&bytes) {
        Ok(i) => i,
        Err(e) => return json!({"unobservable": e}),
    };
    let a = match item["a"].as_array() {
        Some(a) if a.len() >= 4 => a.clone(),
        _ => return json!({"unobservable": "not an array of >= 4"}),
    };
    let part = |j: &J| -> Option<Value> { value_of(j).ok() };
    let alg = part(&a[0]).and_then(|v| <Algorithm as AsCborValue>::from_cbor_value(v).ok());
    let pu = part(&a[1]).and_then(|v| PartyInfo::from_cbor_value(v).ok());
    let pv = part(&a[2]).and_then(|v| PartyInfo::from_cbor_value(v).ok());
    let sp = part(&a[3]).and_then(|v| SuppPubInfo::from_cbor_value(v).ok());
    match (alg, pu, pv, sp) {
        (Some(alg), Some(pu), Some(pv), Some(sp)) => {
            let mut spj = supp_pub(&sp);
            // whether the context held retained bytes or a built header is not observable from outside
            spj["prot"]["orig"] = json!("?");
            json!({
                "alg": regpriv(&alg), "pu": party(&pu), "pv": party(&pv), "pub": spj,
                "priv": a[4..].iter().map(|x| x["b"].clone()).collect::<Vec<_>>(),
            })
        }
        _ => json!({"unobservable": "parts do not decode"}),
    }
}
use coset::cbor::value::Value;

//! A small strict CBOR reader, independent of ciborium: definite lengths only, shortest heads only,
//! no trailing bytes.  Output is the abstract JSON value of spec/Cbor.tla.  Used to read everything the
//! crate emits (C11: "read by an independent parser").
use crate::abs::*;
use serde_json::{json, Value as J};

pub struct Rd<'a> {
    b: &'a [u8],
    i: usize,
}

fn half_to_f64(h: u16) -> f64 {
    let sign = if h & 0x8000 != 0 { -1.0 } else { 1.0 };
    let exp = ((h >> 10) & 0x1f) as i32;
    let frac = (h & 0x3ff) as f64;
    let v = if exp == 0 {
        frac * 2f64.powi(-24)
    } else if exp == 31 {
        if frac == 0.0 {
            f64::INFINITY
        } else {
            f64::NAN
        }
    } else {
        (1.0 + frac / 1024.0) * 2f64.powi(exp - 15)
    };
    sign * v
}

impl<'a> Rd<'a> {
    fn take(&mut self, n: usize) -> Result<&'a [u8], String> {
        if self.i + n > self.b.len() {
            return Err(format!("truncated at {}", self.i));
        }
        let s = &self.b[self.i..self.i + n];
        self.i += n;
        Ok(s)
    }

    /// (major, argument) with the shortest-head rule enforced
    fn head(&mut self) -> Result<(u8, u8, u64), String> {
        let ib = self.take(1)?[0];
        let (mj, ai) = (ib >> 5, ib & 31);
        let arg = match ai {
            0..=23 => ai as u64,
            24 => {
                let v = self.take(1)?[0] as u64;
                if mj != 7 && v < 24 {
                    return Err(format!("non-shortest head at {}", self.i));
                }
                v
            }
            25 => {
                let s = self.take(2)?;
                let v = u16::from_be_bytes([s[0], s[1]]) as u64;
                if mj != 7 && v < 256 {
                    return Err(format!("non-shortest head at {}", self.i));
                }
                v
            }
            26 => {
                let s = self.take(4)?;
                let v = u32::from_be_bytes([s[0], s[1], s[2], s[3]]) as u64;
                if mj != 7 && v < 65536 {
                    return Err(format!("non-shortest head at {}", self.i));
                }
                v
            }
            27 => {
                let s = self.take(8)?;
                let mut a = [0u8; 8];
                a.copy_from_slice(s);
                let v = u64::from_be_bytes(a);
                if mj != 7 && v < (1u64 << 32) {
                    return Err(format!("non-shortest head at {}", self.i));
                }
                v
            }
            31 => return Err(format!("indefinite length / break at {}", self.i)),
            _ => return Err(format!("reserved additional info at {}", self.i)),
        };
        Ok((mj, ai, arg))
    }

    pub fn item(&mut self, depth: usize) -> Result<J, String> {
        if depth > 2000 {
            return Err("too deep".into());
        }
        let (mj, ai, arg) = self.head()?;
        Ok(match mj {
            0 => jint(arg as i128),
            1 => jint(-1 - (arg as i128)),
            2 => json!({"t": "bytes", "b": jbytes(self.take(arg as usize)?)}),
            3 => {
                let s = self.take(arg as usize)?;
                std::str::from_utf8(s).map_err(|e| format!("invalid utf8: {}", e))?;
                json!({"t": "text", "s": jbytes(s)})
            }
            4 => {
                let mut a = Vec::new();
                for _ in 0..arg {
                    a.push(self.item(depth + 1)?);
                }
                json!({"t": "array", "a": a})
            }
            5 => {
                let mut m = Vec::new();
                for _ in 0..arg {
                    let k = self.item(depth + 1)?;
                    let v = self.item(depth + 1)?;
                    m.push(json!([k, v]));
                }
                json!({"t": "map", "m": m})
            }
            6 => json!({"t": "tag", "tag": jbytes(&mag_of(arg as u128)), "x": self.item(depth + 1)?}),
            _ => match ai {
                20 => json!({"t": "bool", "bool": false}),
                21 => json!({"t": "bool", "bool": true}),
                22 => json!({"t": "null"}),
                25 => json!({"t": "float", "bits": jbytes(&half_to_f64(arg as u16).to_bits().to_be_bytes())}),
                26 => json!({"t": "float", "bits": jbytes(&(f32::from_bits(arg as u32) as f64).to_bits().to_be_bytes())}),
                27 => json!({"t": "float", "bits": jbytes(&arg.to_be_bytes())}),
                _ => return Err(format!("unsupported simple value {}", ai)),
            },
        })
    }
}

/// exactly one item, nothing after it
pub fn read_all(b: &[u8]) -> Result<J, String> {
    let mut r = Rd { b, i: 0 };
    let v = r.item(0)?;
    if r.i != b.len() {
        return Err(format!("{} trailing bytes", b.len() - r.i));
    }
    Ok(v)
}

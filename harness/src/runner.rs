//! Executes the vectors printed by the TLC instances (spec -> implementation direction) on the real
//! crate and judges them with the property's own predicate (attribution: DESIGN.md section 8).
use crate::abs::*;
use crate::judge::*;
use crate::machine::*;
use crate::reader;
use coset::cbor::value::Value;
use serde_json::{json, Value as J};
use std::collections::hash_map::DefaultHasher;
use std::collections::HashSet;
use std::hash::{Hash, Hasher};
use std::panic::{catch_unwind, AssertUnwindSafe};

pub struct Known {
    pub prop: String,
    pub tag: String,
    /// optional: the finding only covers this failure mode (the `what` of the mismatch)
    pub what: Option<String>,
    pub text: String,
}

pub struct Ctx {
    pub prop: String,
    pub replay_dir: String,
    pub known: Vec<Known>,
    pub vectors: u64,
    pub evaluations: u64,
    pub judged: u64,
    pub unjudged: u64,
    pub violations: u64,
    pub violation_files: Vec<String>,
    pub known_hits: Vec<(String, u64)>,
    pub other_prop: u64,
    pub other_prop_samples: Vec<J>,
    pub deviations: u64,
    pub diag_checked: u64,
    pub rel_fwd: std::collections::HashMap<String, String>,
    pub rel_bwd: std::collections::HashMap<String, String>,
    pub deviation_samples: Vec<J>,
    pub model_dev: u64,
    pub model_dev_samples: Vec<J>,
    pub harness_errors: u64,
    pub harness_error_samples: Vec<String>,
    pub distinct: HashSet<u64>,
    pub nontrivial: HashSet<u64>,
    pub samples: Vec<J>,
    pub by_kind: std::collections::BTreeMap<String, u64>,
    pub accepted: u64,
    pub rejected: u64,
    /// implementation-level injectivity: structure bytes -> the (context, slots, aad, payload) key that produced them
    pub inj: std::collections::HashMap<Vec<u8>, String>,
    pub inj_checked: u64,
    /// `--derive`: decode vectors are turned into fixed-point (C07) / one-item (C13) cases
    pub derive: bool,
    pub scratch: String,
    /// mutation-fuzz every injected wire this many times (C01)
    pub fuzz_per_wire: usize,
    pub rng: crate::gen::Rng,
}

pub fn hash_pub(j: &J) -> u64 {
    hash_of(j)
}

fn hash_of(j: &J) -> u64 {
    let mut h = DefaultHasher::new();
    j.to_string().hash(&mut h);
    h.finish()
}

impl Ctx {
    pub fn new(prop: &str, replay_dir: &str, known: Vec<Known>) -> Self {
        Ctx {
            prop: prop.into(),
            replay_dir: replay_dir.into(),
            known,
            vectors: 0,
            evaluations: 0,
            judged: 0,
            unjudged: 0,
            violations: 0,
            violation_files: vec![],
            known_hits: vec![],
            other_prop: 0,
            other_prop_samples: vec![],
            deviations: 0,
            diag_checked: 0,
            rel_fwd: Default::default(),
            rel_bwd: Default::default(),
            deviation_samples: vec![],
            model_dev: 0,
            model_dev_samples: vec![],
            harness_errors: 0,
            harness_error_samples: vec![],
            distinct: HashSet::new(),
            nontrivial: HashSet::new(),
            samples: vec![],
            by_kind: Default::default(),
            accepted: 0,
            rejected: 0,
            inj: Default::default(),
            inj_checked: 0,
            derive: false,
            scratch: "/verif/.scratch/child".into(),
            fuzz_per_wire: 0,
            rng: crate::gen::Rng(1),
        }
    }

    fn tags_of(v: &J) -> Vec<String> {
        v["tags"].as_array().map(|a| a.iter().filter_map(|x| x.as_str().map(String::from)).collect()).unwrap_or_default()
    }

    /// A mismatch on aspect belonging to property `prop`.
    pub fn mismatch(&mut self, prop: &str, v: &J, what: &str, detail: J) {
        if prop != self.prop {
            self.other_prop += 1;
            if self.other_prop_samples.len() < 3 {
                self.other_prop_samples.push(json!({"property": prop, "what": what, "detail": detail}));
            }
            return;
        }
        let tags = Self::tags_of(v);
        if let Some(k) = self
            .known
            .iter()
            .find(|k| k.prop == prop && tags.iter().any(|t| *t == k.tag) && k.what.as_ref().map(|w| w == what).unwrap_or(true))
        {
            let key = format!("property={} {} [{}]", k.prop, k.text, k.tag);
            match self.known_hits.iter_mut().find(|(t, _)| *t == key) {
                Some((_, n)) => *n += 1,
                None => self.known_hits.push((key, 1)),
            }
            return;
        }
        self.violations += 1;
        if self.violation_files.len() < 25 {
            let rec = json!({"property": prop, "what": what, "detail": detail, "vector": v});
            let path = format!("{}/{}-{:016x}.json", self.replay_dir, prop, hash_of(&rec));
            let _ = std::fs::create_dir_all(&self.replay_dir);
            let _ = std::fs::write(&path, serde_json::to_string_pretty(&rec).unwrap());
            println!("VIOLATION property={} replay={}", prop, path);
            self.violation_files.push(path);
        }
    }

    pub fn model_dev(&mut self, detail: J) {
        self.model_dev += 1;
        if self.model_dev_samples.len() < 5 {
            self.model_dev_samples.push(detail);
        }
    }

    /// a difference that does not concern the property under check
    pub fn other_property(&mut self, what: &str, detail: J) {
        self.other_prop += 1;
        if self.other_prop_samples.len() < 3 {
            self.other_prop_samples.push(json!({"property": "(not C01)", "what": what, "detail": detail}));
        }
    }

    pub fn deviation(&mut self, what: &str, detail: J) {
        self.deviations += 1;
        if self.deviation_samples.len() < 5 {
            self.deviation_samples.push(json!({"what": what, "detail": detail}));
        }
    }

    pub fn harness_error(&mut self, msg: String) {
        self.harness_errors += 1;
        if self.harness_error_samples.len() < 5 {
            self.harness_error_samples.push(msg);
        }
    }

    pub fn summary(&self) -> J {
        json!({
            "vectors": self.vectors, "evaluations": self.evaluations, "judged": self.judged, "unjudged": self.unjudged,
            "violations": self.violations, "violation_files": self.violation_files,
            "known_hits": self.known_hits.iter().map(|(t, n)| json!({"finding": t, "count": n})).collect::<Vec<_>>(),
            "other_property_mismatches": self.other_prop, "other_property_samples": self.other_prop_samples,
            "diagnostics_compared": self.diag_checked,
            "unattributed_deviation": self.deviations, "deviation_samples": self.deviation_samples,
            "parser_model_deviation": self.model_dev, "parser_model_samples": self.model_dev_samples,
            "harness_errors": self.harness_errors, "harness_error_samples": self.harness_error_samples,
            "distinct": self.distinct.len(), "distinct_nontrivial": self.nontrivial.len(),
            "samples": self.samples, "by_kind": self.by_kind, "accepted": self.accepted, "rejected": self.rejected,
            "extra": {"injectivity_outputs": self.inj.len(), "injectivity_checked": self.inj_checked},
        })
    }
}

fn main_prop(v: &J) -> String {
    v["props"][0].as_str().unwrap_or("").to_string()
}

fn dec_obs(d: &Dec) -> J {
    match d {
        Dec::Ok(_, j) => json!({"kind": "ok", "val": j}),
        Dec::Err(k) => {
            let (disp, dbg) = crate::machine::last_text();
            json!({"kind": "err", "err": k, "diag": if *k == "UnexpectedItem" { crate::machine::last_diag() } else { json!([]) }, "display": disp, "debug": dbg})
        }
        Dec::Harness(m) => json!({"kind": "harness", "err": m}),
    }
}

/// Judge one decode outcome against {accept, val, err, pinerr, errprop, judge}.
fn judge_decode(ctx: &mut Ctx, v: &J, api: &str, obs: &J) {
    let ex = &v["expect"];
    ctx.evaluations += 1;
    if obs["kind"] == "harness" {
        ctx.harness_error(format!("{} ({})", obs["err"], api));
        return;
    }
    if !ex["judge"].as_bool().unwrap_or(true) {
        ctx.unjudged += 1;
        return;
    }
    if has_unknown(obs) || has_unobservable(obs) {
        ctx.unjudged += 1;
        return;
    }
    ctx.judged += 1;
    let prop = main_prop(v);
    let accept = ex["accept"].as_bool().unwrap_or(false);
    if obs["kind"] == "panic" {
        // a panicking decoder is a C01 matter wherever the vector lists C01
        let pp = if ctx.prop == "C01" && v["props"].as_array().map(|a| a.iter().any(|x| x == "C01")).unwrap_or(false) { "C01".to_string() } else { prop };
        ctx.mismatch(&pp, v, "panic", json!({"api": api, "obs": obs}));
        return;
    }
    let got_ok = obs["kind"] == "ok";
    if got_ok {
        ctx.accepted += 1;
    } else {
        ctx.rejected += 1;
    }
    if accept != got_ok {
        ctx.mismatch(&prop, v, if accept { "rejected-but-well-formed" } else { "accepted-but-ill-formed" }, json!({"api": api, "obs": obs}));
        return;
    }
    if accept {
        if let Some(want) = ex["val"].get(0) {
            if !same(want, &obs["val"]) {
                ctx.mismatch(&prop, v, "value-differs", json!({"api": api, "obs": obs}));
            }
        }
    } else {
        let want = ex["err"].as_str().unwrap_or("");
        let got = obs["err"].as_str().unwrap_or("");
        // the (got, want) diagnostic of an UnexpectedItem: behaviour of the crate that no property pins -> deviation only
        if want == "UnexpectedItem" && got == want {
            if let (Some(wd), Some(gd)) = (ex["diag"].as_array(), obs["diag"].as_array()) {
                if !wd.is_empty() {
                    ctx.diag_checked += 1;
                    if wd != gd {
                        ctx.deviation("diagnostic", json!({"want": wd, "got": gd, "ty": v["ty"]}));
                    }
                }
            }
        }
        // Display / Debug text of the error, where the specification models it (same kind on both sides)
        if let Some(wt) = ex["text"].as_str() {
            if !wt.is_empty() && want == got {
                ctx.diag_checked += 1;
                if obs["display"].as_str() != Some(wt) || obs["debug"].as_str() != Some(wt) {
                    ctx.deviation("error-text", json!({"want": wt, "display": obs["display"], "debug": obs["debug"]}));
                }
            }
        }
        if !want.is_empty() && want != "GAP" && want != got {
            if ex["pinerr"].as_bool().unwrap_or(false) {
                let ep = ex["errprop"].as_str().map(String::from).unwrap_or(prop);
                ctx.mismatch(&ep, v, "error-kind", json!({"api": api, "want": want, "got": got}));
            } else {
                ctx.deviation("error-kind", json!({"want": want, "got": got, "ty": v["ty"]}));
            }
        }
    }
}

fn guarded<F: FnOnce() -> Dec>(f: F) -> J {
    match catch_unwind(AssertUnwindSafe(f)) {
        Ok(d) => dec_obs(&d),
        Err(_) => json!({"kind": "panic"}),
    }
}

fn container_nontrivial(item: &J) -> bool {
    match item["t"].as_str() {
        Some("map") => item["m"].as_array().map(|a| !a.is_empty()).unwrap_or(false),
        Some("array") => item["a"].as_array().map(|a| !a.is_empty()).unwrap_or(false),
        Some("tag") => true,
        _ => false,
    }
}

pub fn run_decode(ctx: &mut Ctx, v: &J) {
    // one item decoded as several types: {multi: [{ty, expect}, ...]}
    if let Some(multi) = v["multi"].as_array() {
        for m in multi {
            let mut one = v.clone();
            let o = one.as_object_mut().unwrap();
            o.remove("multi");
            o.insert("ty".into(), m["ty"].clone());
            if !m["reg"].is_null() {
                o.insert("reg".into(), m["reg"].clone());
            }
            o.insert("expect".into(), m["expect"].clone());
            run_decode(ctx, &one);
        }
        return;
    }
    let ty = v["ty"].as_str().unwrap_or("");
    let reg = v["reg"].as_str().unwrap_or("");
    let h = hash_of(&json!([v["ty"], v["reg"], v["item"], v["wires"], v["api"]]));
    ctx.distinct.insert(h);
    let nontriv = v["nt"].as_bool().unwrap_or_else(|| container_nontrivial(&v["item"]));
    if nontriv {
        ctx.nontrivial.insert(h);
    }
    let api = v["api"].as_str().unwrap_or("slice");
    // Value-level API
    if api == "slice" && !v["item"].is_null() && !v["novalue"].as_bool().unwrap_or(false) {
        match value_of(&v["item"]) {
            Ok(val) => {
                let o = guarded(|| decode_value(ty, reg, val));
                judge_decode(ctx, v, "from_cbor_value", &o);
            }
            Err(e) => ctx.harness_error(format!("unproj item: {}", e)),
        }
    }
    if let Some(wires) = v["wires"].as_array() {
        for w in wires {
            let bytes = match bytes_of(w) {
                Ok(b) => b,
                Err(e) => {
                    ctx.harness_error(e);
                    continue;
                }
            };
            // bind the specification's Parse/Enc to ciborium: the wire must parse to the item
            if !v["item"].is_null() && api == "slice" {
                // ciborium directly (NOT through the crate under test): one item, nothing after it
                let parsed: Result<Value, ()> = {
                    let mut sl: &[u8] = &bytes;
                    match coset::cbor::de::from_reader::<Value, _>(&mut sl) {
                        Ok(v) if sl.is_empty() => Ok(v),
                        _ => Err(()),
                    }
                };
                match parsed {
                    Ok(pv) => {
                        if !same(&jvalue(&pv), &v["item"]) {
                            ctx.model_dev += 1;
                            if ctx.model_dev_samples.len() < 5 {
                                ctx.model_dev_samples.push(json!({"wire": hex(&bytes), "spec": v["item"], "ciborium": jvalue(&pv)}));
                            }
                            continue;
                        }
                    }
                    Err(_) => {
                        ctx.model_dev += 1;
                        if ctx.model_dev_samples.len() < 5 {
                            ctx.model_dev_samples.push(json!({"wire": hex(&bytes), "spec": v["item"], "ciborium": "error"}));
                        }
                        continue;
                    }
                }
            }
            let o = match api {
                "slice" => guarded(|| decode_slice(ty, reg, &bytes)),
                "tagged" => guarded(|| decode_tagged(ty, &bytes)),
                "bstr" => guarded(|| decode_bstr(&bytes)),
                a => json!({"kind": "harness", "err": format!("unknown api {}", a)}),
            };
            judge_decode(ctx, v, api, &o);
            // "every supported value encodes back to a CBOR integer of the same value"
            if let Some(want) = v["expect"]["reenc"].get(0) {
                if o["kind"] == "ok" && api == "slice" {
                    let mut m = Machine::new();
                    m.wire = Some(bytes.clone());
                    let _ = m.step(&json!({"ev": "decode", "api": "slice", "ty": v["ty"], "reg": v["reg"]}));
                    let e = m.step(&json!({"ev": "encode", "api": "vec"}));
                    let same_bytes = e["kind"] == "ok"
                        && match (bytes_of(want), bytes_of(&e["bytes"][0])) {
                            (Ok(w), Ok(g)) => struct_equiv(&w, &g),     // maps modulo entry order
                            _ => false,
                        };
                    if e["kind"] != "harness" && !same_bytes {
                        let p = main_prop(v);
                        ctx.mismatch(&p, v, "re-encoding-differs", json!({"obs": e}));
                    }
                }
            }
        }
    }
}

/// deterministic encoder for abstract values, independent of ciborium (used to compare key orders etc.)
pub fn enc_abs(j: &J) -> Result<Vec<u8>, String> {
    fn head(mj: u8, n: u64, out: &mut Vec<u8>) {
        if n < 24 {
            out.push((mj << 5) | n as u8);
        } else if n < 256 {
            out.push((mj << 5) | 24);
            out.push(n as u8);
        } else if n < 65536 {
            out.push((mj << 5) | 25);
            out.extend_from_slice(&(n as u16).to_be_bytes());
        } else if n < (1u64 << 32) {
            out.push((mj << 5) | 26);
            out.extend_from_slice(&(n as u32).to_be_bytes());
        } else {
            out.push((mj << 5) | 27);
            out.extend_from_slice(&n.to_be_bytes());
        }
    }
    fn go(j: &J, out: &mut Vec<u8>) -> Result<(), String> {
        match j["t"].as_str().ok_or("enc_abs: no t")? {
            "int" => {
                let neg = j["neg"].as_bool().ok_or("neg")?;
                let m = nat_of_mag(&bytes_of(&j["mag"])?)?;
                head(if neg { 1 } else { 0 }, u64::try_from(m).map_err(|_| "int too big")?, out);
            }
            "bytes" => {
                let b = bytes_of(&j["b"])?;
                head(2, b.len() as u64, out);
                out.extend_from_slice(&b);
            }
            "text" => {
                let b = bytes_of(&j["s"])?;
                head(3, b.len() as u64, out);
                out.extend_from_slice(&b);
            }
            "array" => {
                let a = j["a"].as_array().ok_or("a")?;
                head(4, a.len() as u64, out);
                for x in a {
                    go(x, out)?;
                }
            }
            "map" => {
                let m = j["m"].as_array().ok_or("m")?;
                head(5, m.len() as u64, out);
                for p in m {
                    go(&p[0], out)?;
                    go(&p[1], out)?;
                }
            }
            "tag" => {
                head(6, u64::try_from(nat_of_mag(&bytes_of(&j["tag"])?)?).map_err(|_| "tag")?, out);
                go(&j["x"], out)?;
            }
            "bool" => out.push(if j["bool"].as_bool().ok_or("bool")? { 0xf5 } else { 0xf4 }),
            "null" => out.push(0xf6),
            "float" => {
                out.push(0xfb);
                out.extend_from_slice(&bytes_of(&j["bits"])?);
            }
            t => return Err(format!("enc_abs: kind {}", t)),
        }
        Ok(())
    }
    let mut out = Vec::new();
    go(j, &mut out)?;
    Ok(out)
}

/// all maps (recursively) compared as multisets of entries
fn norm_maps(j: &J) -> J {
    match j {
        J::Array(a) => J::Array(a.iter().map(norm_maps).collect()),
        J::Object(m) => {
            let mut out = serde_json::Map::new();
            for (k, v) in m {
                let mut nv = norm_maps(v);
                if k == "m" && m.get("t").map(|t| t == "map").unwrap_or(false) {
                    if let J::Array(a) = &mut nv {
                        a.sort_by_key(|x| x.to_string());
                    }
                }
                out.insert(k.clone(), nv);
            }
            J::Object(out)
        }
        _ => j.clone(),
    }
}

/// every map at every nesting level (including inside byte strings that parse as one map) has
/// pairwise distinct keys
pub fn maps_have_distinct_keys(j: &J) -> bool {
    match j["t"].as_str() {
        Some("map") => {
            let m = j["m"].as_array().cloned().unwrap_or_default();
            let mut seen = HashSet::new();
            for p in &m {
                if !seen.insert(p[0].to_string()) {
                    return false;
                }
            }
            m.iter().all(|p| maps_have_distinct_keys(&p[0]) && maps_have_distinct_keys(&p[1]))
        }
        Some("array") => j["a"].as_array().map(|a| a.iter().all(maps_have_distinct_keys)).unwrap_or(true),
        Some("tag") => maps_have_distinct_keys(&j["x"]),
        Some("bytes") => {
            // a protected header travels inside a bstr
            match bytes_of(&j["b"]).ok().and_then(|b| reader::read_all(&b).ok()) {
                Some(inner) if inner["t"] == "map" => maps_have_distinct_keys(&inner),
                _ => true,
            }
        }
        _ => true,
    }
}

pub fn run_encode(ctx: &mut Ctx, v: &J) {
    let ex = &v["expect"];
    let prop = main_prop(v);
    let h = hash_of(&json!([v["ty"], v["x"], v["api"]]));
    ctx.distinct.insert(h);
    if v["nt"].as_bool().unwrap_or(true) {
        ctx.nontrivial.insert(h);
    }
    ctx.evaluations += 1;
    let mut m = Machine::new();
    let lit = json!({"ev": "lit", "ty": v["ty"], "reg": v["reg"], "x": v["x"]});
    let o = m.step(&lit);
    if o["kind"] == "harness" {
        ctx.harness_error(format!("encode/lit: {}", o["err"]));
        return;
    }
    let api = v["api"].as_str().unwrap_or("vec");
    let o = m.step(&json!({"ev": "encode", "api": api}));
    if o["kind"] == "harness" {
        ctx.harness_error(format!("encode: {}", o["err"]));
        return;
    }
    if !ex["judge"].as_bool().unwrap_or(true) {
        ctx.unjudged += 1;
        return;
    }
    ctx.judged += 1;
    if o["kind"] == "panic" {
        ctx.mismatch(&prop, v, "panic", json!({"obs": o}));
        return;
    }
    let want_ok = ex["ok"].as_bool().unwrap_or(true);
    let got_ok = o["kind"] == "ok";
    // C12 (encode half): whatever was emitted, no map may repeat a key
    if got_ok {
        if let Ok(bytes) = bytes_of(&o["bytes"][0]) {
            if let Ok(item) = reader::read_all(&bytes) {
                if !maps_have_distinct_keys(&item) {
                    ctx.mismatch("C12", v, "emitted-duplicate-key", json!({"bytes": hex(&bytes)}));
                }
            }
        }
    }
    if want_ok != got_ok {
        let ep = ex["okprop"].as_str().map(String::from).unwrap_or(prop);
        ctx.mismatch(&ep, v, if want_ok { "encode-failed" } else { "encode-succeeded" }, json!({"obs": o}));
        return;
    }
    if !got_ok {
        let want = ex["err"].as_str().unwrap_or("");
        let got = o["err"].as_str().unwrap_or("");
        if !want.is_empty() && want != got {
            if ex["pinerr"].as_bool().unwrap_or(false) {
                let ep = ex["errprop"].as_str().map(String::from).unwrap_or(prop);
                ctx.mismatch(&ep, v, "error-kind", json!({"want": want, "got": got}));
            } else {
                ctx.deviation("error-kind", json!({"want": want, "got": got}));
            }
        }
        return;
    }
    ctx.accepted += 1;
    let bytes = bytes_of(&o["bytes"][0]).unwrap_or_default();
    // strict independent read: definite lengths, shortest heads, one item
    let item = match reader::read_all(&bytes) {
        Ok(i) => i,
        Err(e) => {
            ctx.mismatch(&prop, v, "output-not-deterministic-cbor", json!({"bytes": hex(&bytes), "reader": e}));
            return;
        }
    };
    if let Some(want) = ex["item"].get(0) {
        let exact = same(want, &item);
        if !exact {
            if ex["modorder"].as_bool().unwrap_or(false) && same(&norm_maps(want), &norm_maps(&item)) {
                ctx.deviation("map-entry-order", json!({"want": want, "got": item}));
            } else {
                ctx.mismatch(&prop, v, "encoded-item-differs", json!({"bytes": hex(&bytes), "got": item}));
                return;
            }
        }
    }
    // extra parameters all present, in their given relative order
    if let Some(extras) = ex["extras"].as_array() {
        if !extras.is_empty() && item["t"] == "map" {
            let want_keys: Vec<String> = extras.iter().map(|k| k.to_string()).collect();
            let got: Vec<String> = item["m"]
                .as_array()
                .map(|a| a.iter().map(|e| e[0].to_string()).filter(|k| want_keys.contains(k)).collect())
                .unwrap_or_default();
            if got != want_keys {
                ctx.mismatch(&prop, v, "extra-parameters-reordered-or-lost", json!({"bytes": hex(&bytes), "want": want_keys, "got": got}));
                return;
            }
        }
    }
    if let Some(want) = ex["bytes"].get(0) {
        if !ex["modorder"].as_bool().unwrap_or(false) && *want != jbytes(&bytes) {
            ctx.mismatch(&prop, v, "encoded-bytes-differ", json!({"bytes": hex(&bytes)}));
            return;
        }
    }
    // decoding the output returns the value (protected headers now carrying the assigned bytes)
    if let Some(want) = ex["back"].get(0) {
        let o2 = m.step(&json!({"ev": "decode", "api": if api == "tagged" { "tagged" } else { "slice" }, "ty": v["ty"], "reg": v["reg"]}));
        if o2["kind"] != "ok" {
            ctx.mismatch(&prop, v, "own-output-rejected", json!({"bytes": hex(&bytes), "obs": o2}));
        } else if !has_unknown(&o2) && !same(want, &o2["val"][0]) {
            if ex["modorder"].as_bool().unwrap_or(false) {
                // protected bytes depend on the entry order the encoder chose: compare with origs wildcarded
                if !same(&wild_orig(want), &wild_orig(&o2["val"][0])) {
                    ctx.mismatch(&prop, v, "decode-of-output-differs", json!({"got": o2["val"][0]}));
                }
            } else {
                ctx.mismatch(&prop, v, "decode-of-output-differs", json!({"got": o2["val"][0]}));
            }
        }
    }
}

fn wild_orig(j: &J) -> J {
    match j {
        J::Array(a) => J::Array(a.iter().map(wild_orig).collect()),
        J::Object(m) => {
            let mut out = serde_json::Map::new();
            for (k, v) in m {
                if k == "orig" && m.contains_key("hdr") {
                    out.insert(k.clone(), json!("?"));
                } else {
                    out.insert(k.clone(), wild_orig(v));
                }
            }
            J::Object(out)
        }
        _ => j.clone(),
    }
}

/// Canonical form of an item for comparison "modulo the entry order the encoder chose": every map is
/// compared as a multiset of entries, and a byte string that holds exactly one map (a protected header)
/// is compared by that map's content.
fn norm_deep(j: &J) -> J {
    match j["t"].as_str() {
        Some("map") => {
            let mut es: Vec<J> = j["m"].as_array().map(|a| a.iter().map(|p| json!([norm_deep(&p[0]), norm_deep(&p[1])])).collect()).unwrap_or_default();
            es.sort_by_key(|x| x.to_string());
            json!({"t": "map", "m": es})
        }
        Some("array") => json!({"t": "array", "a": j["a"].as_array().map(|a| a.iter().map(norm_deep).collect::<Vec<_>>()).unwrap_or_default()}),
        Some("tag") => json!({"t": "tag", "tag": j["tag"], "x": norm_deep(&j["x"])}),
        Some("bytes") => match bytes_of(&j["b"]).ok().and_then(|b| if b.is_empty() { None } else { reader::read_all(&b).ok() }) {
            Some(inner) if inner["t"] == "map" => json!({"t": "bytes-holding-map", "m": norm_deep(&inner)}),
            _ => j.clone(),
        },
        _ => j.clone(),
    }
}

/// Equality of two encodings where protected headers built in memory are compared by content
/// (deterministic CBOR, same entries), not by the entry order the encoder happened to choose.
fn struct_equiv(want: &[u8], got: &[u8]) -> bool {
    if want == got {
        return true;
    }
    match (reader::read_all(want), reader::read_all(got)) {
        (Ok(w), Ok(g)) => norm_deep(&w) == norm_deep(&g),
        _ => false,
    }
}

fn bytes_list_equiv(want: &J, got: &J, slotfree: bool) -> bool {
    let (w, g) = match (want.as_array(), got.as_array()) {
        (Some(w), Some(g)) if w.len() == g.len() => (w, g),
        _ => return false,
    };
    for (a, b) in w.iter().zip(g) {
        if a == b {
            continue;
        }
        if slotfree {
            if let (Ok(x), Ok(y)) = (bytes_of(a), bytes_of(b)) {
                if struct_equiv(&x, &y) {
                    continue;
                }
            }
        }
        return false;
    }
    true
}

/// A session: a list of events with the observation the specification expects after each.
pub fn run_session(ctx: &mut Ctx, v: &J) {
    let prop = main_prop(v);
    let steps = match v["steps"].as_array() {
        Some(s) => s,
        None => {
            ctx.harness_error("session without steps".into());
            return;
        }
    };
    let h = hash_of(&v["steps"]);
    ctx.distinct.insert(h);
    if v["nt"].as_bool().unwrap_or(steps.len() >= 2) {
        ctx.nontrivial.insert(h);
    }
    let empty = vec![];
    let expect = v["expect"].as_array().unwrap_or(&empty);
    let mut m = Machine::new();
    // C06 is a RELATION between what the creating closure and the verifying closure were handed, not a statement about the
    // bytes themselves (C03-C05 own those): with `relcb` the structure bytes (last closure argument) and the serialised message
    // are not compared with the specification's; instead any two calls of the session must agree / differ exactly as the
    // specification's do
    let relcb = v["relcb"].as_bool().unwrap_or(false);
    let mut handed: Vec<(J, J, usize, bool)> = vec![];
    for (i, e) in steps.iter().enumerate() {
        let o = m.step(e);
        ctx.evaluations += 1;
        if o["kind"] == "harness" {
            ctx.harness_error(format!("step {} {}: {}", i, e["ev"], o["err"]));
            return;
        }
        let ex = match expect.get(i) {
            Some(x) => x,
            None => continue,
        };
        if !ex["judge"].as_bool().unwrap_or(true) {
            ctx.unjudged += 1;
            // behaviour left open: the rest of the session depends on it
            if ex["kind"] != o["kind"] {
                return;
            }
            continue;
        }
        if has_unknown(&o) || has_unobservable(&o) {
            ctx.unjudged += 1;
            continue;
        }
        ctx.judged += 1;
        let sp = ex["prop"].as_str().map(String::from).unwrap_or_else(|| prop.clone());
        // C01 is about crashes only: a session of C01 in which the crate answers differently WITHOUT crashing (accepts what the
        // specification rejects, other bytes, another value) is some other property's business -- counted, not an alarm of C01
        let c01 = sp == "C01";
        if ex["kind"] != o["kind"] {
            if c01 && o["kind"] != "panic" {
                ctx.other_property("outcome-kind", json!({"step": i, "event": e, "want": ex["kind"], "got": o["kind"]}));
                return;
            }
            ctx.mismatch(&sp, v, "outcome-kind", json!({"step": i, "event": e, "want": ex["kind"], "obs": o}));
            return;
        }
        if c01 {
            // same outcome kind and no crash: nothing else in this step concerns C01 (the follow-up steps still run)
            continue;
        }
        if o["kind"] == "err" {
            let want = ex["err"].as_str().unwrap_or("");
            let got = o["err"].as_str().unwrap_or("");
            if !want.is_empty() && want != got {
                if ex["pinerr"].as_bool().unwrap_or(false) {
                    ctx.mismatch(&sp, v, "error-kind", json!({"step": i, "want": want, "got": got}));
                    return;
                } else {
                    ctx.deviation("error-kind", json!({"want": want, "got": got}));
                }
            }
        }
        let slotfree = ex["slotfree"].as_bool().unwrap_or(false);
        if ex["protonly"].as_bool().unwrap_or(false) {
            // C02 on a structure: only the protected slots (element 1, and element 2 of a five-element Sig_structure)
            let last = |x: &J| -> Option<Vec<u8>> {
                x["bytes"].get(0).or_else(|| x["cb"].as_array().and_then(|a| a.last())).and_then(|b| bytes_of(b).ok())
            };
            let slots = |b: &[u8]| -> Vec<J> {
                let mut sl: &[u8] = b;
                match coset::cbor::de::from_reader::<Value, _>(&mut sl) {
                    Ok(Value::Array(a)) if a.len() >= 3 => {
                        if a.len() == 5 {
                            vec![jvalue(&a[1]), jvalue(&a[2])]
                        } else {
                            vec![jvalue(&a[1])]
                        }
                    }
                    _ => vec![json!(hex(b))],
                }
            };
            match (last(ex), last(&o)) {
                (Some(we), Some(wo)) => {
                    if slots(&we) != slots(&wo) {
                        ctx.mismatch(&sp, v, "protected-slot-of-structure-differs", json!({"step": i, "event": e, "want": slots(&we), "got": slots(&wo)}));
                        return;
                    }
                }
                (None, None) => {}
                _ => {
                    ctx.mismatch(&sp, v, "structure-missing", json!({"step": i, "event": e}));
                    return;
                }
            }
            if !same(&ex["ret"], &o["ret"]) {
                ctx.mismatch(&sp, v, "returned-result-differs", json!({"step": i, "event": e, "want": ex["ret"], "got": o["ret"]}));
                return;
            }
            continue;
        }
        if !relcb && !ex["nobytes"].as_bool().unwrap_or(false) && !bytes_list_equiv(&ex["bytes"], &o["bytes"], slotfree) {
            ctx.mismatch(&sp, v, "bytes-differ", json!({"step": i, "event": e, "want": ex["bytes"], "got": o["bytes"]}));
            return;
        }
        if relcb {
            let (ea, oa) = (ex["cb"].as_array().cloned().unwrap_or_default(), o["cb"].as_array().cloned().unwrap_or_default());
            if ea.len() != oa.len() {
                ctx.mismatch(&sp, v, "closure-arguments-differ", json!({"step": i, "event": e, "want": ex["cb"], "got": o["cb"]}));
                return;
            }
            if let (Some(el), Some(ol)) = (ea.last(), oa.last()) {
                // everything before the structure bytes (the stored signature / tag / ciphertext) is compared as it is
                if !bytes_list_equiv(&json!(ea[..ea.len() - 1]), &json!(oa[..oa.len() - 1]), slotfree) {
                    ctx.mismatch(&sp, v, "closure-arguments-differ", json!({"step": i, "event": e, "want": ex["cb"], "got": o["cb"]}));
                    return;
                }
                // the relation is stated per route: the helpers with a detached payload among themselves, the others among themselves
                // (C06 does not say that the two routes hand over the same bytes for the same inputs -- that is C03's statement)
                let detached = e["m"].as_str().map(|m| m.contains("detached")).unwrap_or(false);
                for (pe, po, pi, pd) in &handed {
                    if *pd == detached && (pe == el) != (po == ol) {
                        ctx.mismatch(&sp, v, "created-and-verified-bytes-relation", json!({"steps": [pi, i], "event": e,
                            "spec_says_equal": pe == el, "crate_handed_equal": po == ol}));
                        return;
                    }
                }
                handed.push((el.clone(), ol.clone(), i, detached));
                // ... and ACROSS sessions: the specification's bytes and the crate's bytes are in one-to-one correspondence
                // ("any change to the AAD, the payload or a protected header changes the bytes handed over")
                let (ek, ok) = (format!("{}{}", if detached { "d" } else { "p" }, el), format!("{}{}", if detached { "d" } else { "p" }, ol));
                if let Some(prev) = ctx.rel_fwd.get(&ek) {
                    if *prev != ok {
                        ctx.mismatch(&sp, v, "same-inputs-handed-different-bytes", json!({"step": i, "event": e}));
                        return;
                    }
                }
                if let Some(prev) = ctx.rel_bwd.get(&ok) {
                    if *prev != ek {
                        ctx.mismatch(&sp, v, "different-inputs-handed-the-same-bytes", json!({"step": i, "event": e, "crate_bytes": ol}));
                        return;
                    }
                }
                ctx.rel_fwd.insert(ek.clone(), ok.clone());
                ctx.rel_bwd.insert(ok, ek);
            }
        } else if sp == "C19" {
            // C19 is about the value a sequence of builder calls produces; what a create helper hands to its closure is C03-C05's
        } else if !bytes_list_equiv(&ex["cb"], &o["cb"], slotfree) {
            ctx.mismatch(&sp, v, "closure-arguments-differ", json!({"step": i, "event": e, "want": ex["cb"], "got": o["cb"]}));
            return;
        }
        if !same(&ex["ret"], &o["ret"]) && e["ev"] != "clone_eq" {
            ctx.mismatch(&sp, v, "returned-result-differs", json!({"step": i, "event": e, "want": ex["ret"], "got": o["ret"]}));
            return;
        }
        // distinct (context, protected slots, aad, payload) never share structure bytes
        if let Some(key) = ex["inj"].get(0) {
            let sb = o["bytes"].get(0).or_else(|| o["cb"].as_array().and_then(|a| a.last()));
            if let Some(Ok(sb)) = sb.map(bytes_of) {
                ctx.inj_checked += 1;
                let k = key.to_string();
                match ctx.inj.get(&sb) {
                    Some(prev) if *prev != k => {
                        ctx.mismatch(&sp, v, "distinct-inputs-share-structure-bytes", json!({"step": i, "bytes": hex(&sb), "other": prev}));
                        return;
                    }
                    Some(_) => {}
                    None => {
                        ctx.inj.insert(sb, k);
                    }
                }
            }
        }
        if !ex["noval"].as_bool().unwrap_or(false) {
            let ok = if slotfree { same(&wild_orig(&ex["val"]), &wild_orig(&o["val"])) } else { same(&ex["val"], &o["val"]) };
            if !ok {
                ctx.mismatch(&sp, v, "state-differs", json!({"step": i, "event": e, "want": ex["val"], "got": o["val"]}));
                return;
            }
        }
    }
}

fn fuzz_wires_of(ctx: &mut Ctx, v: &J) {
    if ctx.fuzz_per_wire == 0 {
        return;
    }
    let mut wires: Vec<Vec<u8>> = vec![];
    if let Some(steps) = v["steps"].as_array() {
        for e in steps {
            if e["ev"] == "inject" {
                if let Ok(b) = bytes_of(&e["bytes"]) {
                    wires.push(b);
                }
            }
        }
    }
    for w in v["wires"].as_array().cloned().unwrap_or_default() {
        if let Ok(b) = bytes_of(&w) {
            wires.push(b);
        }
    }
    for w in wires {
        for _ in 0..ctx.fuzz_per_wire {
            let m = crate::gen::mutate(&mut ctx.rng, &w, &w);
            crate::runner6::fuzz_one(ctx, &m, "mutated-spec-wire");
        }
    }
}

/// `run_vector` with every panic of the code under test turned into data: the judges call the crate through `Machine::step`,
/// which catches panics, but some compare through direct calls (re-encoding, Value-level conversions); a panic there must not
/// take the harness down.  It is reported like any other panic: a mismatch "panic" of the vector's property.
pub fn run_vector_guarded(ctx: &mut Ctx, v: &J) {
    let r = catch_unwind(AssertUnwindSafe(|| run_vector(ctx, v)));
    if r.is_err() {
        let p = main_prop(v);
        let p = if ctx.prop == "C01" { "C01".to_string() } else { p };
        ctx.mismatch(&p, v, "panic", json!({"where": "a direct call of the crate while judging this vector (not a machine step)"}));
    }
}

pub fn run_vector(ctx: &mut Ctx, v: &J) {
    fuzz_wires_of(ctx, v);
    ctx.vectors += 1;
    let kind = v["kind"].as_str().unwrap_or("").to_string();
    *ctx.by_kind.entry(kind.clone()).or_insert(0) += 1;
    if ctx.samples.len() < 3 && (ctx.vectors % 997 == 1 || ctx.vectors < 3) {
        ctx.samples.push(v.clone());
    }
    match kind.as_str() {
        "decode" if ctx.derive => crate::runner5::derive_from_decode(ctx, v),
        "encode" | "session" if ctx.derive => {}
        "decode" => run_decode(ctx, v),
        "encode" => run_encode(ctx, v),
        "session" => run_session(ctx, v),
        other => crate::runner2::run_other(ctx, other, v),
    }
}

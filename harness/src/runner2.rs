//! Vector kinds beyond decode / encode / session: label comparison (C16), registries (C17),
//! fixed points (C07), one-item discipline (C13), key canonicalisation (C20).
use crate::abs::*;
use crate::iana_tab::{with_registry, Reg, RegVisitor};
use crate::judge::*;
use crate::machine::*;
use crate::runner::Ctx;
use crate::{reader, unproj};
use coset::iana::WithPrivateRange;
use coset::*;
use serde_json::{json, Value as J};
use std::cmp::Ordering;
use std::collections::BTreeSet;
use std::panic::{catch_unwind, AssertUnwindSafe};

fn ord(o: Ordering) -> i64 {
    match o {
        Ordering::Less => -1,
        Ordering::Equal => 0,
        Ordering::Greater => 1,
    }
}

fn prop_of(v: &J) -> String {
    v["props"][0].as_str().unwrap_or("").to_string()
}

/// everything the crate can say about two values of an ordered type
struct Pair {
    cmp: i64,
    rev: i64,
    partial: Option<i64>,
    eq: bool,
    canon: Option<i64>,
}

fn pair_of<T: Ord + PartialEq>(a: &T, b: &T, canon: Option<i64>) -> Pair {
    Pair { cmp: ord(a.cmp(b)), rev: ord(b.cmp(a)), partial: a.partial_cmp(b).map(ord), eq: a == b, canon }
}

struct CmpV<'a>(&'a J, &'a J, bool);
impl<'a> RegVisitor for CmpV<'a> {
    type Out = Result<Pair, String>;
    fn visit<T: Reg>(self) -> Self::Out {
        let (a, b) = (unproj::reglabel::<T>(self.0)?, unproj::reglabel::<T>(self.1)?);
        Ok(pair_of(&a, &b, None))
    }
    fn visit_priv<T: Reg + WithPrivateRange>(self) -> Self::Out {
        if self.2 {
            let (a, b) = (unproj::regpriv::<T>(self.0)?, unproj::regpriv::<T>(self.1)?);
            Ok(pair_of(&a, &b, None))
        } else {
            let (a, b) = (unproj::reglabel::<T>(self.0)?, unproj::reglabel::<T>(self.1)?);
            Ok(pair_of(&a, &b, None))
        }
    }
}

fn run_cmp(ctx: &mut Ctx, v: &J) {
    let p = prop_of(v);
    ctx.evaluations += 1;
    let h = crate::runner::hash_pub(&json!([v["lty"], v["reg"], v["a"], v["b"]]));
    ctx.distinct.insert(h);
    if v["a"] != v["b"] {
        ctx.nontrivial.insert(h);
    }
    let lty = v["lty"].as_str().unwrap_or("");
    let r = catch_unwind(AssertUnwindSafe(|| -> Result<Pair, String> {
        if lty == "Label" {
            let (a, b) = (unproj::label(&v["a"])?, unproj::label(&v["b"])?);
            let c = ord(a.cmp_canonical(&b));
            Ok(pair_of(&a, &b, Some(c)))
        } else {
            with_registry(v["reg"].as_str().unwrap_or(""), CmpV(&v["a"], &v["b"], lty == "RegisteredLabelWithPrivate"))
                .ok_or("unknown registry")?
        }
    }));
    let pr = match r {
        Ok(Ok(p)) => p,
        Ok(Err(e)) => {
            ctx.harness_error(format!("cmp: {}", e));
            return;
        }
        Err(_) => {
            ctx.mismatch(&p, v, "panic", json!({}));
            return;
        }
    };
    ctx.judged += 1;
    let ex = &v["expect"];
    let want = ex["cmp"].as_i64().unwrap_or(9);
    if pr.cmp != want {
        ctx.mismatch(&p, v, "cmp-differs-from-encoded-order", json!({"got": pr.cmp, "want": want}));
        return;
    }
    if pr.rev != -want {
        ctx.mismatch(&p, v, "cmp-not-antisymmetric", json!({"ab": pr.cmp, "ba": pr.rev}));
        return;
    }
    if pr.partial != Some(want) {
        ctx.mismatch(&p, v, "partial_cmp-differs", json!({"got": pr.partial, "want": want}));
        return;
    }
    let weq = ex["eq"].as_bool().unwrap_or(false);
    if pr.eq != weq || (pr.cmp == 0) != pr.eq {
        ctx.mismatch(&p, v, "order-inconsistent-with-equality", json!({"eq": pr.eq, "cmp": pr.cmp, "want_eq": weq}));
        return;
    }
    if let Some(c) = pr.canon {
        let wc = ex["canon"].as_i64().unwrap_or(9);
        if c != wc {
            ctx.mismatch(&p, v, "cmp_canonical-differs-from-length-first-order", json!({"got": c, "want": wc}));
        }
    }
}

/// order laws and sorted-container behaviour on a whole list
fn laws<T: Ord + Clone + PartialEq>(xs: &[T]) -> Option<String> {
    let n = xs.len();
    for i in 0..n {
        if xs[i].cmp(&xs[i]) != Ordering::Equal {
            return Some(format!("not reflexive at {}", i));
        }
        for j in 0..n {
            let (ab, ba) = (xs[i].cmp(&xs[j]), xs[j].cmp(&xs[i]));
            if ab != ba.reverse() {
                return Some(format!("not antisymmetric at {},{}", i, j));
            }
            if (ab == Ordering::Equal) != (xs[i] == xs[j]) {
                return Some(format!("Equal <=> == fails at {},{}", i, j));
            }
            for k in 0..n {
                if ab != Ordering::Greater && xs[j].cmp(&xs[k]) != Ordering::Greater && xs[i].cmp(&xs[k]) == Ordering::Greater {
                    return Some(format!("not transitive at {},{},{}", i, j, k));
                }
            }
        }
    }
    let set: BTreeSet<T> = xs.iter().cloned().collect();
    if set.len() != n {
        return Some(format!("sorted set holds {} of {} distinct labels", set.len(), n));
    }
    for (i, x) in xs.iter().enumerate() {
        if !set.contains(x) {
            return Some(format!("sorted set lost element {}", i));
        }
    }
    None
}

struct SortV<'a>(&'a [J], bool);
impl<'a> RegVisitor for SortV<'a> {
    type Out = Result<(Vec<J>, Option<String>), String>;
    fn visit<T: Reg>(self) -> Self::Out {
        let mut xs = self.0.iter().map(unproj::reglabel::<T>).collect::<Result<Vec<_>, _>>()?;
        let l = laws(&xs);
        xs.sort();
        Ok((xs.iter().map(crate::proj::reglabel).collect(), l))
    }
    fn visit_priv<T: Reg + WithPrivateRange>(self) -> Self::Out {
        if self.1 {
            let mut xs = self.0.iter().map(unproj::regpriv::<T>).collect::<Result<Vec<_>, _>>()?;
            let l = laws(&xs);
            xs.sort();
            Ok((xs.iter().map(crate::proj::regpriv).collect(), l))
        } else {
            self.visit::<T>()
        }
    }
}

fn run_sort(ctx: &mut Ctx, v: &J) {
    let p = prop_of(v);
    ctx.evaluations += 1;
    let h = crate::runner::hash_pub(&json!([v["lty"], v["reg"], v["items"]]));
    ctx.distinct.insert(h);
    ctx.nontrivial.insert(h);
    let items = v["items"].as_array().cloned().unwrap_or_default();
    let lty = v["lty"].as_str().unwrap_or("");
    let r = catch_unwind(AssertUnwindSafe(|| -> Result<(Vec<J>, Option<Vec<J>>, Option<String>), String> {
        if lty == "Label" {
            let mut xs = items.iter().map(unproj::label).collect::<Result<Vec<_>, _>>()?;
            let l = laws(&xs);
            xs.sort();
            let lex: Vec<J> = xs.iter().map(crate::proj::label).collect();
            xs.reverse();
            xs.sort_by(|a, b| a.cmp_canonical(b));
            Ok((lex, Some(xs.iter().map(crate::proj::label).collect()), l))
        } else {
            let (lex, l) = with_registry(v["reg"].as_str().unwrap_or(""), SortV(&items, lty == "RegisteredLabelWithPrivate"))
                .ok_or("unknown registry")??;
            Ok((lex, None, l))
        }
    }));
    match r {
        Ok(Ok((lex, canon, l))) => {
            ctx.judged += 1;
            if let Some(msg) = l {
                ctx.mismatch(&p, v, "order-law-violated", json!({"law": msg}));
                return;
            }
            if !same(&J::Array(lex.clone()), &v["lex"]) {
                ctx.mismatch(&p, v, "sort-order-differs-from-encoded-order", json!({"got": lex}));
                return;
            }
            if let Some(c) = canon {
                if !same(&J::Array(c.clone()), &v["canon"]) {
                    ctx.mismatch(&p, v, "canonical-sort-order-differs", json!({"got": c}));
                }
            }
        }
        Ok(Err(e)) => ctx.harness_error(format!("sort: {}", e)),
        Err(_) => ctx.mismatch(&p, v, "panic", json!({})),
    }
}

pub fn run_other(ctx: &mut Ctx, kind: &str, v: &J) {
    match kind {
        "cmp" => run_cmp(ctx, v),
        "sort" => run_sort(ctx, v),
        _ => crate::runner3::run_other(ctx, kind, v),
    }
}

#[allow(dead_code)]
fn unused(_: &J) {
    let _ = (reader::read_all(&[]), bytes_of(&json!([])), Machine::new().wire);
}

//! Registry tables (C17) and further vector kinds.
use crate::iana_tab::{with_registry, Reg, RegVisitor};
use crate::runner::Ctx;
use coset::iana::WithPrivateRange;
use serde_json::{json, Value as J};
use std::collections::HashMap;

struct TableV<'a> {
    rows: &'a [(String, i64)],
    lo: i64,
    hi: i64,
    privmax: i64,
    haspriv: bool,
}

/// findings: (what, detail)
type Findings = Vec<(String, J)>;

fn walk<T: Reg>(t: &TableV, is_private: Option<fn(i64) -> bool>) -> (u64, u64, Findings) {
    let mut f: Findings = vec![];
    let mut evals = 0u64;
    let by_val: HashMap<i64, &str> = t.rows.iter().map(|(n, z)| (*z, n.as_str())).collect();
    let by_name: HashMap<&str, i64> = t.rows.iter().map(|(n, z)| (n.as_str(), *z)).collect();
    // every variant the harness knows: name -> integer, and back
    let mut judged_names = 0u64;
    for (name, variant) in T::table() {
        match by_name.get(name) {
            None => f.push(("variant-missing-from-registry-table".into(), json!({"name": name}))),
            Some(z) => {
                judged_names += 1;
                let got = variant.to_i64();
                if got != *z {
                    f.push(("name-carries-wrong-integer".into(), json!({"name": name, "registered": z, "crate": got})));
                }
                match T::from_i64(got) {
                    Some(v2) if v2 == *variant => {}
                    Some(v2) => f.push(("from_i64(to_i64(x)) is another name".into(), json!({"name": name, "back": T::name_of(v2)}))),
                    None => f.push(("from_i64(to_i64(x)) undefined".into(), json!({"name": name}))),
                }
            }
        }
    }
    // every row of the registry must exist in the crate under that name
    for (name, z) in t.rows {
        if T::variant_of(name).is_none() {
            f.push(("registry-row-missing-from-harness-table".into(), json!({"name": name, "z": z})));
        }
    }
    // the whole window plus the 64-bit extremes
    let extremes = [i64::MIN, i64::MIN + 1, i64::MAX, i64::MAX - 1, -(1i64 << 32), 1i64 << 32, -(1i64 << 16) - 1];
    let mut probe = |i: i64, f: &mut Findings| {
        evals += 1;
        match (T::from_i64(i), by_val.get(&i)) {
            (None, None) => {}
            (Some(v), Some(n)) => match T::name_of(v) {
                Some(m) if m == *n => {
                    if v.to_i64() != i {
                        f.push(("to_i64(from_i64(i)) != i".into(), json!({"i": i, "got": v.to_i64()})));
                    }
                }
                Some(m) => f.push(("integer-maps-to-wrong-name".into(), json!({"i": i, "registered": n, "crate": m}))),
                None => {} // unknown variant: upstream addition, not judged
            },
            (Some(v), None) => {
                if T::name_of(v).is_some() {
                    f.push(("unregistered-integer-accepted".into(), json!({"i": i, "crate": T::name_of(v)})));
                }
            }
            (None, Some(n)) => f.push(("registered-integer-rejected".into(), json!({"i": i, "registered": n}))),
        }
        if let Some(p) = is_private {
            if p(i) != (i < t.privmax) {
                f.push(("private-use-predicate-wrong".into(), json!({"i": i, "got": p(i)})));
            }
        }
    };
    for i in t.lo..=t.hi {
        probe(i, &mut f);
        if f.len() > 20 {
            break;
        }
    }
    for i in extremes {
        probe(i, &mut f);
    }
    // what a truncating conversion would confuse with a registered value
    for (_, z) in t.rows {
        for k in [1i64 << 8, 1i64 << 16, 1i64 << 32, 1i64 << 48] {
            probe(z.wrapping_add(k), &mut f);
            probe(z.wrapping_sub(k), &mut f);
        }
    }
    if t.haspriv != is_private.is_some() {
        f.push(("private-range-support-differs".into(), json!({"registry_has_private": t.haspriv})));
    }
    (evals, judged_names, f)
}

impl<'a> RegVisitor for &TableV<'a> {
    type Out = (u64, u64, Findings);
    fn visit<T: Reg>(self) -> Self::Out {
        walk::<T>(self, None)
    }
    fn visit_priv<T: Reg + WithPrivateRange>(self) -> Self::Out {
        walk::<T>(self, Some(T::is_private))
    }
}

fn run_iana_table(ctx: &mut Ctx, v: &J) {
    let p = v["props"][0].as_str().unwrap_or("").to_string();
    let rows: Vec<(String, i64)> = v["rows"]
        .as_array()
        .map(|a| a.iter().filter_map(|r| Some((r[0].as_str()?.to_string(), r[1].as_i64()?))).collect())
        .unwrap_or_default();
    let t = TableV {
        rows: &rows,
        lo: v["lo"].as_i64().unwrap_or(0),
        hi: v["hi"].as_i64().unwrap_or(0),
        privmax: v["privmax"].as_i64().unwrap_or(-65536),
        haspriv: v["haspriv"].as_bool().unwrap_or(false),
    };
    let reg = v["reg"].as_str().unwrap_or("");
    let r = std::panic::catch_unwind(std::panic::AssertUnwindSafe(|| with_registry(reg, &t)));
    match r {
        Ok(Some((evals, names, findings))) => {
            ctx.evaluations += evals;
            ctx.judged += evals;
            for i in 0..names {
                let h = crate::runner::hash_pub(&json!([reg, i]));
                ctx.distinct.insert(h);
                ctx.nontrivial.insert(h);
            }
            for (what, detail) in findings {
                ctx.mismatch(&p, v, &what, detail);
            }
        }
        Ok(None) => ctx.harness_error(format!("unknown registry {}", reg)),
        Err(_) => ctx.mismatch(&p, v, "panic", json!({})),
    }
}

pub fn run_other(ctx: &mut Ctx, kind: &str, v: &J) {
    match kind {
        "iana_table" => run_iana_table(ctx, v),
        _ => crate::runner4::run_other(ctx, kind, v),
    }
}

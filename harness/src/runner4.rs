//! Key canonicalisation (C20), fixed points (C07), one-item discipline and API agreement (C13).
use crate::abs::*;
use crate::judge::*;
use crate::machine::*;
use crate::reader;
use crate::runner::{enc_abs, hash_pub, Ctx};
use coset::cbor::value::Value;
use coset::{CborSerializable, CoseKey};
use serde_json::{json, Value as J};
use std::panic::{catch_unwind, AssertUnwindSafe};

fn prop_of(v: &J) -> String {
    v["props"][0].as_str().unwrap_or("").to_string()
}

fn len_first(a: &[u8], b: &[u8]) -> std::cmp::Ordering {
    a.len().cmp(&b.len()).then(a.cmp(b))
}

fn run_canon(ctx: &mut Ctx, v: &J) {
    let p = prop_of(v);
    ctx.evaluations += 1;
    let h = hash_pub(&json!([v["key"], v["ord"]]));
    ctx.distinct.insert(h);
    if v["nt"].as_bool().unwrap_or(true) {
        ctx.nontrivial.insert(h);
    }
    let ord_name = v["ord"].as_str().unwrap_or("");
    let mut m = Machine::new();
    let o = m.step(&json!({"ev": "lit", "ty": "CoseKey", "x": v["key"]}));
    if o["kind"] == "harness" {
        ctx.harness_error(format!("canon/lit: {}", o["err"]));
        return;
    }
    let before = m.step(&json!({"ev": "encode", "api": "vec"}));
    let c = m.step(&json!({"ev": "canonicalize", "ord": ord_name}));
    if c["kind"] == "panic" {
        ctx.mismatch(&p, v, "panic", json!({}));
        return;
    }
    if c["kind"] == "harness" {
        ctx.harness_error(format!("canonicalize: {}", c["err"]));
        return;
    }
    ctx.judged += 1;
    let after = m.step(&json!({"ev": "encode", "api": "vec"}));
    if before["kind"] != "ok" || after["kind"] != "ok" {
        ctx.mismatch(&p, v, "key-does-not-encode", json!({"before": before, "after": after}));
        return;
    }
    let (bb, ab) = (bytes_of(&before["bytes"][0]).unwrap_or_default(), bytes_of(&after["bytes"][0]).unwrap_or_default());
    let (bi, ai) = match (reader::read_all(&bb), reader::read_all(&ab)) {
        (Ok(x), Ok(y)) => (x, y),
        _ => {
            ctx.mismatch(&p, v, "output-not-deterministic-cbor", json!({"bytes": hex(&ab)}));
            return;
        }
    };
    // Prop: keys strictly ascending under the chosen order, computed on the encoded keys
    let keys: Vec<Vec<u8>> = ai["m"].as_array().map(|a| a.iter().filter_map(|e| enc_abs(&e[0]).ok()).collect()).unwrap_or_default();
    let sorted = keys.windows(2).all(|w| {
        if ord_name == "Lexicographic" {
            w[0] < w[1]
        } else {
            len_first(&w[0], &w[1]) == std::cmp::Ordering::Less
        }
    });
    if !sorted {
        ctx.mismatch(&p, v, "encoded-keys-not-ascending", json!({"bytes": hex(&ab), "keys": keys.iter().map(|k| hex(k)).collect::<Vec<_>>()}));
    }
    // the set of label-value pairs is unchanged
    let (be, ae) = (bi["m"].as_array().cloned().unwrap_or_default(), ai["m"].as_array().cloned().unwrap_or_default());
    if !same_entries(&be, &ae) {
        ctx.mismatch(&p, v, "pairs-changed", json!({"before": hex(&bb), "after": hex(&ab)}));
        return;
    }
    // Design: exactly the value the specification computes
    if !same(&v["expect"]["canon"], &after["val"][0]) {
        ctx.deviation("canonicalized-value-differs-from-design", json!({"got": after["val"][0]}));
    }
    // idempotent
    let _ = m.step(&json!({"ev": "canonicalize", "ord": ord_name}));
    let again = m.step(&json!({"ev": "encode", "api": "vec"}));
    if again["bytes"] != after["bytes"] {
        ctx.mismatch(&p, v, "not-idempotent", json!({"first": hex(&ab), "second": again["bytes"]}));
        return;
    }
    // a canonicalised key decodes and re-encodes to the same bytes, and to the same key as before
    let r = catch_unwind(AssertUnwindSafe(|| CoseKey::from_slice(&ab).map(|k| (crate::proj::key(&k), k.to_vec()))));
    match r {
        Ok(Ok((kj, Ok(b2)))) => {
            if b2 != ab {
                ctx.mismatch(&p, v, "decode-encode-not-stable", json!({"first": hex(&ab), "second": hex(&b2)}));
            }
            let orig = CoseKey::from_slice(&bb).ok().map(|k| crate::proj::key(&k));
            if let Some(oj) = orig {
                let strip = |j: &J| {
                    let mut j = j.clone();
                    let mut ps: Vec<String> = j["params"].as_array().map(|a| a.iter().map(|x| x.to_string()).collect()).unwrap_or_default();
                    ps.sort();
                    j["params"] = json!(ps);
                    j
                };
                if !same(&strip(&oj), &strip(&kj)) {
                    ctx.mismatch(&p, v, "decoded-key-changed", json!({"before": oj, "after": kj}));
                }
            }
        }
        Ok(_) => ctx.mismatch(&p, v, "canonicalised-key-rejected", json!({"bytes": hex(&ab)})),
        Err(_) => ctx.mismatch(&p, v, "panic", json!({})),
    }
}

pub fn run_other(ctx: &mut Ctx, kind: &str, v: &J) {
    match kind {
        "canon" => run_canon(ctx, v),
        _ => crate::runner5::run_other(ctx, kind, v),
    }
}

#[allow(dead_code)]
fn unused() {
    let _ = Value::Null;
}

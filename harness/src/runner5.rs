//! Fixed points (C07), one-item discipline and API agreement (C13); also derived from decode vectors.
use crate::abs::*;
use crate::judge::*;
use crate::machine::*;
use crate::runner::{hash_pub, Ctx};
use coset::cbor::value::Value;
use serde_json::{json, Value as J};

fn prop_of(v: &J) -> String {
    v["props"][0].as_str().unwrap_or("").to_string()
}

/// floating-point extras are compared up to NaN payload
fn norm_nan(j: &J) -> J {
    match j {
        J::Array(a) => J::Array(a.iter().map(norm_nan).collect()),
        J::Object(m) => {
            if m.get("t").map(|t| t == "float").unwrap_or(false) || m.get("k").map(|k| k == "frac").unwrap_or(false) {
                if let Ok(b) = bytes_of(&m["bits"]) {
                    if b.len() == 8 {
                        let mut a = [0u8; 8];
                        a.copy_from_slice(&b);
                        if f64::from_bits(u64::from_be_bytes(a)).is_nan() {
                            let mut o = m.clone();
                            o.insert("bits".into(), jbytes(&f64::NAN.to_bits().to_be_bytes()));
                            return J::Object(o);
                        }
                    }
                }
            }
            J::Object(m.iter().map(|(k, v)| (k.clone(), norm_nan(v))).collect())
        }
        _ => j.clone(),
    }
}

/// The syntactic signature of known finding F7: the decoded item holds tag 2/3 directly on a byte string
/// that ciborium would have turned into an integer (or rejected) had the byte string been definite-length.
/// Such an item can only come from tag 2/3 applied to an indefinite-length bstr of joined length <= 16.
pub fn f7_shape(j: &J) -> bool {
    match j {
        J::Array(a) => a.iter().any(f7_shape),
        J::Object(m) => {
            if m.get("t").map(|t| t == "tag").unwrap_or(false) {
                let tag = bytes_of(&m["tag"]).unwrap_or_default();
                if (tag == [2] || tag == [3]) && m["x"]["t"] == "bytes" {
                    let b = bytes_of(&m["x"]["b"]).unwrap_or_default();
                    if b.len() <= 8 || (b.len() <= 16 && (b[0] == 0 || (tag == [3] && b.len() == 16 && b[0] >= 128))) {
                        return true;
                    }
                }
            }
            m.values().any(f7_shape)
        }
        _ => false,
    }
}

fn with_tag(v: &J, tag: &str) -> J {
    let mut v = v.clone();
    let mut tags = v["tags"].as_array().cloned().unwrap_or_default();
    if !tags.iter().any(|t| t == tag) {
        tags.push(json!(tag));
    }
    v["tags"] = J::Array(tags);
    v
}

pub fn fixpoint_one(ctx: &mut Ctx, v: &J, ty: &J, reg: &J, tagged: bool, wire: &[u8], p: &str) {
    ctx.evaluations += 1;
    let (dapi, eapi) = if tagged { ("tagged", "tagged") } else { ("slice", "vec") };
    let dec = json!({"ev": "decode", "api": dapi, "ty": ty, "reg": reg});
    let enc = json!({"ev": "encode", "api": eapi});
    let mut m = Machine::new();
    m.wire = Some(wire.to_vec());
    let d0 = m.step(&dec);
    match d0["kind"].as_str() {
        Some("ok") => {}
        Some("err") => {
            ctx.rejected += 1;
            return; // C07 quantifies over accepted inputs
        }
        Some("panic") => {
            ctx.mismatch(p, v, "panic", json!({"at": "decode", "wire": hex(wire)}));
            return;
        }
        _ => {
            ctx.harness_error(format!("fixpoint decode: {}", d0["err"]));
            return;
        }
    }
    ctx.accepted += 1;
    if has_unobservable(&d0) {
        ctx.unjudged += 1;
        return;
    }
    ctx.judged += 1;
    let tagged_v;
    let v = if f7_shape(&d0["val"]) {
        tagged_v = with_tag(v, "tag23-on-indefinite-small-bstr");
        &tagged_v
    } else {
        v
    };
    let h = hash_pub(&json!([ty, reg, tagged, hex(wire)]));
    ctx.distinct.insert(h);
    ctx.nontrivial.insert(h);
    let e1 = m.step(&enc);
    if e1["kind"] != "ok" {
        ctx.mismatch(p, v, "accepted-value-does-not-encode", json!({"wire": hex(wire), "obs": e1}));
        return;
    }
    let d1 = m.step(&dec);
    if d1["kind"] != "ok" {
        ctx.mismatch(p, v, "own-encoding-rejected", json!({"wire": hex(wire), "b1": e1["bytes"][0], "obs": d1}));
        return;
    }
    if !same(&norm_nan(&d0["val"]), &norm_nan(&d1["val"])) {
        ctx.mismatch(p, v, "value-changes-across-encode-decode", json!({"wire": hex(wire), "first": d0["val"], "second": d1["val"]}));
        return;
    }
    let e2 = m.step(&enc);
    if e2["kind"] != "ok" || e2["bytes"] != e1["bytes"] {
        ctx.mismatch(p, v, "second-encoding-differs", json!({"wire": hex(wire), "b1": e1["bytes"], "b2": e2["bytes"]}));
    }
}

fn run_fixpoint(ctx: &mut Ctx, v: &J) {
    let p = prop_of(v);
    let tagged = v["tagged"].as_bool().unwrap_or(false);
    for w in v["wires"].as_array().cloned().unwrap_or_default() {
        match bytes_of(&w) {
            Ok(b) => fixpoint_one(ctx, v, &v["ty"], &v["reg"], tagged, &b, &p),
            Err(e) => ctx.harness_error(e),
        }
    }
}

fn bstr_head(n: usize, out: &mut Vec<u8>) {
    if n < 24 {
        out.push(0x40 | n as u8);
    } else if n < 256 {
        out.push(0x58);
        out.push(n as u8);
    } else {
        out.push(0x59);
        out.extend_from_slice(&(n as u16).to_be_bytes());
    }
}

/// [bstr(inner), {}, nil]: a COSE_Encrypt0 whose protected slot holds `inner`
fn prot_with(inner: &[u8]) -> Vec<u8> {
    let mut o = vec![0x83];
    bstr_head(inner.len(), &mut o);
    o.extend_from_slice(inner);
    o.extend_from_slice(&[0xa0, 0xf6]);
    o
}

fn dec_kind(ty: &str, reg: &str, b: &[u8]) -> J {
    match std::panic::catch_unwind(std::panic::AssertUnwindSafe(|| decode_slice(ty, reg, b))) {
        Ok(Dec::Ok(_, j)) => json!({"kind": "ok", "val": j}),
        Ok(Dec::Err(k)) => json!({"kind": "err", "err": k}),
        Ok(Dec::Harness(m)) => json!({"kind": "harness", "err": m}),
        Err(_) => json!({"kind": "panic"}),
    }
}

pub fn oneitem_one(ctx: &mut Ctx, v: &J, ty: &str, reg: &str, wire: &[u8], inner: bool, suffixes: &[Vec<u8>], p: &str) {
    let wrap = |b: &[u8]| if inner { prot_with(b) } else { b.to_vec() };
    let full = wrap(wire);
    let base = dec_kind(ty, reg, &full);
    ctx.evaluations += 1;
    if base["kind"] == "harness" {
        ctx.harness_error(format!("oneitem: {}", base["err"]));
        return;
    }
    if base["kind"] == "panic" {
        ctx.mismatch(p, v, "panic", json!({"wire": hex(&full)}));
        return;
    }
    if base["kind"] != "ok" {
        ctx.rejected += 1;
        return; // C13 quantifies over accepted inputs
    }
    ctx.accepted += 1;
    ctx.judged += 1;
    let h = hash_pub(&json!([ty, reg, hex(&full)]));
    ctx.distinct.insert(h);
    ctx.nontrivial.insert(h);
    // every proper prefix is rejected (of the item itself; for `inner`, of the header map inside the bstr)
    let lo = if inner { 1 } else { 0 };
    for k in lo..wire.len() {
        let o = dec_kind(ty, reg, &wrap(&wire[..k]));
        ctx.evaluations += 1;
        if o["kind"] == "ok" || o["kind"] == "panic" {
            ctx.mismatch(p, v, "proper-prefix-not-rejected", json!({"wire": hex(&full), "cut": k, "obs": o["kind"]}));
            return;
        }
    }
    // every non-empty suffix makes it ExtraneousData
    for sfx in suffixes {
        let mut b = wire.to_vec();
        b.extend_from_slice(sfx);
        let o = dec_kind(ty, reg, &wrap(&b));
        ctx.evaluations += 1;
        if o["kind"] != "err" || o["err"] != "ExtraneousData" {
            ctx.mismatch(p, v, "suffix-not-rejected-as-extraneous", json!({"wire": hex(&full), "suffix": hex(sfx), "obs": o}));
            return;
        }
    }
    if inner {
        return;
    }
    // byte-level decoding = parse, then convert
    // CBOR-parse with ciborium itself (not through the crate under test), exactly one item
    let parse = |b: &[u8]| -> Option<Value> {
        let mut sl: &[u8] = b;
        match coset::cbor::de::from_reader::<Value, _>(&mut sl) {
            Ok(v) if sl.is_empty() => Some(v),
            _ => None,
        }
    };
    let via = match std::panic::catch_unwind(std::panic::AssertUnwindSafe(|| parse(wire).map(|pv| decode_value(ty, reg, pv)))) {
        Ok(Some(Dec::Ok(_, j))) => json!({"kind": "ok", "val": j}),
        Ok(Some(Dec::Err(k))) => json!({"kind": "err", "err": k}),
        Ok(Some(Dec::Harness(m))) => json!({"kind": "harness", "err": m}),
        Ok(None) => json!({"kind": "err", "err": "DecodeFailed"}),
        Err(_) => json!({"kind": "panic"}),
    };
    if via["kind"] != "harness" && !same(&via, &base) {
        ctx.mismatch(p, v, "byte-api-and-value-api-disagree-on-decode", json!({"wire": hex(wire), "bytes": base, "value": via}));
        return;
    }
    // byte-level encoding = convert, then serialise
    let mut m = Machine::new();
    m.wire = Some(wire.to_vec());
    let _ = m.step(&json!({"ev": "decode", "api": "slice", "ty": ty, "reg": reg}));
    let a = m.step(&json!({"ev": "encode", "api": "vec"}));
    if let Ok(b) = m.mem.encode_via_value() {
        let bj = match b {
            Ok(bytes) => json!({"kind": "ok", "bytes": [jbytes(&bytes)]}),
            Err(k) => json!({"kind": "err", "err": k}),
        };
        if a["kind"] != bj["kind"] || (a["kind"] == "ok" && a["bytes"] != bj["bytes"]) {
            ctx.mismatch(p, v, "byte-api-and-value-api-disagree-on-encode", json!({"to_vec": a, "via_value": bj}));
            return;
        }
    }
    // the tagged byte-level entry point of the six taggable types: tag head of EVERY width + the accepted item.
    // "Byte-level decoding equals CBOR-parsing the bytes and then converting the parsed item": ciborium parses all five head
    // widths to Tag(n, item), so each must decode to the same value as the item alone; one more byte is extraneous data and
    // every proper prefix is rejected (round 6: a fast path that strips the shortest-form tag head textually).
    let tag: u64 = match ty {
        "CoseSign" => 98,
        "CoseSign1" => 18,
        "CoseMac" => 97,
        "CoseMac0" => 17,
        "CoseEncrypt" => 96,
        "CoseEncrypt0" => 16,
        _ => return,
    };
    let heads: Vec<Vec<u8>> = {
        let t = tag as u8;
        let mut h = vec![vec![0xd8, t], vec![0xd9, 0, t], vec![0xda, 0, 0, 0, t], vec![0xdb, 0, 0, 0, 0, 0, 0, 0, t]];
        if tag < 24 {
            h.insert(0, vec![0xc0 | t]);
        }
        h
    };
    let dec_tagged = |b: &[u8]| -> J {
        match std::panic::catch_unwind(std::panic::AssertUnwindSafe(|| decode_tagged(ty, b))) {
            Ok(Dec::Ok(_, j)) => json!({"kind": "ok", "val": j}),
            Ok(Dec::Err(k)) => json!({"kind": "err", "err": k}),
            Ok(Dec::Harness(m)) => json!({"kind": "harness", "err": m}),
            Err(_) => json!({"kind": "panic"}),
        }
    };
    for head in heads {
        let mut t = head.clone();
        t.extend_from_slice(wire);
        // the Value route, independent of the crate's byte layer: parse with ciborium, unwrap the tag, convert
        let via_t = match parse(&t) {
            Some(Value::Tag(n, inner)) if n == tag => match std::panic::catch_unwind(std::panic::AssertUnwindSafe(|| decode_value(ty, reg, *inner))) {
                Ok(Dec::Ok(_, j)) => json!({"kind": "ok", "val": j}),
                Ok(Dec::Err(k)) => json!({"kind": "err", "err": k}),
                Ok(Dec::Harness(m)) => json!({"kind": "harness", "err": m}),
                Err(_) => json!({"kind": "panic"}),
            },
            _ => json!({"kind": "harness", "err": "tagged wire does not parse to the tag"}),
        };
        let o = dec_tagged(&t);
        ctx.evaluations += 1;
        if via_t["kind"] == "harness" || o["kind"] == "harness" {
            continue;
        }
        if !same(&via_t, &o) {
            ctx.mismatch(p, v, "byte-api-and-value-api-disagree-on-tagged-decode", json!({"wire": hex(&t), "bytes": o, "value": via_t}));
            return;
        }
        let mut ts = t.clone();
        ts.push(0);
        let os = dec_tagged(&ts);
        ctx.evaluations += 1;
        if os["kind"] != "err" || os["err"] != "ExtraneousData" {
            ctx.mismatch(p, v, "suffix-not-rejected-as-extraneous", json!({"wire": hex(&t), "suffix": "00", "api": "tagged", "obs": os}));
            return;
        }
        for k in 0..t.len() {
            let ok = dec_tagged(&t[..k]);
            ctx.evaluations += 1;
            if ok["kind"] == "ok" || ok["kind"] == "panic" {
                ctx.mismatch(p, v, "proper-prefix-not-rejected", json!({"wire": hex(&t), "cut": k, "api": "tagged", "obs": ok["kind"]}));
                return;
            }
        }
    }
}

fn run_oneitem(ctx: &mut Ctx, v: &J) {
    let p = prop_of(v);
    let sfx: Vec<Vec<u8>> = v["suffixes"].as_array().map(|a| a.iter().filter_map(|x| bytes_of(x).ok()).collect()).unwrap_or_default();
    let ty = v["ty"].as_str().unwrap_or("");
    let reg = v["reg"].as_str().unwrap_or("");
    if !v["inner"].is_null() {
        match bytes_of(&v["inner"]) {
            Ok(b) => oneitem_one(ctx, v, ty, reg, &b, true, &sfx, &p),
            Err(e) => ctx.harness_error(e),
        }
    } else {
        match bytes_of(&v["wire"]) {
            Ok(b) => oneitem_one(ctx, v, ty, reg, &b, false, &sfx, &p),
            Err(e) => ctx.harness_error(e),
        }
    }
}

/// `--derive`: every wire of a decode vector becomes a fixed-point (C07) or one-item (C13) case
pub fn derive_from_decode(ctx: &mut Ctx, v: &J) {
    let prop = ctx.prop.clone();
    let api = v["api"].as_str().unwrap_or("slice");
    let tys: Vec<(J, J)> = match v["multi"].as_array() {
        Some(m) => m.iter().map(|x| (x["ty"].clone(), x["expect"]["accept"].clone())).collect(),
        None => vec![(v["ty"].clone(), v["expect"]["accept"].clone())],
    };
    let default_sfx: Vec<Vec<u8>> = vec![vec![0], vec![0xf6], vec![0xff], vec![0x1c], vec![0xa0], vec![0x40, 0x40]];
    if prop == "C01" {
        // every wire of the decode instances (accepted or not, whatever type it was written for) through all byte-level
        // entry points with follow-ups: a panic anywhere is a C01 matter
        for w in v["wires"].as_array().cloned().unwrap_or_default() {
            if let Ok(b) = bytes_of(&w) {
                if !ctx.distinct.contains(&crate::runner::hash_pub(&json!(hex(&b)))) {
                    crate::runner6::fuzz_one(ctx, &b, "decode-instance-wire");
                }
            }
        }
        return;
    }
    for (ty, _acc) in tys {
        for w in v["wires"].as_array().cloned().unwrap_or_default() {
            let b = match bytes_of(&w) {
                Ok(b) => b,
                Err(_) => continue,
            };
            if prop == "C07" {
                fixpoint_one(ctx, v, &ty, &v["reg"], api == "tagged", &b, "C07");
            } else if prop == "C13" && api == "slice" {
                oneitem_one(ctx, v, ty.as_str().unwrap_or(""), v["reg"].as_str().unwrap_or(""), &b, false, &default_sfx, "C13");
            }
        }
    }
}

pub fn run_other(ctx: &mut Ctx, kind: &str, v: &J) {
    match kind {
        "fixpoint" => run_fixpoint(ctx, v),
        "oneitem" => run_oneitem(ctx, v),
        "parse" => crate::runner7::run_parse(ctx, v),
        "recipe" => {
            let scratch = ctx.scratch.clone();
            crate::runner6::run_recipe(ctx, v, &scratch)
        }
        _ => ctx.harness_error(format!("unknown vector kind {}", kind)),
    }
}

//! More vector kinds (filled in as the instances are added).
use crate::runner::Ctx;
use serde_json::Value as J;

pub fn run_other(ctx: &mut Ctx, kind: &str, _v: &J) {
    ctx.harness_error(format!("unknown vector kind {}", kind));
}

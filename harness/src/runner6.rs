//! Nesting recipes (C01): materialise the bytes a recipe denotes and decode them in a child process on the
//! default main-thread stack; plus mutation fuzzing of the wires that pass through the replay binary.
use crate::abs::*;
use crate::gen::*;
use crate::runner::{hash_pub, Ctx};
use serde_json::{json, Value as J};
use std::io::Read;
use std::process::{Command, Stdio};
use std::time::{Duration, Instant};

fn bstr_of(m: &[u8]) -> Vec<u8> {
    let n = m.len() as u64;
    let mut o = vec![];
    if n < 24 {
        o.push(0x40 | n as u8);
    } else if n < 256 {
        o.extend_from_slice(&[0x58, n as u8]);
    } else if n < 65536 {
        o.push(0x59);
        o.extend_from_slice(&(n as u16).to_be_bytes());
    } else if n < (1u64 << 32) {
        o.push(0x5a);
        o.extend_from_slice(&(n as u32).to_be_bytes());
    } else {
        o.push(0x5b);
        o.extend_from_slice(&n.to_be_bytes());
    }
    o.extend_from_slice(m);
    o
}

/// mirror of WrapB in spec/mc/MC_Nesting.tla (bound to it: for small repetition counts the bytes must be equal)
fn wrap_b(step: &str, x: &[u8]) -> Option<Vec<u8>> {
    let cat = |parts: &[&[u8]]| parts.concat();
    Some(match step {
        "arr" => cat(&[&[0x81], x]),
        "indef-arr" => cat(&[&[0x9f], x, &[0xff]]),
        "map-val" => cat(&[&[0xa1, 0x00], x]),
        "map-key" => cat(&[&[0xa1], x, &[0x00]]),
        "indef-map-val" => cat(&[&[0xbf, 0x00], x, &[0xff]]),
        "tag" => cat(&[&[0xc1], x]),
        "cs-unprot" => cat(&[&[0x83, 0x40, 0xa1, 0x07], x, &[0x40]]),
        "cs-unprot-arr" => cat(&[&[0x83, 0x40, 0xa1, 0x07, 0x81], x, &[0x40]]),
        "cs-prot" => cat(&[&[0x83], &bstr_of(&cat(&[&[0xa1, 0x07], x])), &[0xa0, 0x40]]),
        "cs-prot-arr" => cat(&[&[0x83], &bstr_of(&cat(&[&[0xa1, 0x07, 0x81], x])), &[0xa0, 0x40]]),
        "recip" => cat(&[&[0x84, 0x40, 0xa0, 0xf6, 0x81], x]),
        "recip-cs" => cat(&[&[0x83, 0x40, 0xa1, 0x07], x, &[0xf6]]),
        "sig-in-recip-prot" => cat(&[&[0x83], &bstr_of(&[0xa1, 0x07, 0x83, 0x40, 0xa0, 0x40]), &[0xa0, 0x40]]),
        _ => return None,
    })
}

fn base_b(kind: &str) -> Vec<u8> {
    match kind {
        "sig" => vec![0x83, 0x40, 0xa0, 0x40],
        "recip" => vec![0x83, 0x40, 0xa0, 0xf6],
        _ => vec![0x00],
    }
}

const BUDGET: usize = 4 << 20;

pub fn recipe_bytes(base: &str, steps: &[String], reps: &[u64]) -> Result<Vec<u8>, String> {
    let mut x = base_b(base);
    for (s, n) in steps.iter().zip(reps) {
        for _ in 0..*n {
            x = wrap_b(s, &x).ok_or_else(|| format!("unknown wrap step {}", s))?;
            if x.len() > BUDGET {
                return Err("budget".into());
            }
        }
    }
    Ok(x)
}

pub enum ChildOutcome {
    Returned(bool),
    Bad(String),
    Panic,
    Abort(String),
    Timeout,
    Spawn(String),
}

pub fn run_child(scratch: &str, ty: &str, reg: &str, api: &str, bytes: &[u8], secs: u64) -> (ChildOutcome, f64) {
    let _ = std::fs::create_dir_all(scratch);
    let path = format!("{}/input-{}-{}.bin", scratch, std::process::id(), hash_pub(&json!([ty, api, bytes.len(), hex(&bytes[..bytes.len().min(64)])])));
    if let Err(e) = std::fs::write(&path, bytes) {
        return (ChildOutcome::Spawn(format!("write {}: {}", path, e)), 0.0);
    }
    let exe = std::env::current_exe().ok().and_then(|p| p.parent().map(|d| d.join("child")));
    let exe = match exe {
        Some(e) => e,
        None => return (ChildOutcome::Spawn("no child binary".into()), 0.0),
    };
    let t0 = Instant::now();
    let child = Command::new(exe)
        .args([ty, if reg.is_empty() { "-" } else { reg }, api, &path])
        .stdin(Stdio::null())
        .stdout(Stdio::piped())
        .stderr(Stdio::piped())
        .spawn();
    let mut child = match child {
        Ok(c) => c,
        Err(e) => return (ChildOutcome::Spawn(e.to_string()), 0.0),
    };
    let out = loop {
        match child.try_wait() {
            Ok(Some(status)) => break Some(status),
            Ok(None) => {
                if t0.elapsed() > Duration::from_secs(secs) {
                    let _ = child.kill();
                    let _ = child.wait();
                    break None;
                }
                std::thread::sleep(Duration::from_millis(2));
            }
            Err(_) => break None,
        }
    };
    let wall = t0.elapsed().as_secs_f64();
    let _ = std::fs::remove_file(&path);
    let mut so = String::new();
    let mut se = String::new();
    if let Some(mut s) = child.stdout.take() {
        let _ = s.read_to_string(&mut so);
    }
    if let Some(mut s) = child.stderr.take() {
        let _ = s.read_to_string(&mut se);
    }
    let oc = match out {
        None => ChildOutcome::Timeout,
        Some(st) => {
            #[cfg(unix)]
            let sig = {
                use std::os::unix::process::ExitStatusExt;
                st.signal()
            };
            #[cfg(not(unix))]
            let sig: Option<i32> = None;
            if let Some(s) = sig {
                let why = if se.contains("overflowed its stack") { "stack-overflow".to_string() } else { format!("signal-{}", s) };
                ChildOutcome::Abort(why)
            } else {
                match st.code() {
                    Some(0) if so.starts_with("accepted") => ChildOutcome::Returned(true),
                    Some(0) if so.starts_with("rejected") => ChildOutcome::Returned(false),
                    Some(0) => ChildOutcome::Bad(so.trim().chars().take(300).collect()),
                    Some(101) => ChildOutcome::Panic,
                    c => ChildOutcome::Abort(format!("exit-{:?}", c)),
                }
            }
        }
    };
    (oc, wall)
}

pub fn run_recipe(ctx: &mut Ctx, v: &J, scratch: &str) {
    let p = v["props"][0].as_str().unwrap_or("C01").to_string();
    let steps: Vec<String> = v["steps"].as_array().map(|a| a.iter().filter_map(|x| x.as_str().map(String::from)).collect()).unwrap_or_default();
    let reps: Vec<u64> = v["reps"].as_array().map(|a| a.iter().filter_map(|x| x.as_u64()).collect()).unwrap_or_default();
    let base = v["base"].as_str().unwrap_or("any");
    let bytes = match recipe_bytes(base, &steps, &reps) {
        Ok(b) => b,
        Err(e) if e == "budget" => {
            ctx.unjudged += 1;
            return;
        }
        Err(e) => {
            ctx.harness_error(e);
            return;
        }
    };
    // binding: for small recipes the specification printed the bytes the recipe denotes
    if let Some(want) = v["bytes"].get(0) {
        if *want != jbytes(&bytes) {
            ctx.harness_error(format!("recipe interpreter disagrees with the specification on {:?} x {:?}", steps, reps));
            return;
        }
    }
    let h = hash_pub(&json!([base, steps, reps]));
    ctx.distinct.insert(h);
    let small = reps.iter().all(|r| *r <= 3);
    if !small {
        ctx.nontrivial.insert(h);
    }
    let accept_exp: Vec<Option<bool>> = v["accept"].as_array().map(|a| a.iter().map(|x| x.as_bool()).collect()).unwrap_or_default();
    for (ti, ty) in v["entry"].as_array().cloned().unwrap_or_default().into_iter().enumerate() {
        let ty = ty.as_str().unwrap_or("");
        ctx.evaluations += 1;
        ctx.judged += 1;
        // where the specification could still evaluate the recipe: acceptance must agree (nesting depth is not a reason to reject)
        if let Some(Some(want)) = accept_exp.get(ti) {
            let o = guarded_decode_and_follow(ty, "", "slice", &bytes);
            if o.bad.is_none() && o.accepted != *want {
                if p == "C01" {
                    // accepted or rejected without crashing: not C01's business (C09 / C13 run the same recipes and judge this)
                    ctx.other_property("nested-input-acceptance", json!({"entry": ty, "len": bytes.len(), "reps": reps, "want": want}));
                } else {
                    ctx.mismatch(&p, v, if *want { "nested-input-rejected" } else { "nested-input-accepted" }, json!({"entry": ty, "len": bytes.len(), "reps": reps}));
                }
            }
            if o.accepted {
                ctx.nontrivial.insert(h);
            }
            if p != "C01" {
                continue;
            }
        }
        if small {
            let o = guarded_decode_and_follow(ty, "", "slice", &bytes);
            if o.accepted {
                ctx.accepted += 1;
            } else {
                ctx.rejected += 1;
            }
            if let Some((what, ev)) = o.bad {
                ctx.mismatch(&p, v, &what, json!({"entry": ty, "event": ev, "len": bytes.len()}));
            }
            continue;
        }
        let (oc, wall) = run_child(scratch, ty, "", "slice", &bytes, 30);
        // hang detection only: generous bound, linear term included
        let bound = 10.0 + bytes.len() as f64 * 2e-5;
        match oc {
            ChildOutcome::Returned(acc) => {
                if acc {
                    ctx.accepted += 1;
                } else {
                    ctx.rejected += 1;
                }
                if wall > bound {
                    ctx.mismatch(&p, v, "time-not-proportional", json!({"entry": ty, "wall_s": wall, "len": bytes.len()}));
                }
            }
            ChildOutcome::Bad(what) => ctx.mismatch(&p, v, "child-reported-failure", json!({"entry": ty, "what": what, "len": bytes.len()})),
            ChildOutcome::Panic => ctx.mismatch(&p, v, "panic", json!({"entry": ty, "len": bytes.len()})),
            ChildOutcome::Abort(why) => ctx.mismatch(&p, v, &format!("abort-{}", why), json!({"entry": ty, "len": bytes.len(), "depth": reps})),
            ChildOutcome::Timeout => ctx.mismatch(&p, v, "timeout", json!({"entry": ty, "len": bytes.len()})),
            ChildOutcome::Spawn(e) => ctx.harness_error(format!("child: {}", e)),
        }
    }
}

/// every entry point on one input, in process
pub fn fuzz_one(ctx: &mut Ctx, bytes: &[u8], origin: &str) {
    for (ty, reg, api) in entry_points() {
        ctx.evaluations += 1;
        let o = guarded_decode_and_follow(ty, reg, api, bytes);
        if o.accepted {
            ctx.accepted += 1;
            let h = hash_pub(&json!([ty, reg, api, hex(bytes)]));
            ctx.nontrivial.insert(h);
        } else {
            ctx.rejected += 1;
        }
        if let Some((what, ev)) = o.bad {
            let v = json!({"kind": "fuzz", "props": ["C01"], "origin": origin, "ty": ty, "reg": reg, "api": api, "bytes": jbytes(bytes), "hex": hex(bytes)});
            ctx.mismatch("C01", &v, &what, json!({"event": ev}));
        }
    }
    ctx.judged += 1;
    ctx.distinct.insert(hash_pub(&json!(hex(bytes))));
}

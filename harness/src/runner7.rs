//! `parse` vectors (spec/mc/MC_Parse.tla): the specification's model of ciborium against ciborium itself on every short
//! byte string -- value, bytes consumed, and the class of failure.  A disagreement here is a defect of the MODEL (reported
//! as parser_model_deviation, never as a property violation); the typed consequences are judged by the `decode` and
//! `fixpoint` vectors the same instance prints for the same bytes.
use crate::abs::*;
use crate::judge::same;
use crate::runner::Ctx;
use coset::cbor::value::Value;
use serde_json::{json, Value as J};

fn class_of<E>(e: &coset::cbor::de::Error<E>) -> &'static str {
    use coset::cbor::de::Error::*;
    match e {
        Io(_) => "eof",
        Syntax(_) => "syntax",
        Semantic(_, _) => "semantic",
        RecursionLimitExceeded => "depth",
    }
}

pub fn run_parse(ctx: &mut Ctx, v: &J) {
    let wire = match bytes_of(&v["wire"]) {
        Ok(b) => b,
        Err(e) => {
            ctx.harness_error(e);
            return;
        }
    };
    ctx.evaluations += 1;
    let h = crate::runner::hash_pub(&json!(["parse", hex(&wire)]));
    ctx.distinct.insert(h);
    if v["nt"].as_bool().unwrap_or(false) {
        ctx.nontrivial.insert(h);
    }
    if v["gap"].as_bool().unwrap_or(false) {
        ctx.unjudged += 1;
        // still: ciborium must return
        let r = std::panic::catch_unwind(|| {
            let mut sl: &[u8] = &wire;
            coset::cbor::de::from_reader::<Value, _>(&mut sl).is_ok()
        });
        if r.is_err() {
            ctx.model_dev(json!({"wire": hex(&wire), "ciborium": "panic"}));
        }
        return;
    }
    ctx.judged += 1;
    let got = std::panic::catch_unwind(|| {
        let mut sl: &[u8] = &wire;
        match coset::cbor::de::from_reader::<Value, _>(&mut sl) {
            Ok(pv) => json!({"ok": true, "consumed": wire.len() - sl.len(), "item": [jvalue(&pv)], "why": ""}),
            Err(e) => json!({"ok": false, "consumed": 0, "item": [], "why": class_of(&e)}),
        }
    });
    let got = match got {
        Ok(g) => g,
        Err(_) => {
            ctx.model_dev(json!({"wire": hex(&wire), "ciborium": "panic"}));
            return;
        }
    };
    let want_ok = v["ok"].as_bool().unwrap_or(false);
    if want_ok {
        ctx.accepted += 1;
    } else {
        ctx.rejected += 1;
    }
    let agree = got["ok"] == v["ok"]
        && if want_ok { got["consumed"] == v["consumed"] && same(&got["item"][0], &v["item"][0]) } else { got["why"] == v["why"] };
    if !agree {
        ctx.model_dev(json!({"wire": hex(&wire), "spec": {"ok": v["ok"], "why": v["why"], "consumed": v["consumed"], "item": v["item"]}, "ciborium": got}));
    }
}

//! Seeded, structure-aware generators of sessions for trace validation (implementation -> specification).
//! Every generated session is a list of specification events (spec/Cose.tla `Step`); the recorder executes
//! them on the real crate and logs what happened; TLC then re-executes every event with the specification.
//!
//! The generators deliberately leave the palettes of the bounded instances: 64-bit extremes, long strings,
//! up to a dozen map entries, deep-ish nesting, random non-canonical encodings (head widths, indefinite
//! lengths with random chunking, bignum-form integers), random faults in otherwise valid structures.
use crate::abs::*;
use crate::gen::Rng;
use crate::iana_tab::Reg;
use coset::{iana, AsCborValue};
use serde_json::{json, Value as J};

pub struct Gen {
    pub rng: Rng,
}

pub fn cmp_obs(e: &J) -> J {
    let r = std::panic::catch_unwind(|| {
        let a = crate::unproj::label(&e["a"]);
        let b = crate::unproj::label(&e["b"]);
        match (a, b) {
            (Ok(a), Ok(b)) => {
                let o = |x: std::cmp::Ordering| match x {
                    std::cmp::Ordering::Less => -1,
                    std::cmp::Ordering::Equal => 0,
                    std::cmp::Ordering::Greater => 1,
                };
                json!({"kind": "ok", "cmp": o(a.cmp(&b)), "canon": o(a.cmp_canonical(&b)), "eq": a == b})
            }
            _ => json!({"kind": "harness", "err": "bad labels"}),
        }
    });
    r.unwrap_or_else(|_| json!({"kind": "panic", "cmp": 9, "canon": 9, "eq": false}))
}

fn jtext(b: &[u8]) -> J {
    json!({"t": "text", "s": jbytes(b)})
}
fn jbs(b: &[u8]) -> J {
    json!({"t": "bytes", "b": jbytes(b)})
}
fn jarr(a: Vec<J>) -> J {
    json!({"t": "array", "a": a})
}
fn jmap(m: Vec<(J, J)>) -> J {
    json!({"t": "map", "m": m.into_iter().map(|(k, v)| json!([k, v])).collect::<Vec<_>>()})
}
fn jnil() -> J {
    json!({"t": "null"})
}

const TEXT_ATOMS: &[&str] = &["a", "b", "z", "é", "text", "/", " ", "\u{a0}", "\u{3000}", "x/y", "漢", "\n"];

impl Gen {
    pub fn new(seed: u64) -> Self {
        Gen { rng: Rng(seed) }
    }
    fn coin(&mut self, pct: usize) -> bool {
        self.rng.below(100) < pct
    }
    fn pick<'a, T>(&mut self, xs: &'a [T]) -> &'a T {
        &xs[self.rng.below(xs.len())]
    }

    pub fn bytes(&mut self, max: usize) -> Vec<u8> {
        let n = match self.rng.below(10) {
            0 => 0,
            1 => 23,
            2 => 24,
            3 => 255.min(max),
            4 => 256.min(max),
            // interior lengths (not at an encoding boundary) and the next boundaries up
            5 => self.rng.below(max + 1),
            6 => (*self.pick(&[100usize, 1000, 4095, 4096, 4097, 65535, 65536])).min(max),
            _ => self.rng.below(max.min(40) + 1),
        };
        (0..n).map(|_| self.rng.byte()).collect()
    }
    pub fn text(&mut self) -> Vec<u8> {
        let n = self.rng.below(5);
        let mut s = String::new();
        for _ in 0..n {
            let a: &str = *self.pick(TEXT_ATOMS);
            s.push_str(a);
        }
        if self.coin(5) {
            s = "a".repeat(*self.pick(&[23usize, 24, 255, 256, 300]));
        }
        s.into_bytes()
    }
    /// integers across every boundary, both signs, inside and outside i64
    pub fn int(&mut self) -> J {
        let mag: u128 = match self.rng.below(12) {
            0 => self.rng.below(24) as u128,
            1 => *self.pick(&[23u128, 24, 255, 256, 65535, 65536, 65537]),
            2 => *self.pick(&[(1u128 << 32) - 1, 1u128 << 32, (1u128 << 63) - 1, 1u128 << 63, (1u128 << 64) - 1, (1u128 << 63) - 2]),
            3 => (self.rng.next() as u128) & 0xffff,
            4 => (self.rng.next() as u128) & 0xffff_ffff,
            5 => self.rng.next() as u128,
            _ => self.rng.below(300) as u128,
        };
        json!({"t": "int", "neg": self.coin(40), "mag": jbytes(&mag_of(mag))})
    }
    fn small_int(&mut self, z: i64) -> J {
        jint(z as i128)
    }
    /// a float the specification models exactly: table values, or an f64 that no shorter format can hold
    pub fn float(&mut self) -> J {
        let table: [u64; 6] = [0x3ff8000000000000, 0, 0x8000000000000000, 0x7ff0000000000000, 0x7ff8000000000000, 0x3ff199999999999a];
        let bits = if self.coin(50) {
            *self.pick(&table)
        } else {
            // finite, low mantissa bits set: not representable as f32 / f16
            let m = (self.rng.next() & 0x000f_ffff_ffff_ffff) | 1;
            let e = 1 + (self.rng.next() % 2045);
            ((self.rng.next() & 1) << 63) | (e << 52) | m
        };
        json!({"t": "float", "bits": jbytes(&bits.to_be_bytes())})
    }
    pub fn label(&mut self) -> J {
        if self.coin(10) {
            // a registered (non-typed) header / key parameter label
            return jint(*self.pick(&[9i128, 10, 32, 33, 34, 35, 256, 257, -1, -2, -3, -4, 8, 38, 39, 40]));
        }
        if self.coin(25) {
            jtext(&self.text())
        } else {
            self.int()
        }
    }
    pub fn value(&mut self, depth: usize) -> J {
        match self.rng.below(if depth == 0 { 7 } else { 10 }) {
            0 | 1 => self.int(),
            2 => jbs(&self.bytes(300)),
            3 => jtext(&self.text()),
            4 => json!({"t": "bool", "bool": self.coin(50)}),
            5 => jnil(),
            6 => self.float(),
            7 => {
                let n = self.rng.below(4);
                jarr((0..n).map(|_| self.value(depth - 1)).collect())
            }
            8 => {
                let n = self.rng.below(3);
                jmap((0..n).map(|_| (self.label(), self.value(depth - 1))).collect())
            }
            _ => {
                // tags 2/3 on byte strings are what ciborium folds into integers: keep them out of "opaque" values
                let t = *self.pick(&[0u64, 1, 4, 24, 61, 55799, u64::MAX]);
                json!({"t": "tag", "tag": jbytes(&mag_of(t as u128)), "x": self.value(depth - 1)})
            }
        }
    }

    fn name_of<T: Reg>(&mut self) -> &'static str {
        let t = T::table();
        t[self.rng.below(t.len())].0
    }

    fn reg_value<T: Reg>(&mut self) -> i64 {
        let t = T::table();
        // the integer is read through the crate only to build an INPUT; the specification decides what it means
        t[self.rng.below(t.len())].1.to_i64()
    }

    /// a header map item: mostly valid, with random faults
    pub fn header_item(&mut self, depth: usize, fault_pct: usize) -> J {
        let mut m: Vec<(J, J)> = vec![];
        let fault = |g: &mut Gen| g.coin(fault_pct);
        if self.coin(60) {
            let v = if fault(self) {
                self.value(1)
            } else if self.coin(15) {
                jtext(&self.text())
            } else if self.coin(15) {
                jint(-65537 - self.rng.below(1000) as i128)
            } else {
                let z = self.reg_value::<iana::Algorithm>();
                self.small_int(z)
            };
            m.push((jint(1), v));
        }
        if self.coin(25) {
            let n = 1 + self.rng.below(3);
            let v = if fault(self) {
                self.value(1)
            } else {
                jarr((0..n)
                    .map(|_| {
                        if self.coin(30) {
                            jtext(&self.text())
                        } else {
                            let z = self.reg_value::<iana::HeaderParameter>();
                            self.small_int(z)
                        }
                    })
                    .collect())
            };
            m.push((jint(2), v));
        }
        if self.coin(35) {
            let v = if fault(self) {
                self.value(1)
            } else if self.coin(50) {
                jtext(self.pick(&["a/b", "text/plain", "application/cbor", "x/y+z", "ab", " a/b", "a/b ", "a/b/c", "", "éé/b", "日/x", "a/😀", "é/b/c", "\u{a0}a/b"]).as_bytes())
            } else {
                let z = self.reg_value::<iana::CoapContentFormat>();
                self.small_int(z)
            };
            m.push((jint(3), v));
        }
        if self.coin(40) {
            let v = if fault(self) { self.value(1) } else { jbs(&{ let mut b = self.bytes(300); if b.is_empty() && !self.coin(20) { b.push(1) }; b }) };
            m.push((jint(4), v));
        }
        if self.coin(30) {
            let l = if self.coin(50) { 5 } else { 6 };
            m.push((jint(l), jbs(&{ let mut b = self.bytes(16); if b.is_empty() { b.push(7) }; b })));
            if self.coin(8) {
                m.push((jint(11 - l as i128), jbs(&[1])));
            }
        }
        if depth > 0 && self.coin(25) {
            let v = if self.coin(60) { self.signature_item(depth - 1, fault_pct) } else { jarr((0..1 + self.rng.below(2)).map(|_| self.signature_item(depth - 1, fault_pct)).collect()) };
            m.push((jint(7), v));
        }
        // now and then more extras than any small fixed-size structure holds
        let extras = if self.coin(4) { 8 + self.rng.below(20) } else { self.rng.below(4) };
        for _ in 0..extras {
            let mut l = self.label();
            // keep extras off the standard labels unless a fault is wanted
            if l["t"] == "int" && l["neg"] == false && !fault(self) {
                let mag = bytes_of(&l["mag"]).unwrap_or_default();
                if mag.len() == 1 && (1..=7).contains(&mag[0]) {
                    l = jint(8 + mag[0] as i128);
                }
            }
            m.push((l, self.value(1)));
        }
        if self.coin(6) && !m.is_empty() {
            // a duplicate label somewhere
            let i = self.rng.below(m.len());
            let k = m[i].0.clone();
            let j = self.rng.below(m.len() + 1);
            m.insert(j, (k, self.value(0)));
        }
        // random order
        for i in (1..m.len()).rev() {
            let j = self.rng.below(i + 1);
            m.swap(i, j);
        }
        if self.coin(3) {
            return self.value(1);
        }
        jmap(m)
    }

    /// the bstr of a protected header: empty, or a (randomly encoded) header map, occasionally garbage
    pub fn prot_item(&mut self, depth: usize, fault_pct: usize) -> J {
        match self.rng.below(12) {
            0 | 1 | 2 => jbs(&[]),
            3 => jbs(&[0xa0]),
            4 if fault_pct > 0 => jbs(&self.bytes(20)),
            5 if fault_pct > 0 => self.value(0),
            _ => {
                let h = self.header_item(depth, fault_pct);
                let mut b = self.encode(&h, true);
                if fault_pct > 0 && self.coin(4) {
                    b.push(0);
                }
                jbs(&b)
            }
        }
    }

    pub fn signature_item(&mut self, depth: usize, fault_pct: usize) -> J {
        let mut a = vec![self.prot_item(depth, fault_pct), self.header_item(depth, fault_pct), jbs(&self.bytes(64))];
        self.maybe_break(&mut a, fault_pct);
        jarr(a)
    }
    fn bstr_or_nil(&mut self, fault_pct: usize) -> J {
        if self.coin(fault_pct) {
            self.value(0)
        } else if self.coin(30) {
            jnil()
        } else {
            jbs(&self.bytes(300))
        }
    }
    fn maybe_break(&mut self, a: &mut Vec<J>, fault_pct: usize) {
        if self.coin(fault_pct) {
            match self.rng.below(3) {
                0 if !a.is_empty() => {
                    a.pop();
                }
                1 => a.push(jbs(&[])),
                _ if !a.is_empty() => {
                    let i = self.rng.below(a.len());
                    a[i] = self.value(1);
                }
                _ => {}
            }
        }
    }
    pub fn recipient_item(&mut self, depth: usize, fault_pct: usize) -> J {
        let mut a = vec![self.prot_item(depth.min(1), fault_pct), self.header_item(0, fault_pct), self.bstr_or_nil(fault_pct)];
        if depth > 0 && self.coin(40) {
            let n = 1 + self.rng.below(2);
            a.push(jarr((0..n).map(|_| self.recipient_item(depth - 1, fault_pct)).collect()));
        }
        self.maybe_break(&mut a, fault_pct / 2);
        jarr(a)
    }
    pub fn msg_item(&mut self, ty: &str, fault_pct: usize) -> J {
        let p = self.prot_item(2, fault_pct);
        let u = self.header_item(2, fault_pct);
        let pl = self.bstr_or_nil(fault_pct);
        let mut a = match ty {
            "CoseSign1" | "CoseMac0" => vec![p, u, pl, jbs(&self.bytes(64))],
            "CoseEncrypt0" => vec![p, u, pl],
            "CoseSignature" => return self.signature_item(2, fault_pct),
            "CoseRecipient" => return self.recipient_item(2, fault_pct),
            "CoseSign" => {
                let n = 1 + self.rng.below(3);
                vec![p, u, pl, jarr((0..n).map(|_| self.signature_item(1, fault_pct)).collect())]
            }
            "CoseMac" => {
                let n = 1 + self.rng.below(2);
                vec![p, u, pl, jbs(&self.bytes(32)), jarr((0..n).map(|_| self.recipient_item(2, fault_pct)).collect())]
            }
            _ => {
                let n = 1 + self.rng.below(2);
                vec![p, u, pl, jarr((0..n).map(|_| self.recipient_item(2, fault_pct)).collect())]
            }
        };
        self.maybe_break(&mut a, fault_pct);
        jarr(a)
    }
    pub fn key_item(&mut self, fault_pct: usize) -> J {
        let mut m: Vec<(J, J)> = vec![];
        if !self.coin(fault_pct) {
            let v = if self.coin(15) { jtext(&self.text()) } else { jint(1 + self.rng.below(6) as i128) };
            m.push((jint(1), v));
        } else if self.coin(50) {
            m.push((jint(1), self.value(0)));
        }
        if self.coin(40) {
            m.push((jint(2), if self.coin(fault_pct) { self.value(0) } else { jbs(&[1, 2, 3]) }));
        }
        if self.coin(40) {
            let z = self.reg_value::<iana::Algorithm>();
            m.push((jint(3), if self.coin(fault_pct) { self.value(0) } else { self.small_int(z) }));
        }
        if self.coin(40) {
            let n = 1 + self.rng.below(4);
            let mut ops: Vec<J> = vec![];
            for _ in 0..n {
                let o = if self.coin(25) { jtext(&self.text()) } else { jint(1 + self.rng.below(10) as i128) };
                if !ops.contains(&o) || self.coin(fault_pct) {
                    ops.push(o);
                }
            }
            m.push((jint(4), jarr(ops)));
        }
        if self.coin(25) {
            m.push((jint(5), jbs(&[9])));
        }
        for _ in 0..self.rng.below(4) {
            let mut l = self.label();
            if l["t"] == "int" && l["neg"] == false && !self.coin(fault_pct) {
                let mag = bytes_of(&l["mag"]).unwrap_or_default();
                if mag.len() == 1 && (1..=5).contains(&mag[0]) {
                    l = jint(-(mag[0] as i128));
                }
            }
            m.push((l, self.value(1)));
        }
        if self.coin(fault_pct) && !m.is_empty() {
            let i = self.rng.below(m.len());
            m.push((m[i].0.clone(), self.value(0)));
        }
        for i in (1..m.len()).rev() {
            let j = self.rng.below(i + 1);
            m.swap(i, j);
        }
        jmap(m)
    }
    pub fn claims_item(&mut self, fault_pct: usize) -> J {
        let mut m: Vec<(J, J)> = vec![];
        for k in 1..=7i128 {
            if self.coin(35) {
                let v = if self.coin(fault_pct) {
                    self.value(0)
                } else {
                    match k {
                        1..=3 => jtext(&self.text()),
                        4..=6 => {
                            if self.coin(30) {
                                self.float()
                            } else {
                                self.int()
                            }
                        }
                        _ => jbs(&self.bytes(20)),
                    }
                };
                m.push((jint(k), v));
            }
        }
        for _ in 0..self.rng.below(3) {
            let k = match self.rng.below(4) {
                0 => jtext(&self.text()),
                1 => jint(-65537 - self.rng.below(100000) as i128),
                2 => {
                    let z = self.reg_value::<iana::CwtClaimName>();
                    if (1..=7).contains(&z) {
                        jint(8)
                    } else {
                        self.small_int(z)
                    }
                }
                _ => {
                    if self.coin(fault_pct * 2) {
                        self.int()
                    } else {
                        jint(38 + self.rng.below(3) as i128)
                    }
                }
            };
            m.push((k, self.value(1)));
        }
        for i in (1..m.len()).rev() {
            let j = self.rng.below(i + 1);
            m.swap(i, j);
        }
        jmap(m)
    }
    fn party_item(&mut self, fault_pct: usize) -> J {
        let bn = |g: &mut Gen| if g.coin(40) { jnil() } else { jbs(&g.bytes(20)) };
        let mut a = vec![bn(self), if self.coin(30) { self.int() } else { bn(self) }, bn(self)];
        self.maybe_break(&mut a, fault_pct);
        jarr(a)
    }
    fn supppub_item(&mut self, fault_pct: usize) -> J {
        let mut a = vec![
            if self.coin(fault_pct) { self.int() } else { jint(self.rng.below(1 << 20) as i128) },
            self.prot_item(1, fault_pct),
        ];
        if self.coin(40) {
            a.push(jbs(&self.bytes(20)));
        }
        self.maybe_break(&mut a, fault_pct);
        jarr(a)
    }
    pub fn kdf_item(&mut self, fault_pct: usize) -> J {
        let z = self.reg_value::<iana::Algorithm>();
        let mut a = vec![
            if self.coin(fault_pct) { self.value(0) } else { self.small_int(z) },
            self.party_item(fault_pct),
            self.party_item(fault_pct),
            self.supppub_item(fault_pct),
        ];
        for _ in 0..self.rng.below(3) {
            a.push(if self.coin(fault_pct) { self.value(0) } else { jbs(&self.bytes(20)) });
        }
        self.maybe_break(&mut a, fault_pct);
        jarr(a)
    }
    pub fn item_for(&mut self, ty: &str, fault_pct: usize) -> J {
        match ty {
            "Header" | "ProtectedHeader" => self.header_item(2, fault_pct),
            "CoseKey" => self.key_item(fault_pct),
            "CoseKeySet" => jarr((0..self.rng.below(4)).map(|_| self.key_item(fault_pct / 2)).collect()),
            "ClaimsSet" => self.claims_item(fault_pct),
            "PartyInfo" => self.party_item(fault_pct),
            "SuppPubInfo" => self.supppub_item(fault_pct),
            "CoseKdfContext" => self.kdf_item(fault_pct),
            "Label" => self.label(),
            "Value" => self.value(3),
            _ => self.msg_item(ty, fault_pct),
        }
    }

    // ---------------------------------------------------------------- encoder with random non-canonical choices
    fn head(&mut self, mj: u8, n: u64, noncanon: bool, out: &mut Vec<u8>) {
        let min = if n < 24 {
            0
        } else if n < 256 {
            1
        } else if n < 65536 {
            2
        } else if n < (1u64 << 32) {
            4
        } else {
            8
        };
        let w = if noncanon && self.coin(35) {
            let opts: Vec<u8> = [0u8, 1, 2, 4, 8].iter().cloned().filter(|w| *w >= min).collect();
            *self.pick(&opts)
        } else {
            min
        };
        match w {
            0 => out.push((mj << 5) | n as u8),
            1 => {
                out.push((mj << 5) | 24);
                out.push(n as u8)
            }
            2 => {
                out.push((mj << 5) | 25);
                out.extend_from_slice(&(n as u16).to_be_bytes())
            }
            4 => {
                out.push((mj << 5) | 26);
                out.extend_from_slice(&(n as u32).to_be_bytes())
            }
            _ => {
                out.push((mj << 5) | 27);
                out.extend_from_slice(&n.to_be_bytes())
            }
        }
    }
    fn string(&mut self, mj: u8, b: &[u8], noncanon: bool, out: &mut Vec<u8>) {
        if noncanon && self.coin(15) {
            out.push((mj << 5) | 31);
            // chunks; text chunks are cut at character boundaries (ciborium validates UTF-8 per chunk)
            let mut i = 0;
            while i < b.len() {
                let mut j = (i + 1 + self.rng.below(8)).min(b.len());
                if mj == 3 {
                    while j < b.len() && (b[j] & 0xc0) == 0x80 {
                        j += 1;
                    }
                }
                self.head(mj, (j - i) as u64, noncanon, out);
                out.extend_from_slice(&b[i..j]);
                i = j;
            }
            if self.coin(20) {
                self.head(mj, 0, false, out); // an empty chunk
            }
            out.push(0xff);
        } else {
            self.head(mj, b.len() as u64, noncanon, out);
            out.extend_from_slice(b);
        }
    }
    pub fn encode_into(&mut self, j: &J, noncanon: bool, out: &mut Vec<u8>) {
        match j["t"].as_str().unwrap_or("") {
            "int" => {
                let neg = j["neg"].as_bool().unwrap_or(false);
                let mag = bytes_of(&j["mag"]).unwrap_or_default();
                let n = nat_of_mag(&mag).unwrap_or(0) as u64;
                if noncanon && self.coin(6) {
                    // bignum form: tag 2/3 on a definite bstr (<= 16 bytes, possibly with leading zeros)
                    out.push(if neg { 0xc3 } else { 0xc2 });
                    let pad = self.rng.below(3);
                    let mut b = vec![0u8; pad];
                    b.extend_from_slice(&mag);
                    self.head(2, b.len() as u64, noncanon, out);
                    out.extend_from_slice(&b);
                } else {
                    self.head(if neg { 1 } else { 0 }, n, noncanon, out);
                }
            }
            "bytes" => {
                let b = bytes_of(&j["b"]).unwrap_or_default();
                self.string(2, &b, noncanon, out)
            }
            "text" => {
                let b = bytes_of(&j["s"]).unwrap_or_default();
                self.string(3, &b, noncanon, out)
            }
            "array" => {
                let a = j["a"].as_array().cloned().unwrap_or_default();
                let indef = noncanon && self.coin(15);
                if indef {
                    out.push(0x9f);
                } else {
                    self.head(4, a.len() as u64, noncanon, out);
                }
                for x in &a {
                    self.encode_into(x, noncanon, out);
                }
                if indef {
                    out.push(0xff);
                }
            }
            "map" => {
                let m = j["m"].as_array().cloned().unwrap_or_default();
                let indef = noncanon && self.coin(15);
                if indef {
                    out.push(0xbf);
                } else {
                    self.head(5, m.len() as u64, noncanon, out);
                }
                for p in &m {
                    self.encode_into(&p[0], noncanon, out);
                    self.encode_into(&p[1], noncanon, out);
                }
                if indef {
                    out.push(0xff);
                }
            }
            "tag" => {
                let t = nat_of_mag(&bytes_of(&j["tag"]).unwrap_or_default()).unwrap_or(0) as u64;
                self.head(6, t, noncanon, out);
                self.encode_into(&j["x"], noncanon, out);
            }
            "bool" => out.push(if j["bool"].as_bool().unwrap_or(false) { 0xf5 } else { 0xf4 }),
            "null" => out.push(if noncanon && self.coin(20) { 0xf7 } else { 0xf6 }),
            "float" => {
                out.push(0xfb);
                out.extend_from_slice(&bytes_of(&j["bits"]).unwrap_or_default());
            }
            _ => {}
        }
    }
    pub fn encode(&mut self, j: &J, noncanon: bool) -> Vec<u8> {
        let mut out = vec![];
        self.encode_into(j, noncanon, &mut out);
        out
    }

    // ---------------------------------------------------------------- values built through the crate (inputs only)
    fn header_value(&mut self) -> J {
        for _ in 0..20 {
            let it = self.header_item(1, 0);
            if let Ok(v) = value_of(&it) {
                if let Ok(h) = coset::Header::from_cbor_value(v) {
                    return crate::proj::header(&h);
                }
            }
        }
        crate::proj::header(&coset::Header::default())
    }
    fn prot_value(&mut self) -> J {
        if self.coin(50) {
            json!({"orig": [], "hdr": self.header_value()})
        } else {
            for _ in 0..20 {
                let p = self.prot_item(1, 0);
                if let Ok(v) = value_of(&p) {
                    if let Ok(ph) = coset::ProtectedHeader::from_cbor_bstr(v) {
                        return crate::proj::prot(&ph);
                    }
                }
            }
            json!({"orig": [], "hdr": crate::proj::header(&coset::Header::default())})
        }
    }
    fn sig_value(&mut self) -> J {
        json!({"prot": self.prot_value(), "unprot": self.header_value(), "sig": jbytes(&self.bytes(16))})
    }

    // ---------------------------------------------------------------- sessions
    fn aad(&mut self) -> J {
        let n = *self.pick(&[0usize, 1, 23, 24, 255, 256, 65535, 65536, 7, 100]);
        let n = if n > 300 && !self.coin(10) { 12 } else { n };
        // every fifth length is an arbitrary interior one (no encoding boundary), now and then a large one
        let n = if self.coin(20) { if self.coin(15) { 257 + self.rng.below(9000) } else { self.rng.below(300) } } else { n };
        let b = self.rng.byte();
        jbytes(&vec![b; n])
    }
    fn res(&mut self, ok_pct: usize) -> J {
        json!({"ok": self.coin(ok_pct), "bytes": jbytes(&self.bytes(24))})
    }

    fn decode_session(&mut self, ty: &str, fault_pct: usize) -> Vec<J> {
        let item = self.item_for(ty, fault_pct);
        let mut bytes = self.encode(&item, true);
        let mut steps = vec![];
        let tagged = ["CoseSign", "CoseSign1", "CoseMac", "CoseMac0", "CoseEncrypt", "CoseEncrypt0"].contains(&ty) && self.coin(30);
        if tagged {
            let tag: u64 = if self.coin(80) {
                match ty {
                    "CoseSign" => 98,
                    "CoseSign1" => 18,
                    "CoseMac" => 97,
                    "CoseMac0" => 17,
                    "CoseEncrypt" => 96,
                    _ => 16,
                }
            } else {
                *self.pick(&[16u64, 17, 18, 96, 97, 98, 0, 99, 55799])
            };
            let mut b = vec![];
            self.head(6, tag, true, &mut b);
            b.extend_from_slice(&bytes);
            bytes = b;
        }
        steps.push(json!({"ev": "inject", "bytes": jbytes(&bytes)}));
        // C13: sometimes cut or extend what is in flight
        if self.coin(10) && !bytes.is_empty() {
            steps.push(json!({"ev": "truncate", "n": self.rng.below(bytes.len())}));
        } else if self.coin(10) {
            steps.push(json!({"ev": "append", "bytes": jbytes(&self.bytes(3).iter().cloned().chain([0u8]).collect::<Vec<_>>())}));
        }
        let api = if tagged && self.coin(85) { "tagged" } else { "slice" };
        steps.push(json!({"ev": "decode", "api": api, "ty": ty, "reg": ""}));
        steps.push(json!({"ev": "encode", "api": if api == "tagged" { "tagged" } else { "vec" }}));
        steps.push(json!({"ev": "decode", "api": api, "ty": ty, "reg": ""}));
        steps.push(json!({"ev": "encode", "api": if api == "tagged" { "tagged" } else { "vec" }}));
        steps
    }

    fn followup_session(&mut self, ty: &str) -> Vec<J> {
        // a valid message, then the helpers (incl. the documented refusals)
        let item = self.msg_item(ty, 0);
        let bytes = self.encode(&item, true);
        let mut steps = vec![json!({"ev": "inject", "bytes": jbytes(&bytes)}), json!({"ev": "decode", "api": "slice", "ty": ty, "reg": ""})];
        let aad = self.aad();
        let pl = self.aad();
        match ty {
            "CoseSign1" => {
                steps.push(json!({"ev": "tbs", "m": "tbs_data", "aad": aad}));
                steps.push(json!({"ev": "verify", "m": "verify_signature", "aad": aad, "res": self.res(60)}));
                steps.push(json!({"ev": "verify", "m": "verify_detached_signature", "pl": pl, "aad": aad, "res": self.res(60)}));
            }
            "CoseSign" => {
                let w = self.rng.below(4);
                steps.push(json!({"ev": "verify", "m": "verify_signature", "which": w, "aad": aad, "res": self.res(60)}));
                steps.push(json!({"ev": "verify", "m": "verify_detached_signature", "which": w, "pl": pl, "aad": aad, "res": self.res(60)}));
            }
            "CoseMac" | "CoseMac0" => steps.push(json!({"ev": "verify", "m": "verify_tag", "aad": aad, "res": self.res(60)})),
            "CoseEncrypt" | "CoseEncrypt0" => steps.push(json!({"ev": "verify", "m": "decrypt", "aad": aad, "res": self.res(60)})),
            "CoseRecipient" => {
                let ctx = *self.pick(&["EncRecipient", "MacRecipient", "RecRecipient", "CoseEncrypt", "CoseEncrypt0"]);
                steps.push(json!({"ev": "verify", "m": "decrypt", "ctx": ctx, "aad": aad, "res": self.res(60)}));
            }
            _ => {}
        }
        steps
    }

    fn struct_session(&mut self, fam: &str) -> Vec<J> {
        let body = self.prot_value();
        let aad = self.aad();
        let pl = self.aad();
        match fam {
            "sig" => {
                let ctx = *self.pick(&["CoseSignature", "CoseSign1", "CounterSignature"]);
                let signp = if self.coin(60) { json!([self.prot_value()]) } else { json!([]) };
                vec![json!({"ev": "struct", "fn": "sig", "ctx": ctx, "body": body, "signp": signp, "aad": aad, "pl": pl})]
            }
            "mac" => {
                let ctx = *self.pick(&["CoseMac", "CoseMac0"]);
                vec![json!({"ev": "struct", "fn": "mac", "ctx": ctx, "body": body, "aad": aad, "pl": pl})]
            }
            _ => {
                let ctx = *self.pick(&["CoseEncrypt", "CoseEncrypt0", "EncRecipient", "MacRecipient", "RecRecipient"]);
                vec![json!({"ev": "struct", "fn": "enc", "ctx": ctx, "body": body, "aad": aad})]
            }
        }
    }

    fn builder_session(&mut self, ty: &str, max_calls: usize, lifecycle: bool) -> Vec<J> {
        let mut steps = vec![json!({"ev": "new", "ty": ty})];
        let n = 1 + self.rng.below(max_calls);
        let mut detached_ok = true; // becomes false once a payload is set (documented panic then)
        for _ in 0..n {
            let c = self.builder_call(ty, &mut detached_ok);
            steps.push(c);
        }
        steps.push(json!({"ev": "build"}));
        if lifecycle {
            let tagged = ["CoseSign", "CoseSign1", "CoseMac", "CoseMac0", "CoseEncrypt", "CoseEncrypt0"].contains(&ty) && self.coin(40);
            steps.push(json!({"ev": "encode", "api": if tagged { "tagged" } else { "vec" }}));
            steps.push(json!({"ev": "decode", "api": if tagged { "tagged" } else { "slice" }, "ty": ty, "reg": ""}));
            let aad = self.aad();
            let pl = self.aad();
            match ty {
                "CoseSign1" => steps.push(if detached_ok {
                    json!({"ev": "verify", "m": "verify_detached_signature", "pl": pl, "aad": aad, "res": self.res(50)})
                } else {
                    json!({"ev": "verify", "m": "verify_signature", "aad": aad, "res": self.res(50)})
                }),
                "CoseSign" => steps.push(json!({"ev": "verify", "m": "verify_signature", "which": self.rng.below(3), "aad": aad, "res": self.res(50)})),
                "CoseMac" | "CoseMac0" => steps.push(json!({"ev": "verify", "m": "verify_tag", "aad": aad, "res": self.res(50)})),
                "CoseEncrypt" | "CoseEncrypt0" => steps.push(json!({"ev": "verify", "m": "decrypt", "aad": aad, "res": self.res(50)})),
                "CoseRecipient" => steps.push(json!({"ev": "verify", "m": "decrypt", "ctx": "EncRecipient", "aad": aad, "res": self.res(50)})),
                _ => {}
            }
        }
        steps
    }

    fn builder_call(&mut self, ty: &str, detached_ok: &mut bool) -> J {
        let bytes = jbytes(&self.bytes(300));
        let aad = self.aad();
        let val = self.value(2);
        let common = |g: &mut Gen| -> Option<J> {
            match g.rng.below(6) {
                0 => Some(json!({"ev": "call", "m": "protected", "hdr": g.header_value()})),
                1 => Some(json!({"ev": "call", "m": "unprotected", "hdr": g.header_value()})),
                _ => None,
            }
        };
        let alg_name = self.name_of::<iana::Algorithm>();
        match ty {
            "Header" => match self.rng.below(11) {
                0 => json!({"ev": "call", "m": "key_id", "bytes": bytes}),
                1 => json!({"ev": "call", "m": "algorithm", "nm": alg_name}),
                2 => json!({"ev": "call", "m": "add_critical", "nm": self.name_of::<iana::HeaderParameter>()}),
                3 => json!({"ev": "call", "m": "add_critical_label", "lbl": {"k": "text", "s": jbytes(&self.text())}}),
                4 => json!({"ev": "call", "m": "content_format", "nm": self.name_of::<iana::CoapContentFormat>()}),
                5 => json!({"ev": "call", "m": "content_type", "txt": jbytes(&self.text())}),
                6 => json!({"ev": "call", "m": "iv", "bytes": bytes}),
                7 => json!({"ev": "call", "m": "partial_iv", "bytes": bytes}),
                8 => json!({"ev": "call", "m": "add_counter_signature", "sigv": self.sig_value()}),
                9 => {
                    let z = if self.coin(30) { jint(self.rng.below(10) as i128) } else { let l = self.int(); if i64_of(&l).is_ok() { l } else { jint(77) } };
                    json!({"ev": "call", "m": "value", "z": z, "val": val})
                }
                _ => json!({"ev": "call", "m": "text_value", "txt": jbytes(&self.text()), "val": val}),
            },
            "CoseSign1" => {
                if let Some(c) = common(self) {
                    return c;
                }
                match self.rng.below(6) {
                    0 => {
                        *detached_ok = false;
                        json!({"ev": "call", "m": "payload", "bytes": bytes})
                    }
                    1 => json!({"ev": "call", "m": "signature", "bytes": bytes}),
                    2 => json!({"ev": "call", "m": "create_signature", "aad": aad, "res": self.res(100)}),
                    3 => json!({"ev": "call", "m": "try_create_signature", "aad": aad, "res": self.res(85)}),
                    4 if *detached_ok => json!({"ev": "call", "m": "create_detached_signature", "pl": bytes, "aad": aad, "res": self.res(100)}),
                    _ => json!({"ev": "call", "m": "try_create_signature", "aad": aad, "res": self.res(100)}),
                }
            }
            "CoseSign" => {
                if let Some(c) = common(self) {
                    return c;
                }
                match self.rng.below(5) {
                    0 => {
                        *detached_ok = false;
                        json!({"ev": "call", "m": "payload", "bytes": bytes})
                    }
                    1 => json!({"ev": "call", "m": "add_signature", "sigv": self.sig_value()}),
                    2 => json!({"ev": "call", "m": "add_created_signature", "sigv": self.sig_value(), "aad": aad, "res": self.res(100)}),
                    3 if *detached_ok => json!({"ev": "call", "m": "add_detached_signature", "sigv": self.sig_value(), "pl": bytes, "aad": aad, "res": self.res(100)}),
                    _ => json!({"ev": "call", "m": "try_add_created_signature", "sigv": self.sig_value(), "aad": aad, "res": self.res(85)}),
                }
            }
            "CoseMac" | "CoseMac0" => {
                if let Some(c) = common(self) {
                    return c;
                }
                match self.rng.below(4) {
                    0 => {
                        *detached_ok = false;
                        json!({"ev": "call", "m": "payload", "bytes": bytes})
                    }
                    1 => json!({"ev": "call", "m": "tag", "bytes": bytes}),
                    2 if !*detached_ok => json!({"ev": "call", "m": "create_tag", "aad": aad, "res": self.res(100)}),
                    3 if !*detached_ok => json!({"ev": "call", "m": "try_create_tag", "aad": aad, "res": self.res(85)}),
                    _ => {
                        *detached_ok = false;
                        json!({"ev": "call", "m": "payload", "bytes": bytes})
                    }
                }
            }
            "CoseEncrypt" | "CoseEncrypt0" | "CoseRecipient" => {
                if let Some(c) = common(self) {
                    return c;
                }
                let ctx = *self.pick(&["EncRecipient", "MacRecipient", "RecRecipient"]);
                match self.rng.below(3) {
                    0 => json!({"ev": "call", "m": "ciphertext", "bytes": bytes}),
                    1 => json!({"ev": "call", "m": "create_ciphertext", "ctx": ctx, "pt": bytes, "aad": aad, "res": self.res(100)}),
                    _ => json!({"ev": "call", "m": "try_create_ciphertext", "ctx": ctx, "pt": bytes, "aad": aad, "res": self.res(85)}),
                }
            }
            "CoseKey" => match self.rng.below(7) {
                0 => json!({"ev": "call", "m": "key_id", "bytes": bytes}),
                1 => json!({"ev": "call", "m": "base_iv", "bytes": bytes}),
                2 => json!({"ev": "call", "m": "key_type", "nm": self.name_of::<iana::KeyType>()}),
                3 => json!({"ev": "call", "m": "algorithm", "nm": alg_name}),
                4 => json!({"ev": "call", "m": "add_key_op", "nm": self.name_of::<iana::KeyOperation>()}),
                5 => json!({"ev": "call", "m": "kty", "lbl": {"k": "text", "s": jbytes(&self.text())}}),
                _ => {
                    let z = if self.coin(30) { jint(1 + self.rng.below(8) as i128) } else { let l = self.int(); if i64_of(&l).is_ok() && l != jint(0) { l } else { jint(-1) } };
                    json!({"ev": "call", "m": "param", "z": z, "val": val})
                }
            },
            "ClaimsSet" => match self.rng.below(8) {
                0 => json!({"ev": "call", "m": "issuer", "txt": jbytes(&self.text())}),
                1 => json!({"ev": "call", "m": "subject", "txt": jbytes(&self.text())}),
                2 => json!({"ev": "call", "m": "audience", "txt": jbytes(&self.text())}),
                3 => {
                    let i = self.int();
                    let ts = if i64_of(&i).is_ok() { json!({"k": "whole", "v": i}) } else { json!({"k": "frac", "bits": self.float()["bits"]}) };
                    json!({"ev": "call", "m": *self.pick(&["expiration_time", "not_before", "issued_at"]), "ts": ts})
                }
                4 => json!({"ev": "call", "m": "cwt_id", "bytes": bytes}),
                5 => json!({"ev": "call", "m": "claim", "nm": self.name_of::<iana::CwtClaimName>(), "val": val}),
                6 => json!({"ev": "call", "m": "text_claim", "txt": jbytes(&self.text()), "val": val}),
                _ => json!({"ev": "call", "m": "private_claim", "z": jint(-65530 - self.rng.below(20) as i128), "val": val}),
            },
            _ => json!({"ev": "call", "m": "unprotected", "hdr": self.header_value()}),
        }
    }

    /// one session of the named family
    pub fn session(&mut self, fam: &str) -> Vec<J> {
        const MSGS: &[&str] = &["CoseSign1", "CoseSign", "CoseSignature", "CoseMac", "CoseMac0", "CoseEncrypt", "CoseEncrypt0", "CoseRecipient"];
        match fam {
            "header" => self.decode_session("Header", 12),
            "msg" => {
                let ty = *self.pick(MSGS);
                self.decode_session(ty, 6)
            }
            "key" => {
                let ty = if self.coin(80) { "CoseKey" } else { "CoseKeySet" };
                self.decode_session(ty, 12)
            }
            "cwtkdf" => {
                let ty = *self.pick(&["ClaimsSet", "ClaimsSet", "CoseKdfContext", "PartyInfo", "SuppPubInfo"]);
                self.decode_session(ty, 10)
            }
            "valid" if self.coin(10) => {
                // a protected header received as a bstr: to_vec is the map form, cbor_bstr the received bytes
                let h = self.header_item(1, 0);
                let bytes = self.encode(&h, true);
                vec![
                    json!({"ev": "inject", "bytes": jbytes(&bytes)}),
                    json!({"ev": "decode", "api": "bstr", "ty": "ProtectedHeader", "reg": ""}),
                    json!({"ev": "encode", "api": "vec"}),
                    json!({"ev": "encode", "api": "bstr"}),
                ]
            }
            "valid" => {
                let ty = *self.pick(&["Header", "CoseSign1", "CoseSign", "CoseMac", "CoseMac0", "CoseEncrypt", "CoseEncrypt0", "CoseRecipient", "CoseKey", "ClaimsSet", "CoseKdfContext", "CoseKeySet"]);
                self.decode_session(ty, 0)
            }
            "follow" => {
                let ty = *self.pick(&["CoseSign1", "CoseSign", "CoseMac", "CoseMac0", "CoseEncrypt", "CoseEncrypt0", "CoseRecipient"]);
                self.followup_session(ty)
            }
            "struct-sig" => self.struct_session("sig"),
            "struct-mac" => self.struct_session("mac"),
            "struct-enc" => self.struct_session("enc"),
            "builder" => {
                let ty = *self.pick(&["Header", "Header", "CoseSign1", "CoseSign", "CoseMac", "CoseMac0", "CoseEncrypt", "CoseEncrypt0", "CoseRecipient", "CoseKey", "ClaimsSet"]);
                self.builder_session(ty, 12, false)
            }
            "lifecycle" => {
                let ty = *self.pick(&["CoseSign1", "CoseSign", "CoseMac", "CoseMac0", "CoseEncrypt", "CoseEncrypt0", "CoseRecipient"]);
                self.builder_session(ty, 8, true)
            }
            "cmp" => {
                let (a, b) = (self.label(), if self.coin(10) { self.label() } else { self.label() });
                let ok = |l: &J| l["t"] == "text" || i64_of(l).is_ok();
                let fix = |l: J| if ok(&l) { l } else { jint(5) };
                vec![json!({"ev": "cmp", "a": fix(a), "b": fix(b)})]
            }
            "canon" => {
                let item = self.key_item(0);
                let bytes = self.encode(&item, false);
                let ord = *self.pick(&["Lexicographic", "LengthFirstLexicographic"]);
                vec![
                    json!({"ev": "inject", "bytes": jbytes(&bytes)}),
                    json!({"ev": "decode", "api": "slice", "ty": "CoseKey", "reg": ""}),
                    json!({"ev": "canonicalize", "ord": ord}),
                    json!({"ev": "encode", "api": "vec"}),
                    json!({"ev": "canonicalize", "ord": ord}),
                    json!({"ev": "encode", "api": "vec"}),
                ]
            }
            _ => vec![],
        }
    }
}

//! abstract JSON -> coset value (struct literals; used to replay inputs the specification generated).
use crate::abs::*;
use crate::iana_tab::Reg;
use coset::cbor::value::Value;
use coset::iana::WithPrivateRange;
use coset::*;
use serde_json::Value as J;

type R<T> = Result<T, String>;

pub fn label(j: &J) -> R<Label> {
    match j["t"].as_str() {
        Some("int") => Ok(Label::Int(i64_of(j)?)),
        Some("text") => Ok(Label::Text(text_of(&j["s"])?)),
        _ => Err(format!("bad label {}", j)),
    }
}

fn variant<T: Reg>(j: &J) -> R<T> {
    let n = j["name"].as_str().ok_or("assigned.name")?;
    T::variant_of(n).ok_or_else(|| format!("no variant {}::{}", T::NAME, n))
}

pub fn reglabel<T: Reg>(j: &J) -> R<RegisteredLabel<T>> {
    match j["k"].as_str() {
        Some("assigned") => Ok(RegisteredLabel::Assigned(variant::<T>(j)?)),
        Some("text") => Ok(RegisteredLabel::Text(text_of(&j["s"])?)),
        _ => Err(format!("bad registered label {}", j)),
    }
}

pub fn regpriv<T: Reg + WithPrivateRange>(j: &J) -> R<RegisteredLabelWithPrivate<T>> {
    match j["k"].as_str() {
        Some("assigned") => Ok(RegisteredLabelWithPrivate::Assigned(variant::<T>(j)?)),
        Some("priv") => Ok(RegisteredLabelWithPrivate::PrivateUse(i64_of(&j["v"])?)),
        Some("text") => Ok(RegisteredLabelWithPrivate::Text(text_of(&j["s"])?)),
        _ => Err(format!("bad registered label {}", j)),
    }
}

fn arr(j: &J) -> R<&Vec<J>> {
    j.as_array().ok_or_else(|| format!("expected array, got {}", j))
}

fn pairs(j: &J) -> R<Vec<(Label, Value)>> {
    arr(j)?.iter().map(|p| Ok((label(&p[0])?, value_of(&p[1])?))).collect()
}

fn optbytes(j: &J) -> R<Option<Vec<u8>>> {
    opt(j)?.map(bytes_of).transpose()
}

pub fn header(j: &J) -> R<Header> {
    Ok(Header {
        alg: opt(&j["alg"])?.map(regpriv).transpose()?,
        crit: arr(&j["crit"])?.iter().map(reglabel).collect::<R<Vec<_>>>()?,
        content_type: opt(&j["ct"])?.map(reglabel).transpose()?,
        key_id: bytes_of(&j["kid"])?,
        iv: bytes_of(&j["iv"])?,
        partial_iv: bytes_of(&j["piv"])?,
        counter_signatures: arr(&j["cs"])?.iter().map(signature).collect::<R<Vec<_>>>()?,
        rest: pairs(&j["rest"])?,
    })
}

pub fn prot(j: &J) -> R<ProtectedHeader> {
    Ok(ProtectedHeader { original_data: optbytes(&j["orig"])?, header: header(&j["hdr"])? })
}

pub fn signature(j: &J) -> R<CoseSignature> {
    Ok(CoseSignature { protected: prot(&j["prot"])?, unprotected: header(&j["unprot"])?, signature: bytes_of(&j["sig"])? })
}

pub fn sign(j: &J) -> R<CoseSign> {
    Ok(CoseSign {
        protected: prot(&j["prot"])?,
        unprotected: header(&j["unprot"])?,
        payload: optbytes(&j["payload"])?,
        signatures: arr(&j["sigs"])?.iter().map(signature).collect::<R<Vec<_>>>()?,
    })
}

pub fn sign1(j: &J) -> R<CoseSign1> {
    Ok(CoseSign1 {
        protected: prot(&j["prot"])?,
        unprotected: header(&j["unprot"])?,
        payload: optbytes(&j["payload"])?,
        signature: bytes_of(&j["sig"])?,
    })
}

pub fn recipient(j: &J) -> R<CoseRecipient> {
    Ok(CoseRecipient {
        protected: prot(&j["prot"])?,
        unprotected: header(&j["unprot"])?,
        ciphertext: optbytes(&j["cipher"])?,
        recipients: arr(&j["recips"])?.iter().map(recipient).collect::<R<Vec<_>>>()?,
    })
}

pub fn mac(j: &J) -> R<CoseMac> {
    Ok(CoseMac {
        protected: prot(&j["prot"])?,
        unprotected: header(&j["unprot"])?,
        payload: optbytes(&j["payload"])?,
        tag: bytes_of(&j["tag"])?,
        recipients: arr(&j["recips"])?.iter().map(recipient).collect::<R<Vec<_>>>()?,
    })
}

pub fn mac0(j: &J) -> R<CoseMac0> {
    Ok(CoseMac0 {
        protected: prot(&j["prot"])?,
        unprotected: header(&j["unprot"])?,
        payload: optbytes(&j["payload"])?,
        tag: bytes_of(&j["tag"])?,
    })
}

pub fn encrypt(j: &J) -> R<CoseEncrypt> {
    Ok(CoseEncrypt {
        protected: prot(&j["prot"])?,
        unprotected: header(&j["unprot"])?,
        ciphertext: optbytes(&j["cipher"])?,
        recipients: arr(&j["recips"])?.iter().map(recipient).collect::<R<Vec<_>>>()?,
    })
}

pub fn encrypt0(j: &J) -> R<CoseEncrypt0> {
    Ok(CoseEncrypt0 { protected: prot(&j["prot"])?, unprotected: header(&j["unprot"])?, ciphertext: optbytes(&j["cipher"])? })
}

pub fn key(j: &J) -> R<CoseKey> {
    Ok(CoseKey {
        kty: reglabel(&j["kty"])?,
        key_id: bytes_of(&j["kid"])?,
        alg: opt(&j["alg"])?.map(regpriv).transpose()?,
        key_ops: arr(&j["ops"])?.iter().map(reglabel).collect::<R<_>>()?,
        base_iv: bytes_of(&j["biv"])?,
        params: pairs(&j["params"])?,
    })
}

pub fn keyset(j: &J) -> R<CoseKeySet> {
    Ok(CoseKeySet(arr(j)?.iter().map(key).collect::<R<Vec<_>>>()?))
}

pub fn timestamp(j: &J) -> R<cwt::Timestamp> {
    match j["k"].as_str() {
        Some("whole") => Ok(cwt::Timestamp::WholeSeconds(i64_of(&j["v"])?)),
        Some("frac") => {
            let b = bytes_of(&j["bits"])?;
            let mut a = [0u8; 8];
            if b.len() != 8 {
                return Err("frac bits".into());
            }
            a.copy_from_slice(&b);
            Ok(cwt::Timestamp::FractionalSeconds(f64::from_bits(u64::from_be_bytes(a))))
        }
        _ => Err(format!("bad timestamp {}", j)),
    }
}

pub fn claims(j: &J) -> R<cwt::ClaimsSet> {
    let ot = |j: &J| -> R<Option<String>> { opt(j)?.map(text_of).transpose() };
    let ots = |j: &J| -> R<Option<cwt::Timestamp>> { opt(j)?.map(timestamp).transpose() };
    Ok(cwt::ClaimsSet {
        issuer: ot(&j["iss"])?,
        subject: ot(&j["sub"])?,
        audience: ot(&j["aud"])?,
        expiration_time: ots(&j["exp"])?,
        not_before: ots(&j["nbf"])?,
        issued_at: ots(&j["iat"])?,
        cwt_id: optbytes(&j["cti"])?,
        rest: arr(&j["rest"])?
            .iter()
            .map(|p| Ok((regpriv::<iana::CwtClaimName>(&p[0])?, value_of(&p[1])?)))
            .collect::<R<Vec<_>>>()?,
    })
}

pub fn nonce(j: &J) -> R<Nonce> {
    match j["k"].as_str() {
        Some("bytes") => Ok(Nonce::Bytes(bytes_of(&j["b"])?)),
        Some("int") => Ok(Nonce::Integer(i64_of(&j["v"])?)),
        _ => Err(format!("bad nonce {}", j)),
    }
}

pub fn party(j: &J) -> R<PartyInfo> {
    Ok(PartyInfo {
        identity: optbytes(&j["identity"])?,
        nonce: opt(&j["nonce"])?.map(nonce).transpose()?,
        other: optbytes(&j["other"])?,
    })
}

pub fn supp_pub(j: &J) -> R<SuppPubInfo> {
    Ok(SuppPubInfo { key_data_length: u64_of(&j["kdl"])?, protected: prot(&j["prot"])?, other: optbytes(&j["other"])? })
}

/// CoseKdfContext can only be assembled through its builder (private fields); a non-assigned
/// algorithm is therefore not constructible from a literal.
pub fn kdf(j: &J) -> R<CoseKdfContext> {
    let mut b = CoseKdfContextBuilder::new()
        .party_u_info(party(&j["pu"])?)
        .party_v_info(party(&j["pv"])?)
        .supp_pub_info(supp_pub(&j["pub"])?);
    match j["alg"]["k"].as_str() {
        Some("assigned") => b = b.algorithm(variant::<iana::Algorithm>(&j["alg"])?),
        _ => return Err("KDF context with a non-assigned algorithm cannot be built from a literal".into()),
    }
    for p in arr(&j["priv"])? {
        b = b.add_supp_priv_info(bytes_of(p)?);
    }
    Ok(b.build())
}

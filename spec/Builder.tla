-------------------------------- MODULE Builder --------------------------------
(***************************************************************************)
(* One transition per public builder method (written from the rustdoc of   *)
(* each method).  Apply(bty, st, e) = the builder's wrapped value after    *)
(* the call e, or a panic, or (try_ variants) the closure's error.         *)
(* e.res = what the caller's closure returns: [ok, bytes] -- a choice of   *)
(* the environment.  cb = the arguments the closure was handed.            *)
(***************************************************************************)
EXTENDS Struct, Key, Cwt, Kdf

BuilderTypes == {"Header", "CoseSignature", "CoseSign", "CoseSign1", "CoseMac", "CoseMac0", "CoseEncrypt",
                 "CoseEncrypt0", "CoseRecipient", "CoseKey", "ClaimsSet", "PartyInfo", "SuppPubInfo", "CoseKdfContext"}

Default(ty) ==
  CASE ty = "Header" -> EmptyHeader
    [] ty = "ProtectedHeader" -> EmptyProt
    [] ty = "CoseSignature" -> [prot |-> EmptyProt, unprot |-> EmptyHeader, sig |-> <<>>]
    [] ty = "CoseSign" -> [prot |-> EmptyProt, unprot |-> EmptyHeader, payload |-> <<>>, sigs |-> <<>>]
    [] ty = "CoseSign1" -> [prot |-> EmptyProt, unprot |-> EmptyHeader, payload |-> <<>>, sig |-> <<>>]
    [] ty = "CoseMac" -> [prot |-> EmptyProt, unprot |-> EmptyHeader, payload |-> <<>>, tag |-> <<>>, recips |-> <<>>]
    [] ty = "CoseMac0" -> [prot |-> EmptyProt, unprot |-> EmptyHeader, payload |-> <<>>, tag |-> <<>>]
    [] ty = "CoseEncrypt" -> [prot |-> EmptyProt, unprot |-> EmptyHeader, cipher |-> <<>>, recips |-> <<>>]
    [] ty = "CoseEncrypt0" -> [prot |-> EmptyProt, unprot |-> EmptyHeader, cipher |-> <<>>]
    [] ty = "CoseRecipient" -> [prot |-> EmptyProt, unprot |-> EmptyHeader, cipher |-> <<>>, recips |-> <<>>]
    [] ty = "CoseKey" -> EmptyKey
    [] ty = "ClaimsSet" -> EmptyClaims
    [] ty = "PartyInfo" -> EmptyParty
    [] ty = "SuppPubInfo" -> EmptySuppPub
    [] ty = "CoseKdfContext" -> EmptyKdf

St(x)        == [ok |-> TRUE, st |-> x, cb |-> <<>>]
StCb(x, cb)  == [ok |-> TRUE, st |-> x, cb |-> cb]
BPanic       == [ok |-> FALSE, kind |-> "panic", cb |-> <<>>]
BErr(cb)     == [ok |-> FALSE, kind |-> "err", cb |-> cb]    \* a try_ variant whose closure failed

BuiltProt(h) == [orig |-> <<>>, hdr |-> h]      \* builder_set_protected!: discards retained bytes

(* a create helper: compute structure from CURRENT state, hand it to the closure, store the result *)
Created(s, field, st, e, args, try) ==
  IF s.kind = "panic" THEN BPanic
  ELSE IF ~e.res.ok THEN (IF try THEN BErr(args) ELSE BPanic)   \* infallible closures cannot fail: not generated
  ELSE StCb([st EXCEPT ![field] = e.res.bytes], args)

ApplyHeader(st, e) ==
  CASE e.m = "key_id" -> St([st EXCEPT !.kid = e.bytes])
    [] e.m = "algorithm" -> St([st EXCEPT !.alg = <<Assigned("Algorithm", e.nm)>>])
    [] e.m = "add_critical" -> St([st EXCEPT !.crit = Append(@, Assigned("HeaderParameter", e.nm))])
    [] e.m = "add_critical_label" -> St([st EXCEPT !.crit = Append(@, e.lbl)])
    [] e.m = "content_format" -> St([st EXCEPT !.ct = <<Assigned("CoapContentFormat", e.nm)>>])
    [] e.m = "content_type" -> St([st EXCEPT !.ct = <<TextL(e.txt)>>])
    [] e.m = "iv" -> St([st EXCEPT !.iv = e.bytes, !.piv = <<>>])
    [] e.m = "partial_iv" -> St([st EXCEPT !.piv = e.bytes, !.iv = <<>>])
    [] e.m = "add_counter_signature" -> St([st EXCEPT !.cs = Append(@, e.sigv)])
    [] e.m = "value" -> IF ~e.z.neg /\ Len(e.z.mag) = 1 /\ e.z.mag[1] \in 1..7 THEN BPanic
                        ELSE St([st EXCEPT !.rest = Append(@, <<e.z, e.val>>)])
    [] e.m = "text_value" -> St([st EXCEPT !.rest = Append(@, <<Tx(e.txt), e.val>>)])

ApplyCommon(st, e) ==   \* the setters every message builder shares
  CASE e.m = "protected" -> St([st EXCEPT !.prot = BuiltProt(e.hdr)])
    [] e.m = "unprotected" -> St([st EXCEPT !.unprot = e.hdr])

ApplySignature(st, e) ==
  CASE e.m \in {"protected", "unprotected"} -> ApplyCommon(st, e)
    [] e.m = "signature" -> St([st EXCEPT !.sig = e.bytes])

AddedSig(s, st, e, try) ==
  IF s.kind = "panic" THEN BPanic
  ELSE IF ~e.res.ok THEN (IF try THEN BErr(<<s.bytes>>) ELSE BPanic)
  ELSE StCb([st EXCEPT !.sigs = Append(@, [e.sigv EXCEPT !.sig = e.res.bytes])], <<s.bytes>>)

ApplySign(st, e) ==
  CASE e.m \in {"protected", "unprotected"} -> ApplyCommon(st, e)
    [] e.m = "payload" -> St([st EXCEPT !.payload = <<e.bytes>>])
    [] e.m = "add_signature" -> St([st EXCEPT !.sigs = Append(@, e.sigv)])
    [] e.m = "add_created_signature" -> AddedSig(Sign_Tbs(st, e.aad, e.sigv), st, e, FALSE)
    [] e.m = "try_add_created_signature" -> AddedSig(Sign_Tbs(st, e.aad, e.sigv), st, e, TRUE)
    [] e.m = "add_detached_signature" -> AddedSig(Sign_TbsDetached(st, e.pl, e.aad, e.sigv), st, e, FALSE)
    [] e.m = "try_add_detached_signature" -> AddedSig(Sign_TbsDetached(st, e.pl, e.aad, e.sigv), st, e, TRUE)

CbOf(s) == IF s.kind = "ok" THEN <<s.bytes>> ELSE <<>>

ApplySign1(st, e) ==
  CASE e.m \in {"protected", "unprotected"} -> ApplyCommon(st, e)
    [] e.m = "payload" -> St([st EXCEPT !.payload = <<e.bytes>>])
    [] e.m = "signature" -> St([st EXCEPT !.sig = e.bytes])
    [] e.m = "create_signature" -> LET s == Sign1_Tbs(st, e.aad) IN Created(s, "sig", st, e, CbOf(s), FALSE)
    [] e.m = "try_create_signature" -> LET s == Sign1_Tbs(st, e.aad) IN Created(s, "sig", st, e, CbOf(s), TRUE)
    [] e.m = "create_detached_signature" -> LET s == Sign1_TbsDetached(st, e.pl, e.aad) IN Created(s, "sig", st, e, CbOf(s), FALSE)
    [] e.m = "try_create_detached_signature" -> LET s == Sign1_TbsDetached(st, e.pl, e.aad) IN Created(s, "sig", st, e, CbOf(s), TRUE)

ApplyMacLike(ty, st, e) ==
  CASE e.m \in {"protected", "unprotected"} -> ApplyCommon(st, e)
    [] e.m = "payload" -> St([st EXCEPT !.payload = <<e.bytes>>])
    [] e.m = "tag" -> St([st EXCEPT !.tag = e.bytes])
    [] e.m = "add_recipient" /\ ty = "CoseMac" -> St([st EXCEPT !.recips = Append(@, e.rcp)])
    [] e.m = "create_tag" -> LET s == Mac_Tbm(ty, st, e.aad) IN Created(s, "tag", st, e, CbOf(s), FALSE)
    [] e.m = "try_create_tag" -> LET s == Mac_Tbm(ty, st, e.aad) IN Created(s, "tag", st, e, CbOf(s), TRUE)

CreatedCipher(s, st, e, try) ==
  IF s.kind = "panic" THEN BPanic
  ELSE IF ~e.res.ok THEN (IF try THEN BErr(<<e.pt, s.bytes>>) ELSE BPanic)
  ELSE StCb([st EXCEPT !.cipher = <<e.res.bytes>>], <<e.pt, s.bytes>>)

ApplyEncLike(ty, st, e) ==
  CASE e.m \in {"protected", "unprotected"} -> ApplyCommon(st, e)
    [] e.m = "ciphertext" -> St([st EXCEPT !.cipher = <<e.bytes>>])
    [] e.m = "add_recipient" /\ ty \in {"CoseEncrypt", "CoseRecipient"} -> St([st EXCEPT !.recips = Append(@, e.rcp)])
    [] e.m = "create_ciphertext" ->
         CreatedCipher(IF ty = "CoseRecipient" THEN Recipient_Aad(st, e.ctx, e.aad) ELSE Enc_Aad(ty, st, e.aad), st, e, FALSE)
    [] e.m = "try_create_ciphertext" ->
         CreatedCipher(IF ty = "CoseRecipient" THEN Recipient_Aad(st, e.ctx, e.aad) ELSE Enc_Aad(ty, st, e.aad), st, e, TRUE)

(* key_ops: a set kept in the label order *)
OpInsert(ops, op) == IF \E i \in 1..Len(ops) : ops[i] = op THEN ops ELSE InsertBy(RegLabelCmpDesign, op, ops)

ApplyKey(st, e) ==
  CASE e.m = "kty" -> St([st EXCEPT !.kty = e.lbl])
    [] e.m = "key_id" -> St([st EXCEPT !.kid = e.bytes])
    [] e.m = "base_iv" -> St([st EXCEPT !.biv = e.bytes])
    [] e.m = "key_type" -> St([st EXCEPT !.kty = Assigned("KeyType", e.nm)])
    [] e.m = "algorithm" -> St([st EXCEPT !.alg = <<Assigned("Algorithm", e.nm)>>])
    [] e.m = "add_key_op" -> St([st EXCEPT !.ops = OpInsert(@, Assigned("KeyOperation", e.nm))])
    [] e.m = "param" -> IF ~e.z.neg /\ Len(e.z.mag) = 1 /\ e.z.mag[1] \in 1..5 THEN BPanic
                        ELSE St([st EXCEPT !.params = Append(@, <<e.z, e.val>>)])
(* param(0, _): label 0 is "Reserved" in the key-parameter registry; the code panics, the property *)
(* names only the common key parameters -- either behaviour is accepted (judge = FALSE)            *)
KeyParamUnjudged(e) == e.m = "param" /\ e.z = Nat2I(0)

CurveVal(nm) == Nat2I(ValueOfName("EllipticCurve", nm))
KeyCtor(e) ==
  CASE e.m = "new" -> EmptyKey
    [] e.m = "new_ec2_pub_key" ->
         [EmptyKey EXCEPT !.kty = Assigned("KeyType", "EC2"),
            !.params = << <<Neg2I(1), CurveVal(e.crv)>>, <<Neg2I(2), Bs(e.kx)>>, <<Neg2I(3), Bs(e.ky)>> >>]
    [] e.m = "new_ec2_pub_key_y_sign" ->
         [EmptyKey EXCEPT !.kty = Assigned("KeyType", "EC2"),
            !.params = << <<Neg2I(1), CurveVal(e.crv)>>, <<Neg2I(2), Bs(e.kx)>>, <<Neg2I(3), Bool(e.ysign)>> >>]
    [] e.m = "new_ec2_priv_key" ->
         [EmptyKey EXCEPT !.kty = Assigned("KeyType", "EC2"),
            !.params = << <<Neg2I(1), CurveVal(e.crv)>>, <<Neg2I(2), Bs(e.kx)>>, <<Neg2I(3), Bs(e.ky)>>, <<Neg2I(4), Bs(e.kd)>> >>]
    [] e.m = "new_symmetric_key" ->
         [EmptyKey EXCEPT !.kty = Assigned("KeyType", "Symmetric"), !.params = << <<Neg2I(1), Bs(e.kk)>> >>]
    [] e.m = "new_okp_key" -> [EmptyKey EXCEPT !.kty = Assigned("KeyType", "OKP")]

ApplyClaims(st, e) ==
  CASE e.m = "issuer" -> St([st EXCEPT !.iss = <<e.txt>>])
    [] e.m = "subject" -> St([st EXCEPT !.sub = <<e.txt>>])
    [] e.m = "audience" -> St([st EXCEPT !.aud = <<e.txt>>])
    [] e.m = "expiration_time" -> St([st EXCEPT !.exp = <<e.ts>>])
    [] e.m = "not_before" -> St([st EXCEPT !.nbf = <<e.ts>>])
    [] e.m = "issued_at" -> St([st EXCEPT !.iat = <<e.ts>>])
    [] e.m = "cwt_id" -> St([st EXCEPT !.cti = <<e.bytes>>])
    [] e.m = "claim" -> IF ValueOfName("CwtClaimName", e.nm) \in 1..7 THEN BPanic
                        ELSE St([st EXCEPT !.rest = Append(@, <<Assigned("CwtClaimName", e.nm), e.val>>)])
    [] e.m = "text_claim" -> St([st EXCEPT !.rest = Append(@, <<TextL(e.txt), e.val>>)])
    [] e.m = "private_claim" -> IF ~IsPrivateInt(e.z) THEN BPanic
                                ELSE St([st EXCEPT !.rest = Append(@, <<Priv(e.z), e.val>>)])

ApplyParty(st, e) ==
  CASE e.m = "identity" -> St([st EXCEPT !.identity = <<e.bytes>>])
    [] e.m = "nonce" -> St([st EXCEPT !.nonce = <<e.nonce>>])
    [] e.m = "other" -> St([st EXCEPT !.other = <<e.bytes>>])

ApplySuppPub(st, e) ==
  CASE e.m = "key_data_length" -> St([st EXCEPT !.kdl = e.z])
    [] e.m = "protected" -> St([st EXCEPT !.prot = BuiltProt(e.hdr)])
    [] e.m = "other" -> St([st EXCEPT !.other = <<e.bytes>>])

ApplyKdf(st, e) ==
  CASE e.m = "party_u_info" -> St([st EXCEPT !.pu = e.party])
    [] e.m = "party_v_info" -> St([st EXCEPT !.pv = e.party])
    [] e.m = "supp_pub_info" -> St([st EXCEPT !.pub = e.spi])
    [] e.m = "algorithm" -> St([st EXCEPT !.alg = Assigned("Algorithm", e.nm)])
    [] e.m = "add_supp_priv_info" -> St([st EXCEPT !.priv = Append(@, e.bytes)])

Apply(ty, st, e) ==
  CASE ty = "Header" -> ApplyHeader(st, e)
    [] ty = "CoseSignature" -> ApplySignature(st, e)
    [] ty = "CoseSign" -> ApplySign(st, e)
    [] ty = "CoseSign1" -> ApplySign1(st, e)
    [] ty \in {"CoseMac", "CoseMac0"} -> ApplyMacLike(ty, st, e)
    [] ty \in {"CoseEncrypt", "CoseEncrypt0", "CoseRecipient"} -> ApplyEncLike(ty, st, e)
    [] ty = "CoseKey" -> ApplyKey(st, e)
    [] ty = "ClaimsSet" -> ApplyClaims(st, e)
    [] ty = "PartyInfo" -> ApplyParty(st, e)
    [] ty = "SuppPubInfo" -> ApplySuppPub(st, e)
    [] ty = "CoseKdfContext" -> ApplyKdf(st, e)
=============================================================================

-------------------------------- MODULE Cbor --------------------------------
(***************************************************************************)
(* CBOR data model (RFC 8949) as used by google/coset through ciborium     *)
(* 0.2.2: values, the deterministic encoder Enc, encoding variants, and a  *)
(* byte-level parser Parse that follows RFC 8949 Appendix C with the named *)
(* deviations of ciborium (see DESIGN.md section 5).                       *)
(*                                                                         *)
(* Integers are NOT TLC integers (32 bit) but (neg, mag): value = mag or   *)
(* -1-mag, mag a big-endian byte sequence without leading zero bytes.      *)
(* Every kind uses its own payload field name (TLC compares record fields  *)
(* in intern order, heterogeneous records must not share a field name).    *)
(***************************************************************************)
EXTENDS Integers, Sequences, FiniteSets, TLC

Byte == 0..255

(* ---------- constructors ---------- *)
I(neg, mag)  == [t |-> "int", neg |-> neg, mag |-> mag]
Bs(b)        == [t |-> "bytes", b |-> b]
Tx(s)        == [t |-> "text", s |-> s]
Arr(a)       == [t |-> "array", a |-> a]
Map(m)       == [t |-> "map", m |-> m]      \* m : Seq(<<key, value>>)
Tag(tg, x)   == [t |-> "tag", tag |-> tg, x |-> x]   \* tg : magnitude bytes
Bool(v)      == [t |-> "bool", bool |-> v]
Nil          == [t |-> "null"]
Flt(bits)    == [t |-> "float", bits |-> bits]   \* 8 bytes of the f64

IsInt(v)   == v.t = "int"
IsBytes(v) == v.t = "bytes"
IsText(v)  == v.t = "text"
IsArr(v)   == v.t = "array"
IsMap(v)   == v.t = "map"
IsTag(v)   == v.t = "tag"

(* ---------- small sequence helpers ---------- *)
RECURSIVE Cat(_)
Cat(ss) == IF ss = <<>> THEN <<>> ELSE Head(ss) \o Cat(Tail(ss))

SeqOf(n, x) == [i \in 1..n |-> x]

Last(s) == s[Len(s)]

(* sub-sequence s[a..b] with empty result when b < a *)
Slice(s, a, b) == IF b < a THEN <<>> ELSE SubSeq(s, a, b)

(* ---------- magnitudes ---------- *)
RECURSIVE StripZeros(_)
StripZeros(m) == IF m # <<>> /\ m[1] = 0 THEN StripZeros(Tail(m)) ELSE m

RECURSIVE MagOfNat(_)
MagOfNat(n) == IF n = 0 THEN <<>> ELSE MagOfNat(n \div 256) \o <<n % 256>>

RECURSIVE NatOfAcc(_, _)
NatOfAcc(m, acc) == IF m = <<>> THEN acc ELSE NatOfAcc(Tail(m), acc * 256 + m[1])
NatOf(m) == NatOfAcc(m, 0)      \* only for Len(m) <= 3

(* unsigned comparison of magnitudes: -1, 0, 1 *)
RECURSIVE LexCmp(_, _)
LexCmp(a, b) ==
  IF a = <<>> THEN (IF b = <<>> THEN 0 ELSE -1)
  ELSE IF b = <<>> THEN 1
  ELSE IF a[1] < b[1] THEN -1
  ELSE IF a[1] > b[1] THEN 1
  ELSE LexCmp(Tail(a), Tail(b))

MagCmp(a, b) == IF Len(a) < Len(b) THEN -1 ELSE IF Len(a) > Len(b) THEN 1 ELSE LexCmp(a, b)

LenFirstCmp(a, b) == MagCmp(a, b)   \* same rule on arbitrary byte strings: length, then bytes

(* mag < 2^63 : what an i64 can hold, for both signs (value = mag or -1-mag) *)
FitsI64Mag(m) == Len(m) < 8 \/ (Len(m) = 8 /\ m[1] < 128)
FitsU64Mag(m) == Len(m) <= 8
IntFitsI64(v) == FitsI64Mag(v.mag)
IntFitsU64(v) == ~v.neg /\ FitsU64Mag(v.mag)
(* CBOR's own integer range [-2^64, 2^64-1] *)
IntInCbor(v) == Len(v.mag) <= 8

Nat2I(n) == I(FALSE, MagOfNat(n))
Neg2I(n) == I(TRUE, MagOfNat(n - 1))     \* the integer -n, n >= 1
Z2I(z)  == IF z >= 0 THEN Nat2I(z) ELSE Neg2I(0 - z)

(* small signed value of an int record, only when Len(mag) <= 3 *)
SmallZ(v) == IF v.neg THEN 0 - 1 - NatOf(v.mag) ELSE NatOf(v.mag)
IsSmall(v) == Len(v.mag) <= 3

(* n < -65536  <=>  neg /\ mag >= 65536  <=>  neg /\ Len(mag) >= 3 *)
IsPrivateInt(v) == v.neg /\ Len(v.mag) >= 3

(* ---------- heads ---------- *)
PadTo(m, n) == SeqOf(n - Len(m), 0) \o m

(* shortest head for major type mj and argument magnitude m (Len(m) <= 8) *)
Hd(mj, m) ==
  IF Len(m) = 0 THEN <<mj * 32>>
  ELSE IF Len(m) = 1 /\ m[1] < 24 THEN <<mj * 32 + m[1]>>
  ELSE IF Len(m) = 1 THEN <<mj * 32 + 24>> \o m
  ELSE IF Len(m) = 2 THEN <<mj * 32 + 25>> \o m
  ELSE IF Len(m) <= 4 THEN <<mj * 32 + 26>> \o PadTo(m, 4)
  ELSE <<mj * 32 + 27>> \o PadTo(m, 8)

(* head with an explicitly chosen width w \in {0,1,2,4,8}; 0 = immediate *)
HdW(mj, m, w) ==
  IF w = 0 THEN <<mj * 32 + (IF m = <<>> THEN 0 ELSE m[1])>>
  ELSE <<mj * 32 + (CASE w = 1 -> 24 [] w = 2 -> 25 [] w = 4 -> 26 [] w = 8 -> 27)>> \o PadTo(m, w)

(* the widths that can hold magnitude m *)
WidthsFor(m) ==
  {w \in {0, 1, 2, 4, 8} :
      IF w = 0 THEN Len(m) = 0 \/ (Len(m) = 1 /\ m[1] < 24) ELSE Len(m) <= w}

MinWidth(m) == CHOOSE w \in WidthsFor(m) : \A u \in WidthsFor(m) : w <= u

(* ---------- floats: binary16 / binary32 / binary64 as bit patterns ---------- *)
(* A float VALUE is its binary64 pattern (8 bytes).  ciborium widens a received f16 / f32 to f64   *)
(* (half::f16 -> f64 and `as f64`; a signalling NaN comes out quiet) and emits the shortest of     *)
(* f16 / f32 / f64 whose widening gives back exactly the same 64 bits.  Everything is computed on  *)
(* bytes: sign s, biased exponent E (11 bits), and the TOP 28 bits of the 52-bit fraction -- every *)
(* pattern that f16 or f32 can express has the low 24 fraction bits zero.                          *)
Pow2(n) == 2^n
HiBit(m) == CHOOSE p \in 0..30 : Pow2(p) <= m /\ m < Pow2(p + 1)
F64Of(s, E, top28) == << s * 128 + E \div 16, (E % 16) * 16 + top28 \div 16777216, (top28 \div 65536) % 256,
                         (top28 \div 256) % 256, top28 % 256, 0, 0, 0 >>
Widen16(h) ==
  LET s == h[1] \div 128  e == (h[1] % 128) \div 4  m == (h[1] % 4) * 256 + h[2] IN
  IF e = 0 THEN (IF m = 0 THEN F64Of(s, 0, 0)
                 ELSE LET p == HiBit(m) IN F64Of(s, 999 + p, (m - Pow2(p)) * Pow2(28 - p)))       \* subnormal: m * 2^-24
  ELSE IF e = 31 THEN F64Of(s, 2047, IF m = 0 THEN 0 ELSE ((m % 512) + 512) * Pow2(18))            \* inf / NaN (quiet bit set)
  ELSE F64Of(s, e + 1008, m * Pow2(18))
Widen32(x) ==
  LET s == x[1] \div 128  e == (x[1] % 128) * 2 + x[2] \div 128  f == (x[2] % 128) * 65536 + x[3] * 256 + x[4] IN
  IF e = 0 THEN (IF f = 0 THEN F64Of(s, 0, 0)
                 ELSE LET p == HiBit(f) IN F64Of(s, 874 + p, (f - Pow2(p)) * Pow2(28 - p)))       \* subnormal: f * 2^-149
  ELSE IF e = 255 THEN F64Of(s, 2047, IF f = 0 THEN 0 ELSE ((f % 4194304) + 4194304) * 32)
  ELSE F64Of(s, e + 896, f * 32)

H16(s, e, m) == << s * 128 + e * 4 + m \div 256, m % 256 >>
F32(s, e, f) == << s * 128 + e \div 2, (e % 2) * 128 + f \div 65536, (f \div 256) % 256, f % 256 >>
(* <<h>> if some f16 / f32 widens to exactly these 64 bits, <<>> otherwise *)
Shrink16(b) ==
  LET s == b[1] \div 128  E == (b[1] % 128) * 16 + b[2] \div 16
      top28 == (b[2] % 16) * 16777216 + b[3] * 65536 + b[4] * 256 + b[5] IN
  IF b[6] # 0 \/ b[7] # 0 \/ b[8] # 0 THEN <<>>
  ELSE IF E = 0 THEN (IF top28 = 0 THEN <<H16(s, 0, 0)>> ELSE <<>>)
  ELSE IF E = 2047 THEN (IF top28 % Pow2(18) # 0 THEN <<>>
                         ELSE LET m == top28 \div Pow2(18) IN IF m = 0 \/ m >= 512 THEN <<H16(s, 31, m)>> ELSE <<>>)
  ELSE IF E >= 1009 /\ E <= 1038 THEN (IF top28 % Pow2(18) = 0 THEN <<H16(s, E - 1008, top28 \div Pow2(18))>> ELSE <<>>)
  ELSE IF E >= 999 /\ E <= 1008 THEN LET p == E - 999 IN
         (IF top28 % Pow2(28 - p) = 0 THEN <<H16(s, 0, Pow2(p) + top28 \div Pow2(28 - p))>> ELSE <<>>)
  ELSE <<>>
Shrink32(b) ==
  LET s == b[1] \div 128  E == (b[1] % 128) * 16 + b[2] \div 16
      top28 == (b[2] % 16) * 16777216 + b[3] * 65536 + b[4] * 256 + b[5] IN
  IF b[6] # 0 \/ b[7] # 0 \/ b[8] # 0 THEN <<>>
  ELSE IF E = 0 THEN (IF top28 = 0 THEN <<F32(s, 0, 0)>> ELSE <<>>)
  ELSE IF E = 2047 THEN (IF top28 % 32 # 0 THEN <<>>
                         ELSE LET f == top28 \div 32 IN IF f = 0 \/ f >= 4194304 THEN <<F32(s, 255, f)>> ELSE <<>>)
  ELSE IF E >= 897 /\ E <= 1150 THEN (IF top28 % 32 = 0 THEN <<F32(s, E - 896, top28 \div 32)>> ELSE <<>>)
  ELSE IF E >= 874 /\ E <= 896 THEN LET p == E - 874 IN
         (IF top28 % Pow2(28 - p) = 0 THEN <<F32(s, 0, Pow2(p) + top28 \div Pow2(28 - p))>> ELSE <<>>)
  ELSE <<>>
EncFloat(bits) ==
  LET h == Shrink16(bits) IN
  IF h # <<>> THEN <<249>> \o h[1]
  ELSE LET x == Shrink32(bits) IN IF x # <<>> THEN <<250>> \o x[1] ELSE <<251>> \o bits
IsNaN(bits) == (bits[1] % 128) * 16 + bits[2] \div 16 = 2047 /\ (bits[2] % 16 # 0 \/ \E k \in 3..8 : bits[k] # 0)

(* ---------- deterministic encoder ---------- *)
RECURSIVE Enc(_)
RECURSIVE EncSeq(_)
RECURSIVE EncPairs(_)
EncSeq(a) == IF a = <<>> THEN <<>> ELSE Enc(a[1]) \o EncSeq(Tail(a))
EncPairs(m) == IF m = <<>> THEN <<>> ELSE Enc(m[1][1]) \o Enc(m[1][2]) \o EncPairs(Tail(m))
Enc(v) ==
  CASE v.t = "int"   -> Hd(IF v.neg THEN 1 ELSE 0, v.mag)
    [] v.t = "bytes" -> Hd(2, MagOfNat(Len(v.b))) \o v.b
    [] v.t = "text"  -> Hd(3, MagOfNat(Len(v.s))) \o v.s
    [] v.t = "array" -> Hd(4, MagOfNat(Len(v.a))) \o EncSeq(v.a)
    [] v.t = "map"   -> Hd(5, MagOfNat(Len(v.m))) \o EncPairs(v.m)
    [] v.t = "tag"   -> Hd(6, v.tag) \o Enc(v.x)
    [] v.t = "bool"  -> <<IF v.bool THEN 245 ELSE 244>>
    [] v.t = "null"  -> <<246>>
    [] v.t = "float" -> EncFloat(v.bits)

(* ---------- UTF-8 (what core::str::from_utf8 accepts) ---------- *)
InR(x, lo, hi) == lo <= x /\ x <= hi
(* Utf8UpTo(s, i) = the number of leading bytes of s that form complete, valid characters (scanning from i);  *)
(* it is what Utf8Error::valid_up_to() reports                                                              *)
RECURSIVE Utf8UpTo(_, _)
Utf8UpTo(s, i) ==
  IF i > Len(s) THEN Len(s)
  ELSE LET c == s[i] n == Len(s) IN
    IF c < 128 THEN Utf8UpTo(s, i + 1)
    ELSE IF InR(c, 194, 223) THEN (IF i + 1 <= n /\ InR(s[i+1], 128, 191) THEN Utf8UpTo(s, i + 2) ELSE i - 1)
    ELSE IF c = 224 THEN (IF i + 2 <= n /\ InR(s[i+1], 160, 191) /\ InR(s[i+2], 128, 191) THEN Utf8UpTo(s, i + 3) ELSE i - 1)
    ELSE IF InR(c, 225, 236) \/ InR(c, 238, 239)
         THEN (IF i + 2 <= n /\ InR(s[i+1], 128, 191) /\ InR(s[i+2], 128, 191) THEN Utf8UpTo(s, i + 3) ELSE i - 1)
    ELSE IF c = 237 THEN (IF i + 2 <= n /\ InR(s[i+1], 128, 159) /\ InR(s[i+2], 128, 191) THEN Utf8UpTo(s, i + 3) ELSE i - 1)
    ELSE IF c = 240 THEN (IF i + 3 <= n /\ InR(s[i+1], 144, 191) /\ InR(s[i+2], 128, 191) /\ InR(s[i+3], 128, 191) THEN Utf8UpTo(s, i + 4) ELSE i - 1)
    ELSE IF InR(c, 241, 243) THEN (IF i + 3 <= n /\ InR(s[i+1], 128, 191) /\ InR(s[i+2], 128, 191) /\ InR(s[i+3], 128, 191) THEN Utf8UpTo(s, i + 4) ELSE i - 1)
    ELSE IF c = 244 THEN (IF i + 3 <= n /\ InR(s[i+1], 128, 143) /\ InR(s[i+2], 128, 191) /\ InR(s[i+3], 128, 191) THEN Utf8UpTo(s, i + 4) ELSE i - 1)
    ELSE i - 1
Utf8Valid(s) == Utf8UpTo(s, 1) = Len(s)

(* ---------- parser ---------- *)
(* Results: [ok |-> TRUE, v |-> value, n |-> index after the item]          *)
(*          [ok |-> FALSE, why |-> "eof" | "syntax" | "depth" | "semantic", *)
(*           gap |-> BOOLEAN]   gap = inside a zone the model leaves open   *)
(* (no such zone is left: floats are modelled arithmetically, texts longer  *)
(* than ciborium's 4096-byte scratch buffer behave like short ones --       *)
(* MC_Float and MC_LongText bind both to ciborium; the flag is kept so that *)
(* a future open zone needs no new plumbing)                                *)
Fail(why) == [ok |-> FALSE, why |-> why, gap |-> FALSE]
GapFail   == [ok |-> FALSE, why |-> "gap", gap |-> TRUE]
Ok(v, n)  == [ok |-> TRUE, v |-> v, n |-> n]

DepthLimit == 256
ScratchLen == 4096

(* head at index i: [ok, mj, ai, arg (stripped magnitude), n (index after head)] *)
ReadHead(b, i) ==
  IF i > Len(b) THEN Fail("eof")
  ELSE LET ib == b[i] mj == ib \div 32 ai == ib % 32 IN
    IF ai < 24 THEN [ok |-> TRUE, mj |-> mj, ai |-> ai, arg |-> MagOfNat(ai), raw |-> <<>>, n |-> i + 1]
    ELSE IF ai = 31 THEN [ok |-> TRUE, mj |-> mj, ai |-> ai, arg |-> <<>>, raw |-> <<>>, n |-> i + 1]
    ELSE IF ai > 27 THEN Fail("syntax")
    ELSE LET w == CASE ai = 24 -> 1 [] ai = 25 -> 2 [] ai = 26 -> 4 [] ai = 27 -> 8 IN
      IF i + w > Len(b) THEN Fail("eof")
      ELSE [ok |-> TRUE, mj |-> mj, ai |-> ai, arg |-> StripZeros(SubSeq(b, i + 1, i + w)),
            raw |-> SubSeq(b, i + 1, i + w), n |-> i + 1 + w]

(* A declared length as a TLC number, or -1 when it certainly exceeds any input we handle *)
LenOf(arg) == IF Len(arg) <= 3 THEN NatOf(arg) ELSE 0 - 1

(* ciborium reads a text segment that does not fit its 4096-byte scratch buffer -- and EVERY chunk of an indefinite-length    *)
(* text -- in pulls of at most ScratchLen bytes (ciborium-ll Segment::pull with the Text parser): each pull first needs its   *)
(* bytes to be there (else end of input), then validates them; an invalid tail of at most 3 bytes is carried into the next    *)
(* pull (it may be a character cut by the pull boundary), a longer one is a syntax error, and so is a tail left at the end.   *)
(* The outcome is "valid iff the whole segment is valid UTF-8"; what the pulls decide is which failure a TRUNCATED input with *)
(* an invalid byte gets.  TextPulls(b, start, unread, stored) = "ok" | "eof" | "syntax"                                       *)
RECURSIVE TextPulls(_, _, _, _)
TextPulls(b, start, unread, stored) ==
  IF unread = 0 THEN (IF stored = <<>> THEN "ok" ELSE "syntax")
  ELSE LET size == IF Len(stored) + unread < ScratchLen THEN Len(stored) + unread ELSE ScratchLen
           need == size - Len(stored) IN
    IF start + need - 1 > Len(b) THEN "eof"
    ELSE LET data == stored \o Slice(b, start, start + need - 1)
             v == Utf8UpTo(data, 1)
             inv == Len(data) - v IN
      IF inv > 3 THEN "syntax"
      ELSE TextPulls(b, start + need, unread - need, IF inv = 0 THEN <<>> ELSE Slice(data, v + 1, Len(data)))

RECURSIVE ParseItem(_, _, _)
RECURSIVE ParseElems(_, _, _, _, _)
RECURSIVE ParseIndefElems(_, _, _, _)
RECURSIVE ParsePairs(_, _, _, _, _)
RECURSIVE ParseIndefPairs(_, _, _, _)
RECURSIVE ParseChunks(_, _, _, _, _)

(* chunks of an indefinite string of major type mj, starting at index i; nested = the *)
(* ciborium Segments nesting counter (>= 1); acc = bytes gathered so far.             *)
ParseChunks(b, i, mj, nested, acc) ==
  LET h == ReadHead(b, i) IN
  IF ~h.ok THEN h
  ELSE IF h.mj = 7 /\ h.ai = 31 THEN          \* break
    IF nested = 1 THEN Ok(acc, h.n) ELSE ParseChunks(b, h.n, mj, nested - 1, acc)
  ELSE IF h.mj # mj THEN Fail("syntax")
  ELSE IF h.ai = 31 THEN ParseChunks(b, h.n, mj, nested + 1, acc)   \* NestedIndefiniteChunks
  ELSE LET len == LenOf(h.arg) IN
    IF mj = 3 THEN
      (LET t == TextPulls(b, h.n, IF len < 0 THEN 16777216 ELSE len, <<>>) IN      \* per chunk, pull by pull
       IF t # "ok" THEN Fail(t)
       ELSE ParseChunks(b, h.n + len, mj, nested, acc \o Slice(b, h.n, h.n + len - 1)))
    ELSE IF len < 0 \/ h.n + len - 1 > Len(b) THEN Fail("eof")
    ELSE ParseChunks(b, h.n + len, mj, nested, acc \o Slice(b, h.n, h.n + len - 1))

ParseElems(b, i, k, d, acc) ==
  IF k = 0 THEN Ok(acc, i)
  ELSE LET r == ParseItem(b, i, d) IN
    IF ~r.ok THEN r ELSE ParseElems(b, r.n, k - 1, d, Append(acc, r.v))

ParseIndefElems(b, i, d, acc) ==
  IF i > Len(b) THEN Fail("eof")
  ELSE IF b[i] = 255 THEN Ok(acc, i + 1)
  ELSE LET r == ParseItem(b, i, d) IN
    IF ~r.ok THEN r ELSE ParseIndefElems(b, r.n, d, Append(acc, r.v))

ParsePairs(b, i, k, d, acc) ==
  IF k = 0 THEN Ok(acc, i)
  ELSE LET rk == ParseItem(b, i, d) IN
    IF ~rk.ok THEN rk
    ELSE LET rv == ParseItem(b, rk.n, d) IN
      IF ~rv.ok THEN rv ELSE ParsePairs(b, rv.n, k - 1, d, Append(acc, <<rk.v, rv.v>>))

ParseIndefPairs(b, i, d, acc) ==
  IF i > Len(b) THEN Fail("eof")
  ELSE IF b[i] = 255 THEN Ok(acc, i + 1)
  ELSE LET rk == ParseItem(b, i, d) IN
    IF ~rk.ok THEN rk
    ELSE LET rv == ParseItem(b, rk.n, d) IN
      IF ~rv.ok THEN rv ELSE ParseIndefPairs(b, rv.n, d, Append(acc, <<rk.v, rv.v>>))

(* tag 2/3 on a definite bstr of declared length <= 16: BignumIsInteger *)
BignumOf(neg, bytes) ==
  LET m == StripZeros(bytes) IN
  IF Len(m) <= 8 THEN [ok |-> TRUE, v |-> I(neg, m)]
  ELSE IF neg /\ Len(m) = 16 /\ m[1] >= 128 THEN [ok |-> FALSE]        \* "integer too large"
  ELSE [ok |-> TRUE, v |-> Tag(IF neg THEN <<3>> ELSE <<2>>, Bs(m))]

ParseItem(b, i, d) ==
  LET h == ReadHead(b, i) IN
  IF ~h.ok THEN h
  ELSE
  CASE h.mj = 0 -> IF h.ai = 31 THEN Fail("syntax") ELSE Ok(I(FALSE, h.arg), h.n)
    [] h.mj = 1 -> IF h.ai = 31 THEN Fail("syntax") ELSE Ok(I(TRUE, h.arg), h.n)
    [] h.mj \in {2, 3} ->
         IF h.ai = 31 THEN
           LET r == ParseChunks(b, h.n, h.mj, 1, <<>>) IN
           IF ~r.ok THEN r ELSE Ok(IF h.mj = 2 THEN Bs(r.v) ELSE Tx(r.v), r.n)
         ELSE LET len == LenOf(h.arg) IN
           IF h.mj = 3 /\ (len < 0 \/ len > ScratchLen) THEN          \* a text that does not fit the scratch buffer is streamed
             (LET t == TextPulls(b, h.n, IF len < 0 THEN 16777216 ELSE len, <<>>) IN
              IF t # "ok" THEN Fail(t) ELSE Ok(Tx(Slice(b, h.n, h.n + len - 1)), h.n + len))
           ELSE IF len < 0 \/ h.n + len - 1 > Len(b) THEN Fail("eof")
           ELSE LET s == Slice(b, h.n, h.n + len - 1) IN
             IF h.mj = 2 THEN Ok(Bs(s), h.n + len)
             ELSE IF Utf8Valid(s) THEN Ok(Tx(s), h.n + len) ELSE Fail("syntax")
    [] h.mj = 4 ->
         IF d = 0 THEN Fail("depth")
         ELSE IF h.ai = 31 THEN
           LET r == ParseIndefElems(b, h.n, d - 1, <<>>) IN IF ~r.ok THEN r ELSE Ok(Arr(r.v), r.n)
         ELSE LET k == LenOf(h.arg) IN       \* k < 0: more elements than any input holds -- the element loop runs into the end (or an earlier fault)
           LET r == ParseElems(b, h.n, k, d - 1, <<>>) IN IF ~r.ok THEN r ELSE Ok(Arr(r.v), r.n)
    [] h.mj = 5 ->
         IF d = 0 THEN Fail("depth")
         ELSE IF h.ai = 31 THEN
           LET r == ParseIndefPairs(b, h.n, d - 1, <<>>) IN IF ~r.ok THEN r ELSE Ok(Map(r.v), r.n)
         ELSE LET k == LenOf(h.arg) IN
           LET r == ParsePairs(b, h.n, k, d - 1, <<>>) IN IF ~r.ok THEN r ELSE Ok(Map(r.v), r.n)
    [] h.mj = 6 ->
         IF h.ai = 31 THEN Fail("syntax")
         ELSE LET h2 == ReadHead(b, h.n) IN
           IF ~h2.ok THEN h2
           ELSE IF h.arg \in {<<2>>, <<3>>} /\ h2.mj = 2 /\ h2.ai # 31 /\ Len(h2.arg) <= 1
                   /\ LenOf(h2.arg) <= 16 THEN
             LET len == LenOf(h2.arg) IN
             IF h2.n + len - 1 > Len(b) THEN Fail("eof")
             ELSE LET bn == BignumOf(h.arg = <<3>>, Slice(b, h2.n, h2.n + len - 1)) IN
               IF bn.ok THEN Ok(bn.v, h2.n + len) ELSE Fail("semantic")
           ELSE IF d = 0 THEN Fail("depth")
           ELSE LET r == ParseItem(b, h.n, d - 1) IN
             IF ~r.ok THEN r ELSE Ok(Tag(h.arg, r.v), r.n)
    [] h.mj = 7 ->
         IF h.ai = 20 THEN Ok(Bool(FALSE), h.n)
         ELSE IF h.ai = 21 THEN Ok(Bool(TRUE), h.n)
         ELSE IF h.ai \in {22, 23} THEN Ok(Nil, h.n)                 \* UndefinedIsNull
         ELSE IF h.ai < 24 THEN Fail("semantic")                     \* OnlyKnownSimple
         ELSE IF h.ai = 24 THEN                                      \* TwoByteSimple20to23
           (IF h.raw[1] = 20 THEN Ok(Bool(FALSE), h.n)
            ELSE IF h.raw[1] = 21 THEN Ok(Bool(TRUE), h.n)
            ELSE IF h.raw[1] \in {22, 23} THEN Ok(Nil, h.n)
            ELSE Fail("semantic"))
         ELSE IF h.ai = 25 THEN Ok(Flt(Widen16(h.raw)), h.n)
         ELSE IF h.ai = 26 THEN Ok(Flt(Widen32(h.raw)), h.n)
         ELSE IF h.ai = 27 THEN Ok(Flt(h.raw), h.n)
         ELSE Fail("semantic")                                       \* lone break

(* one complete item starting at 1; n = index after it *)
Parse(b) == ParseItem(b, 1, DepthLimit)

(* what coset's read_to_value does: exactly one item *)
ReadToValue(b) ==
  LET r == Parse(b) IN
  IF ~r.ok THEN [ok |-> FALSE, err |-> "DecodeFailed", gap |-> r.gap]
  ELSE IF r.n <= Len(b) THEN [ok |-> FALSE, err |-> "ExtraneousData", gap |-> FALSE]
  ELSE [ok |-> TRUE, v |-> r.v]

(* ---------- encoding variants (the adversary's re-encoding choices) ---------- *)
(* A variant descriptor mirrors the value's shape:                           *)
(*   int     : [w |-> width]                                                 *)
(*   bytes/text : [w |-> width of the length head] or [chunks |-> <<n1,..>>] *)
(*   array   : [w |-> width | "indef", e |-> <<variant of each element>>]    *)
(*   map     : [w |-> ..., e |-> << <<kvar, vvar>> ... >>]                   *)
(*   tag     : [w |-> width, e |-> variant of content]                       *)
(*   others  : [w |-> 0]                                                     *)
(* EncV(v, var) is total for well-shaped descriptors.  Rather than enumerate *)
(* descriptors as data (exponential), the instances use the three uniform    *)
(* strategies below plus "one deviation at a time".                          *)

(* uniform strategy s:  "min" = Enc;  "w1","w2","w4","w8" = every head at least that wide;  *)
(* "indef" = every string/array/map indefinite (strings as one chunk);                    *)
(* "indef2" = indefinite, strings split into 1-byte-then-rest chunks                      *)
WMax(m, w) == LET mw == MinWidth(m) IN IF mw > w THEN mw ELSE w
StratW(s) == CASE s = "w1" -> 1 [] s = "w2" -> 2 [] s = "w4" -> 4 [] s = "w8" -> 8 [] OTHER -> 0

RECURSIVE EncS(_, _)
RECURSIVE EncSSeq(_, _)
RECURSIVE EncSPairs(_, _)
EncSSeq(a, s) == IF a = <<>> THEN <<>> ELSE EncS(a[1], s) \o EncSSeq(Tail(a), s)
EncSPairs(m, s) == IF m = <<>> THEN <<>> ELSE EncS(m[1][1], s) \o EncS(m[1][2], s) \o EncSPairs(Tail(m), s)
StrChunks(mj, bytes, s) ==
  IF s = "indef" \/ Len(bytes) < 2 THEN Hd(mj, MagOfNat(Len(bytes))) \o bytes
  ELSE Hd(mj, <<1>>) \o <<bytes[1]>> \o Hd(mj, MagOfNat(Len(bytes) - 1)) \o Tail(bytes)
EncS(v, s) ==
  IF s = "min" THEN Enc(v)
  ELSE IF s \in {"indef", "indef2"} THEN
    CASE v.t = "bytes" -> <<95>> \o StrChunks(2, v.b, s) \o <<255>>
      [] v.t = "text"  -> <<127>> \o (IF s = "indef2" /\ (Len(v.s) < 2 \/ ~Utf8Valid(<<v.s[1]>>)) THEN StrChunks(3, v.s, "indef") ELSE StrChunks(3, v.s, s)) \o <<255>>
      [] v.t = "array" -> <<159>> \o EncSSeq(v.a, s) \o <<255>>
      [] v.t = "map"   -> <<191>> \o EncSPairs(v.m, s) \o <<255>>
      [] v.t = "tag"   -> Hd(6, v.tag) \o EncS(v.x, s)
      [] OTHER -> Enc(v)
  ELSE LET w == StratW(s) IN
    CASE v.t = "int"   -> HdW(IF v.neg THEN 1 ELSE 0, v.mag, WMax(v.mag, w))
      [] v.t = "bytes" -> LET l == MagOfNat(Len(v.b)) IN HdW(2, l, WMax(l, w)) \o v.b
      [] v.t = "text"  -> LET l == MagOfNat(Len(v.s)) IN HdW(3, l, WMax(l, w)) \o v.s
      [] v.t = "array" -> LET l == MagOfNat(Len(v.a)) IN HdW(4, l, WMax(l, w)) \o EncSSeq(v.a, s)
      [] v.t = "map"   -> LET l == MagOfNat(Len(v.m)) IN HdW(5, l, WMax(l, w)) \o EncSPairs(v.m, s)
      [] v.t = "tag"   -> HdW(6, v.tag, WMax(v.tag, w)) \o EncS(v.x, s)
      [] OTHER -> Enc(v)

Strategies == {"min", "w1", "w2", "w4", "w8", "indef", "indef2"}

(* integers additionally have the bignum form: tag 2/3 on the (zero-padded) magnitude *)
EncBignum(v, pad) == Hd(6, IF v.neg THEN <<3>> ELSE <<2>>) \o Hd(2, MagOfNat(Len(v.mag) + pad)) \o SeqOf(pad, 0) \o v.mag

(* ---------- structural helpers used by the COSE layers ---------- *)
(* equality of data-model values is TLA+ equality of the records (encoding independent). *)

(* does the value contain (anywhere) tag 2/3 applied to a byte string of <= 16 bytes?       *)
(* Such a value cannot come out of Parse unless the wire used an indefinite-length bstr or  *)
(* a magnitude beyond 64 bits; it is the syntactic signature of known finding F7.           *)
RECURSIVE HasSmallBignumTag(_)
RECURSIVE AnySeq(_)
RECURSIVE AnyPairs(_)
AnySeq(a) == IF a = <<>> THEN FALSE ELSE HasSmallBignumTag(a[1]) \/ AnySeq(Tail(a))
AnyPairs(m) == IF m = <<>> THEN FALSE ELSE HasSmallBignumTag(m[1][1]) \/ HasSmallBignumTag(m[1][2]) \/ AnyPairs(Tail(m))
F7Bytes(tg, b) ==   \* a byte string under tag 2/3 that a definite-length encoding would have folded into an integer (or rejected)
  /\ Len(b) <= 16
  /\ \/ Len(StripZeros(b)) <= 8
     \/ (b # <<>> /\ b[1] = 0)
     \/ (tg = <<3>> /\ Len(b) = 16 /\ b[1] >= 128)
HasSmallBignumTag(v) ==
  CASE v.t = "tag" -> (v.tag \in {<<2>>, <<3>>} /\ v.x.t = "bytes" /\ F7Bytes(v.tag, v.x.b)) \/ HasSmallBignumTag(v.x)
    [] v.t = "array" -> AnySeq(v.a)
    [] v.t = "map" -> AnyPairs(v.m)
    [] OTHER -> FALSE
=============================================================================

INIT Init
NEXT Next

---- MODULE CborTest ----
EXTENDS Cbor, Json
Vals == { Nat2I(0), Nat2I(23), Nat2I(24), Nat2I(255), Nat2I(256), Nat2I(65536), Neg2I(1), Neg2I(7), Neg2I(65537),
          I(FALSE, <<255,255,255,255,255,255,255,255>>), I(TRUE, <<128,0,0,0,0,0,0,0>>),
          Bs(<<>>), Bs(<<1,2,3>>), Tx(<<97>>), Tx(<<>>), Tx(<<195,169,97>>), Arr(<<>>), Arr(<<Nat2I(1), Bs(<<9>>)>>),
          Map(<< <<Nat2I(1), Neg2I(7)>>, <<Tx(<<97>>), Arr(<<Nil, Bool(TRUE)>>)>> >>),
          Tag(<<18>>, Arr(<<Bs(<<>>)>>)), Tag(<<255,255,255,255,255,255,255,255>>, Nil), Flt(<<63,248,0,0,0,0,0,0>>), Flt(<<63,241,153,153,153,153,153,154>>),
          Tag(<<2>>, Bs(<<1,0,0,0,0,0,0,0,0>>)) }
ASSUME \A v \in Vals : \A s \in Strategies : LET r == ReadToValue(EncS(v, s)) IN
          (r.ok /\ r.v = v) \/ PrintT(<<"FAIL", v, s, EncS(v,s), r>>) = FALSE
ASSUME Enc(Map(<< <<Nat2I(1), Neg2I(7)>> >>)) = <<161, 1, 38>>
ASSUME Enc(Nat2I(65536)) = <<26, 0, 1, 0, 0>>
ASSUME ReadToValue(<<194, 65, 1>>).v = Nat2I(1)
ASSUME ReadToValue(<<194, 95, 65, 1, 255>>).v = Tag(<<2>>, Bs(<<1>>))
ASSUME ReadToValue(<<195, 73, 1,0,0,0,0,0,0,0,0>>).v = Tag(<<3>>, Bs(<<1,0,0,0,0,0,0,0,0>>))
ASSUME ReadToValue(<<1, 1>>).err = "ExtraneousData"
ASSUME ~ReadToValue(<<24>>).ok
ASSUME ~ReadToValue(<<97, 255>>).ok
ASSUME ReadToValue(<<247>>).v = Nil
ASSUME ReadToValue(<<248, 20>>).v = Bool(FALSE)
ASSUME ~ReadToValue(<<248, 32>>).ok
ASSUME ReadToValue(<<95, 95, 65, 7, 255, 65, 8, 255>>).v = Bs(<<7, 8>>)
ASSUME PrintT(ToJson(Map(<< <<Nat2I(1), Neg2I(7)>> >>)))
ASSUME PrintT(ToJson([a |-> [i \in 1..0 |-> 1], b |-> [i \in 1..2 |-> i]]))
VARIABLE x
Init == x = 0
Next == UNCHANGED x
====

-------------------------------- MODULE Cose --------------------------------
(***************************************************************************)
(* The lifecycle machine of DESIGN.md section 1.                           *)
(*                                                                         *)
(*   mem   the object the user holds: none, a builder, or a value          *)
(*   wire  the bytes in flight (at most one message)                       *)
(*   out   the observable outcome of the last call, including what the     *)
(*         caller-supplied closure was handed (cb) and returned (ret)      *)
(*                                                                         *)
(* One event = one public API call (or one act of the environment on the   *)
(* wire).  Step(s, e) is the transition function; the machine is           *)
(*      Next == \E e \in Enabled events : s' = Step(s, e)                  *)
(* MC instances choose the event palettes; trace validation replays the    *)
(* recorded events through the same Step.                                  *)
(***************************************************************************)
EXTENDS Builder

ValueTypes == MsgTypes \cup {"Header", "ProtectedHeader", "CoseKey", "CoseKeySet", "ClaimsSet", "PartyInfo", "SuppPubInfo",
                             "CoseKdfContext", "Label", "RegisteredLabel", "RegisteredLabelWithPrivate", "Timestamp", "Value"}

(* ---------- codec dispatch ---------- *)
FromCbor(ty, reg, v) ==
  CASE ty = "Header" -> Header_FromCbor(v)
    [] ty = "ProtectedHeader" -> ProtMap_FromCbor(v)
    [] ty \in MsgTypes -> Msg_FromCbor(ty, v)
    [] ty = "CoseKey" -> Key_FromCbor(v)
    [] ty = "CoseKeySet" -> KeySet_FromCbor(v)
    [] ty = "ClaimsSet" -> Claims_FromCbor(v)
    [] ty = "PartyInfo" -> Party_FromCbor(v)
    [] ty = "SuppPubInfo" -> SuppPub_FromCbor(v)
    [] ty = "CoseKdfContext" -> Kdf_FromCbor(v)
    [] ty = "Label" -> Label_FromCbor(v)
    [] ty = "RegisteredLabel" -> RegLabel_FromCbor(reg, v)
    [] ty = "RegisteredLabelWithPrivate" -> RegPriv_FromCbor(reg, v)
    [] ty = "Timestamp" -> Timestamp_FromCbor(v)
    [] ty = "Value" -> Good(v)

ToCbor(ty, x) ==
  CASE ty = "Header" -> Header_ToCbor(x)
    [] ty = "ProtectedHeader" -> ProtMap_ToCbor(x)
    [] ty \in MsgTypes -> Msg_ToCbor(ty, x)
    [] ty = "CoseKey" -> Key_ToCbor(x)
    [] ty = "CoseKeySet" -> KeySet_ToCbor(x)
    [] ty = "ClaimsSet" -> Claims_ToCbor(x)
    [] ty = "PartyInfo" -> Party_ToCbor(x)
    [] ty = "SuppPubInfo" -> SuppPub_ToCbor(x)
    [] ty = "CoseKdfContext" -> Kdf_ToCbor(x)
    [] ty = "Label" -> Good(x)
    [] ty \in {"RegisteredLabel", "RegisteredLabelWithPrivate"} -> Good(RegLabel_ToCbor(x))
    [] ty = "Timestamp" -> Good(Timestamp_ToCbor(x))
    [] ty = "Value" -> Good(x)

WF(ty, reg, v) ==
  CASE ty = "Header" -> Header_WF(v)
    [] ty = "ProtectedHeader" -> Header_WF(v)
    [] ty \in MsgTypes -> Msg_WF(ty, v)
    [] ty = "CoseKey" -> Key_WF(v)
    [] ty = "CoseKeySet" -> KeySet_WF(v)
    [] ty = "ClaimsSet" -> Claims_WF(v)
    [] ty = "PartyInfo" -> Party_WF(v)
    [] ty = "SuppPubInfo" -> SuppPub_WF(v)
    [] ty = "CoseKdfContext" -> Kdf_WF(v)
    [] ty = "Label" -> LabelOK(v)
    [] ty = "RegisteredLabel" -> LabelLike(reg, FALSE, v)
    [] ty = "RegisteredLabelWithPrivate" -> LabelLike(reg, TRUE, v)
    [] ty = "Timestamp" -> TimeOK(v)
    [] ty = "Value" -> TRUE

ValueOf(ty, reg, v) ==
  CASE ty = "Header" -> Header_ValueOf(v)
    [] ty = "ProtectedHeader" -> [orig |-> <<>>, hdr |-> Header_ValueOf(v)]
    [] ty \in MsgTypes -> Msg_ValueOf(ty, v)
    [] ty = "CoseKey" -> Key_ValueOf(v)
    [] ty = "CoseKeySet" -> KeySet_ValueOf(v)
    [] ty = "ClaimsSet" -> Claims_ValueOf(v)
    [] ty = "PartyInfo" -> Party_ValueOf(v)
    [] ty = "SuppPubInfo" -> SuppPub_ValueOf(v)
    [] ty = "CoseKdfContext" -> Kdf_ValueOf(v)
    [] ty = "Label" -> v
    [] ty \in {"RegisteredLabel", "RegisteredLabelWithPrivate"} -> LabelLikeValue(reg, v)
    [] ty = "Timestamp" -> TimeOf(v)
    [] ty = "Value" -> v

(* ---------- byte-level entry points (CborSerializable / TaggedCborSerializable) ---------- *)
GapOr(r) == IF r.gap THEN Err("GAP") ELSE Err(r.err)

FromSlice(ty, reg, b) ==
  LET r == ReadToValue(b) IN IF ~r.ok THEN GapOr(r) ELSE FromCbor(ty, reg, r.v)

FromTaggedSlice(ty, b) ==
  LET r == ReadToValue(b) IN
  IF ~r.ok THEN GapOr(r)
  ELSE IF r.v.t # "tag" THEN WrongType(r.v, "tag")
  ELSE IF r.v.tag # MagOfNat(TagOf(ty)) THEN Unexp("tag", "other tag")
  ELSE FromCbor(ty, "", r.v.x)

ToVec(ty, x) == LET r == ToCbor(ty, x) IN IF r.ok THEN Good(Enc(r.x)) ELSE r
ToTaggedVec(ty, x) == LET r == ToCbor(ty, x) IN IF r.ok THEN Good(Enc(Tag(MagOfNat(TagOf(ty)), r.x))) ELSE r

(* ---------- machine state ---------- *)
NoMem == [k |-> "none", ty |-> "", val |-> <<>>]
BuilderMem(ty, x) == [k |-> "builder", ty |-> ty, val |-> x]
ValueMem(ty, x) == [k |-> "value", ty |-> ty, val |-> x]

OutNone == [kind |-> "ok", err |-> "", bytes |-> <<>>, cb |-> <<>>, ret |-> <<>>, diag |-> <<>>]
OutOk == OutNone
OutErr(e) == [OutNone EXCEPT !.kind = "err", !.err = e]
OutErrOf(r) == [OutNone EXCEPT !.kind = "err", !.err = r.err, !.diag = DiagOf(r)]      \* r: a failed codec result
OutPanic == [OutNone EXCEPT !.kind = "panic"]
OutBytes(b) == [OutNone EXCEPT !.bytes = <<b>>]

InitState == [mem |-> NoMem, wire |-> <<>>, out |-> OutNone]

(* outcome of a helper that hands (stored, structure) to the caller's closure and returns its result *)
Handed(s, stored, structure, res) ==
  IF structure.kind = "panic" THEN [s EXCEPT !.out = OutPanic]
  ELSE [s EXCEPT !.out = [OutNone EXCEPT !.cb = <<stored, structure.bytes>>, !.ret = <<res>>]]

Queried(s, r) == IF r.kind = "panic" THEN [s EXCEPT !.out = OutPanic] ELSE [s EXCEPT !.out = OutBytes(r.bytes)]

Step(s, e) ==
  CASE e.ev = "lit"  -> [s EXCEPT !.mem = ValueMem(e.ty, e.x), !.out = OutOk]
    [] e.ev = "new"  -> [s EXCEPT !.mem = BuilderMem(e.ty, Default(e.ty)), !.out = OutOk]
    [] e.ev = "ctor" -> [s EXCEPT !.mem = BuilderMem("CoseKey", KeyCtor(e)), !.out = OutOk]
    [] e.ev = "call" ->
         LET r == Apply(s.mem.ty, s.mem.val, e) IN
         IF r.ok THEN [s EXCEPT !.mem.val = r.st, !.out = [OutNone EXCEPT !.cb = r.cb]]
         ELSE IF r.kind = "panic" THEN [s EXCEPT !.mem = NoMem, !.out = OutPanic]
         ELSE [s EXCEPT !.mem = NoMem, !.out = [OutErr("closure") EXCEPT !.cb = r.cb]]
    [] e.ev = "build" -> [s EXCEPT !.mem.k = "value", !.out = OutOk]
    [] e.ev = "encode" ->
         LET r == CASE e.api = "vec" -> ToVec(s.mem.ty, s.mem.val)
                    [] e.api = "tagged" -> ToTaggedVec(s.mem.ty, s.mem.val)
                    [] e.api = "bstr" -> (LET p == Prot_Bstr(s.mem.val) IN IF p.ok THEN Good(p.x.b) ELSE p) IN
         IF r.ok THEN [s EXCEPT !.wire = <<r.x>>, !.out = OutBytes(r.x)]
         ELSE [s EXCEPT !.out = OutErr(r.err)]
    [] e.ev = "inject" -> [s EXCEPT !.wire = <<e.bytes>>, !.out = OutOk]
    [] e.ev = "truncate" -> [s EXCEPT !.wire = <<Slice(s.wire[1], 1, e.n)>>, !.out = OutOk]
    [] e.ev = "append" -> [s EXCEPT !.wire = <<s.wire[1] \o e.bytes>>, !.out = OutOk]
    [] e.ev = "decode" ->
         LET r == CASE e.api = "slice" -> FromSlice(e.ty, e.reg, s.wire[1])
                    [] e.api = "tagged" -> FromTaggedSlice(e.ty, s.wire[1])
                    [] e.api = "bstr" -> Prot_FromBstr(Bs(s.wire[1])) IN
         IF r.ok THEN [s EXCEPT !.mem = ValueMem(e.ty, r.x), !.out = OutOk]
         ELSE [s EXCEPT !.mem = NoMem, !.out = OutErrOf(r)]
    [] e.ev = "decode_value" ->
         LET r == FromCbor(e.ty, e.reg, e.val) IN
         IF r.ok THEN [s EXCEPT !.mem = ValueMem(e.ty, r.x), !.out = OutOk]
         ELSE [s EXCEPT !.mem = NoMem, !.out = OutErrOf(r)]
    [] e.ev = "tbs" ->
         LET x == s.mem.val ty == s.mem.ty IN
         Queried(s, CASE ty = "CoseSign1" /\ e.m = "tbs_data" -> Sign1_Tbs(x, e.aad)
                      [] ty = "CoseSign1" /\ e.m = "tbs_detached_data" -> Sign1_TbsDetached(x, e.pl, e.aad)
                      [] ty = "CoseSign" /\ e.m = "tbs_data" -> Sign_Tbs(x, e.aad, x.sigs[e.which + 1])
                      [] ty = "CoseSign" /\ e.m = "tbs_detached_data" -> Sign_TbsDetached(x, e.pl, e.aad, x.sigs[e.which + 1]))
    [] e.ev = "verify" ->
         (LET x == s.mem.val ty == s.mem.ty IN
         CASE ty = "CoseSign1" /\ e.m = "verify_signature" -> Handed(s, x.sig, Sign1_Tbs(x, e.aad), e.res)
           [] ty = "CoseSign1" /\ e.m = "verify_detached_signature" -> Handed(s, x.sig, Sign1_TbsDetached(x, e.pl, e.aad), e.res)
           [] ty = "CoseSign" /\ e.m = "verify_signature" ->
                IF e.which >= Len(x.sigs) THEN [s EXCEPT !.out = OutPanic]
                ELSE Handed(s, x.sigs[e.which + 1].sig, Sign_Tbs(x, e.aad, x.sigs[e.which + 1]), e.res)
           [] ty = "CoseSign" /\ e.m = "verify_detached_signature" ->
                IF e.which >= Len(x.sigs) THEN [s EXCEPT !.out = OutPanic]
                ELSE Handed(s, x.sigs[e.which + 1].sig, Sign_TbsDetached(x, e.pl, e.aad, x.sigs[e.which + 1]), e.res)
           [] ty \in {"CoseMac", "CoseMac0"} /\ e.m = "verify_tag" -> Handed(s, x.tag, Mac_Tbm(ty, x, e.aad), e.res)
           [] ty \in {"CoseEncrypt", "CoseEncrypt0"} /\ e.m = "decrypt" ->
                IF x.cipher = <<>> THEN [s EXCEPT !.out = OutPanic]
                ELSE Handed(s, x.cipher[1], Enc_Aad(ty, x, e.aad), e.res)
           [] ty = "CoseRecipient" /\ e.m = "decrypt" ->
                IF x.cipher = <<>> THEN [s EXCEPT !.out = OutPanic]
                ELSE Handed(s, x.cipher[1], Recipient_Aad(x, e.ctx, e.aad), e.res))
    [] e.ev = "struct" ->
         Queried(s, CASE e.fn = "sig" -> SigStructure(e.ctx, e.body, e.signp, e.aad, e.pl)
                      [] e.fn = "mac" -> MacStructure(e.ctx, e.body, e.aad, e.pl)
                      [] e.fn = "enc" -> EncStructure(e.ctx, e.body, e.aad))
    [] e.ev = "focus" ->      \* the user picks a nested structure out of the value they hold (plain field access)
         (CASE e.f = "recip" -> [s EXCEPT !.mem = ValueMem("CoseRecipient", s.mem.val.recips[e.i + 1]), !.out = OutOk]
            [] e.f = "sig" -> [s EXCEPT !.mem = ValueMem("CoseSignature", s.mem.val.sigs[e.i + 1]), !.out = OutOk]
            [] e.f = "cs-unprot" -> [s EXCEPT !.mem = ValueMem("CoseSignature", s.mem.val.unprot.cs[e.i + 1]), !.out = OutOk]
            [] e.f = "cs-prot" -> [s EXCEPT !.mem = ValueMem("CoseSignature", s.mem.val.prot.hdr.cs[e.i + 1]), !.out = OutOk]
            [] e.f = "prot" -> [s EXCEPT !.mem = ValueMem("ProtectedHeader", s.mem.val.prot), !.out = OutOk]
            [] e.f = "pub" -> [s EXCEPT !.mem = ValueMem("SuppPubInfo", s.mem.val.pub), !.out = OutOk])
    [] e.ev = "canonicalize" -> [s EXCEPT !.mem.val = Key_Canonicalize(@, e.ord), !.out = OutOk]
    [] e.ev = "clone_eq" -> [s EXCEPT !.out = OutOk]

(* what the harness observes after a step: the outcome plus the projected value if one is held *)
Obs(s) == [kind |-> s.out.kind, err |-> s.out.err, diag |-> s.out.diag, bytes |-> s.out.bytes, cb |-> s.out.cb, ret |-> s.out.ret,
           val |-> IF s.mem.k = "value" THEN <<s.mem.val>> ELSE <<>>]

(* the documented panics (DESIGN.md Appendix B): the only panic outcomes the machine has *)
RECURSIVE Run(_, _)
Run(s, es) == IF es = <<>> THEN s ELSE Run(Step(s, es[1]), Tail(es))
RECURSIVE RunObs(_, _, _)
RunObs(s, es, acc) == IF es = <<>> THEN acc ELSE LET n == Step(s, es[1]) IN RunObs(n, Tail(es), Append(acc, Obs(n)))
=============================================================================

-------------------------------- MODULE Cwt --------------------------------
(***************************************************************************)
(* CWT ClaimsSet and Timestamp (src/cwt/mod.rs).                           *)
(***************************************************************************)
EXTENDS Label

EmptyClaims == [iss |-> <<>>, sub |-> <<>>, aud |-> <<>>, exp |-> <<>>, nbf |-> <<>>, iat |-> <<>>, cti |-> <<>>, rest |-> <<>>]

Whole(v) == [k |-> "whole", v |-> v]
Frac(bits) == [k |-> "frac", bits |-> bits]

Timestamp_FromCbor(v) ==
  IF v.t = "int" THEN (IF IntFitsI64(v) THEN Good(Whole(v)) ELSE Err("OutOfRangeIntegerValue"))
  ELSE IF v.t = "float" THEN Good(Frac(v.bits))
  ELSE WrongType(v, "int/float")
Timestamp_ToCbor(ts) == IF ts.k = "whole" THEN ts.v ELSE Flt(ts.bits)

ClaimIs(name, nm) == name = Assigned("CwtClaimName", nm)

ClaimStep(st, name, v) ==
  IF ClaimIs(name, "Iss") THEN (IF v.t = "text" THEN Good([st EXCEPT !.iss = <<v.s>>]) ELSE WrongType(v, "tstr"))
  ELSE IF ClaimIs(name, "Sub") THEN (IF v.t = "text" THEN Good([st EXCEPT !.sub = <<v.s>>]) ELSE WrongType(v, "tstr"))
  ELSE IF ClaimIs(name, "Aud") THEN (IF v.t = "text" THEN Good([st EXCEPT !.aud = <<v.s>>]) ELSE WrongType(v, "tstr"))
  ELSE IF ClaimIs(name, "Exp") THEN LET r == Timestamp_FromCbor(v) IN IF r.ok THEN Good([st EXCEPT !.exp = <<r.x>>]) ELSE r
  ELSE IF ClaimIs(name, "Nbf") THEN LET r == Timestamp_FromCbor(v) IN IF r.ok THEN Good([st EXCEPT !.nbf = <<r.x>>]) ELSE r
  ELSE IF ClaimIs(name, "Iat") THEN LET r == Timestamp_FromCbor(v) IN IF r.ok THEN Good([st EXCEPT !.iat = <<r.x>>]) ELSE r
  ELSE IF ClaimIs(name, "Cti") THEN (IF v.t = "bytes" THEN Good([st EXCEPT !.cti = <<v.b>>]) ELSE WrongType(v, "bstr"))
  ELSE Good([st EXCEPT !.rest = Append(@, <<name, v>>)])

RECURSIVE ClaimsFold(_, _, _)
ClaimsFold(m, st, seen) ==
  IF m = <<>> THEN Good(st)
  ELSE LET nr == RegPriv_FromCbor("CwtClaimName", m[1][1]) IN
    IF ~nr.ok THEN nr
    ELSE IF nr.x \in seen THEN Err("DuplicateMapKey")
    ELSE LET r == ClaimStep(st, nr.x, m[1][2]) IN
      IF ~r.ok THEN r ELSE ClaimsFold(Tail(m), r.x, seen \cup {nr.x})

Claims_FromCbor(v) == IF v.t # "map" THEN WrongType(v, "map") ELSE ClaimsFold(v.m, EmptyClaims, {})

(* encode: typed claims in registry order, then the extras as given -- NO duplicate check  *)
(* (known finding F4: the test suite itself pins "encoding succeeds" for a repeated claim) *)
ClaimKey(nm) == Z2I(ValueOfName("CwtClaimName", nm))
Claims_ToCbor(c) ==
  LET t1 == IF c.iss # <<>> THEN << <<ClaimKey("Iss"), Tx(c.iss[1])>> >> ELSE <<>>
      t2 == IF c.sub # <<>> THEN << <<ClaimKey("Sub"), Tx(c.sub[1])>> >> ELSE <<>>
      t3 == IF c.aud # <<>> THEN << <<ClaimKey("Aud"), Tx(c.aud[1])>> >> ELSE <<>>
      t4 == IF c.exp # <<>> THEN << <<ClaimKey("Exp"), Timestamp_ToCbor(c.exp[1])>> >> ELSE <<>>
      t5 == IF c.nbf # <<>> THEN << <<ClaimKey("Nbf"), Timestamp_ToCbor(c.nbf[1])>> >> ELSE <<>>
      t6 == IF c.iat # <<>> THEN << <<ClaimKey("Iat"), Timestamp_ToCbor(c.iat[1])>> >> ELSE <<>>
      t7 == IF c.cti # <<>> THEN << <<ClaimKey("Cti"), Bs(c.cti[1])>> >> ELSE <<>>
      rest == [i \in 1..Len(c.rest) |-> <<RegLabel_ToCbor(c.rest[i][1]), c.rest[i][2]>>]
  IN Good(Map(t1 \o t2 \o t3 \o t4 \o t5 \o t6 \o t7 \o rest))

(* ============================ Prop ============================ *)
CKeysDistinct(m) == \A i, j \in 1..Len(m) : i # j => m[i][1] # m[j][1]
CKeyIdx(m, l) == {i \in 1..Len(m) : m[i][1] = l}
CHasKey(m, n) == CKeyIdx(m, Nat2I(n)) # {}
CValAt(m, n) == m[CHOOSE i \in CKeyIdx(m, Nat2I(n)) : TRUE][2]
TimeOK(v) == (v.t = "int" /\ IntFitsI64(v)) \/ v.t = "float"

Claims_WF(v) ==
  /\ v.t = "map"
  /\ \A i \in 1..Len(v.m) : LabelLike("CwtClaimName", TRUE, v.m[i][1])
  /\ CKeysDistinct(v.m)
  /\ \A n \in 1..3 : CHasKey(v.m, n) => CValAt(v.m, n).t = "text"
  /\ \A n \in 4..6 : CHasKey(v.m, n) => TimeOK(CValAt(v.m, n))
  /\ CHasKey(v.m, 7) => CValAt(v.m, 7).t = "bytes"

TimeOf(v) == IF v.t = "int" THEN Whole(v) ELSE Frac(v.bits)
Claims_ValueOf(v) ==
  LET m == v.m
      restPairs == SelectSeq(m, LAMBDA e : ~(\E n \in 1..7 : e[1] = Nat2I(n))) IN
  [ iss |-> IF CHasKey(m, 1) THEN <<CValAt(m, 1).s>> ELSE <<>>,
    sub |-> IF CHasKey(m, 2) THEN <<CValAt(m, 2).s>> ELSE <<>>,
    aud |-> IF CHasKey(m, 3) THEN <<CValAt(m, 3).s>> ELSE <<>>,
    exp |-> IF CHasKey(m, 4) THEN <<TimeOf(CValAt(m, 4))>> ELSE <<>>,
    nbf |-> IF CHasKey(m, 5) THEN <<TimeOf(CValAt(m, 5))>> ELSE <<>>,
    iat |-> IF CHasKey(m, 6) THEN <<TimeOf(CValAt(m, 6))>> ELSE <<>>,
    cti |-> IF CHasKey(m, 7) THEN <<CValAt(m, 7).b>> ELSE <<>>,
    rest |-> [i \in 1..Len(restPairs) |-> <<LabelLikeValue("CwtClaimName", restPairs[i][1]), restPairs[i][2]>>] ]

Claims_WFMem(c) ==
  /\ \A i \in 1..Len(c.rest) :
        LET n == c.rest[i][1] IN
        \/ n.k = "text"
        \/ n.k = "priv" /\ IsPrivateInt(n.v) /\ IntFitsI64(n.v)
        \/ n.k = "assigned" /\ HasName("CwtClaimName", n.name) /\ ~(ValueOfName("CwtClaimName", n.name) \in 1..7)
  /\ \A i, j \in 1..Len(c.rest) : i # j => c.rest[i][1] # c.rest[j][1]
  /\ \A f \in {c.exp, c.nbf, c.iat} : f # <<>> /\ f[1].k = "whole" => IntFitsI64(f[1].v)
=============================================================================

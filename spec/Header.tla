-------------------------------- MODULE Header --------------------------------
(***************************************************************************)
(* COSE header maps (src/header/mod.rs), protected headers and             *)
(* COSE_Signature (src/sign/mod.rs) -- mutually recursive, hence together. *)
(*                                                                         *)
(* Two layers (DESIGN.md section 6):                                       *)
(*   Design : *_FromCbor / *_ToCbor, shaped like the code (left fold over  *)
(*            the map entries with a seen-set, checks in the code's order) *)
(*   Prop   : *_WF (declarative reading of RFC 8152 section 3.1 and of     *)
(*            property C08/C09) and *_ValueOf (field = value under label)  *)
(***************************************************************************)
EXTENDS Label

EmptyHeader == [alg |-> <<>>, crit |-> <<>>, ct |-> <<>>, kid |-> <<>>, iv |-> <<>>, piv |-> <<>>,
                cs |-> <<>>, rest |-> <<>>]
EmptyProt == [orig |-> <<>>, hdr |-> EmptyHeader]

Header_IsEmpty(h) == h = EmptyHeader

(* ---------- content-type text rule ---------- *)
(* Unicode White_Space (what str::trim strips) at the start / end of UTF-8 bytes *)
WsAt(s, i) ==   \* length of a white-space character starting at i, or 0
  LET n == Len(s) c == s[i] IN
  IF InR(c, 9, 13) \/ c = 32 THEN 1
  ELSE IF c = 194 /\ i + 1 <= n /\ s[i+1] \in {133, 160} THEN 2
  ELSE IF c = 225 /\ i + 2 <= n /\ s[i+1] = 154 /\ s[i+2] = 128 THEN 3
  ELSE IF c = 226 /\ i + 2 <= n /\ s[i+1] = 128 /\ (InR(s[i+2], 128, 138) \/ s[i+2] \in {168, 169, 175}) THEN 3
  ELSE IF c = 226 /\ i + 2 <= n /\ s[i+1] = 129 /\ s[i+2] = 159 THEN 3
  ELSE IF c = 227 /\ i + 2 <= n /\ s[i+1] = 128 /\ s[i+2] = 128 THEN 3
  ELSE 0
StartsWithWs(s) == s # <<>> /\ WsAt(s, 1) > 0
EndsWithWs(s) ==
  LET n == Len(s) IN
  \/ n >= 1 /\ WsAt(s, n) = 1
  \/ n >= 2 /\ WsAt(s, n - 1) = 2
  \/ n >= 3 /\ WsAt(s, n - 2) = 3
SlashCount(s) == Cardinality({i \in 1..Len(s) : s[i] = 47})
CtTextOK(s) == s # <<>> /\ ~StartsWithWs(s) /\ ~EndsWithWs(s) /\ SlashCount(s) = 1

NonEmptyBytes(v) ==
  IF v.t # "bytes" THEN WrongType(v, "bstr") ELSE IF v.b = <<>> THEN Unexp("empty bstr", "non-empty bstr") ELSE Good(v.b)
(* the three content-type text checks, in code order *)
CtTextErr(s) ==
  IF s = <<>> THEN Unexp("empty tstr", "non-empty tstr")
  ELSE IF StartsWithWs(s) \/ EndsWithWs(s) THEN Unexp("leading/trailing whitespace", "no leading/trailing whitespace")
  ELSE Unexp("arbitrary text", "text of form type/subtype")

(* ======================================================================= *)
(*                               Design                                    *)
(* ======================================================================= *)
RECURSIVE Header_FromCbor(_)
RECURSIVE HdrFold(_, _, _)
RECURSIVE Sig_FromCbor(_)
RECURSIVE Prot_FromBstr(_)
RECURSIVE SigsFrom(_, _)
RECURSIVE CritFrom(_, _)

CritFrom(a, acc) ==
  IF a = <<>> THEN Good(acc)
  ELSE LET r == RegLabel_FromCbor("HeaderParameter", a[1]) IN
    IF ~r.ok THEN r ELSE CritFrom(Tail(a), Append(acc, r.x))

SigsFrom(a, acc) ==
  IF a = <<>> THEN Good(acc)
  ELSE LET r == Sig_FromCbor(a[1]) IN
    IF ~r.ok THEN r ELSE SigsFrom(Tail(a), Append(acc, r.x))

(* one map entry (l, v) applied to the header under construction *)
HdrStep(st, l, v) ==
  IF IsStd(l, 1) THEN
    LET r == RegPriv_FromCbor("Algorithm", v) IN IF r.ok THEN Good([st EXCEPT !.alg = <<r.x>>]) ELSE r
  ELSE IF IsStd(l, 2) THEN
    IF v.t # "array" THEN WrongType(v, "array value")
    ELSE IF v.a = <<>> THEN Unexp("empty array", "non-empty array")
    ELSE LET r == CritFrom(v.a, st.crit) IN IF r.ok THEN Good([st EXCEPT !.crit = r.x]) ELSE r
  ELSE IF IsStd(l, 3) THEN
    LET r == RegLabel_FromCbor("CoapContentFormat", v) IN
    IF ~r.ok THEN r
    ELSE IF r.x.k = "text" /\ ~CtTextOK(r.x.s) THEN CtTextErr(r.x.s)
    ELSE Good([st EXCEPT !.ct = <<r.x>>])
  ELSE IF IsStd(l, 4) THEN
    LET r == NonEmptyBytes(v) IN IF r.ok THEN Good([st EXCEPT !.kid = r.x]) ELSE r
  ELSE IF IsStd(l, 5) THEN
    LET r == NonEmptyBytes(v) IN IF r.ok THEN Good([st EXCEPT !.iv = r.x]) ELSE r
  ELSE IF IsStd(l, 6) THEN
    LET r == NonEmptyBytes(v) IN IF r.ok THEN Good([st EXCEPT !.piv = r.x]) ELSE r
  ELSE IF IsStd(l, 7) THEN
    IF v.t # "array" THEN WrongType(v, "array")
    ELSE IF v.a = <<>> THEN Unexp("empty sig array", "non-empty sig array")
    ELSE IF v.a[1].t = "bytes" THEN
      LET r == Sig_FromCbor(v) IN IF r.ok THEN Good([st EXCEPT !.cs = Append(@, r.x)]) ELSE r
    ELSE IF v.a[1].t = "array" THEN
      LET r == SigsFrom(v.a, st.cs) IN IF r.ok THEN Good([st EXCEPT !.cs = r.x]) ELSE r
    ELSE WrongType(v.a[1], "array or bstr value")
  ELSE Good([st EXCEPT !.rest = Append(@, <<l, v>>)])

HdrFold(m, st, seen) ==
  IF m = <<>> THEN Good(st)
  ELSE LET lr == Label_FromCbor(m[1][1]) IN
    IF ~lr.ok THEN lr
    ELSE IF lr.x \in seen THEN Err("DuplicateMapKey")
    ELSE LET r == HdrStep(st, lr.x, m[1][2]) IN
      IF ~r.ok THEN r
      ELSE IF r.x.iv # <<>> /\ r.x.piv # <<>> THEN Unexp("IV and partial-IV specified", "only one of IV and partial IV")
      ELSE HdrFold(Tail(m), r.x, seen \cup {lr.x})

Header_FromCbor(v) == IF v.t # "map" THEN WrongType(v, "map") ELSE HdrFold(v.m, EmptyHeader, {})

(* Header::from_slice *)
Header_FromSlice(b) ==
  LET r == ReadToValue(b) IN
  IF ~r.ok THEN (IF r.gap THEN Err("GAP") ELSE Err(r.err)) ELSE Header_FromCbor(r.v)

(* ProtectedHeader::from_cbor_bstr *)
Prot_FromBstr(v) ==
  IF v.t # "bytes" THEN WrongType(v, "bstr")
  ELSE IF v.b = <<>> THEN Good([orig |-> <<v.b>>, hdr |-> EmptyHeader])
  ELSE LET r == Header_FromSlice(v.b) IN
    IF r.ok THEN Good([orig |-> <<v.b>>, hdr |-> r.x]) ELSE r

(* CoseSignature::from_cbor_value: arity, then slots last to first *)
Sig_FromCbor(v) ==
  IF v.t # "array" THEN WrongType(v, "array")
  ELSE IF Len(v.a) # 3 THEN Unexp("array", "array with 3 items")
  ELSE IF v.a[3].t # "bytes" THEN WrongType(v.a[3], "bstr")
  ELSE LET u == Header_FromCbor(v.a[2]) IN
    IF ~u.ok THEN u
    ELSE LET p == Prot_FromBstr(v.a[1]) IN
      IF ~p.ok THEN p
      ELSE Good([prot |-> p.x, unprot |-> u.x, sig |-> v.a[3].b])

(* ProtectedHeader::from_cbor_value (the map form: no original bytes) *)
ProtMap_FromCbor(v) ==
  LET r == Header_FromCbor(v) IN IF r.ok THEN Good([orig |-> <<>>, hdr |-> r.x]) ELSE r

(* ---------- encode ---------- *)
RECURSIVE Header_ToCbor(_)
RECURSIVE Sig_ToCbor(_)
RECURSIVE Prot_Bstr(_)
RECURSIVE SigsTo(_, _)
RECURSIVE RestTo(_, _, _)

(* extras appended after the typed fields; the seen-set starts with the typed labels emitted *)
(* (after the fix: commits f6ae51b / 906e791; before them it started empty)                 *)
RestTo(rest, seen, acc) ==
  IF rest = <<>> THEN Good(acc)
  ELSE IF rest[1][1] \in seen THEN Err("DuplicateMapKey")
  ELSE RestTo(Tail(rest), seen \cup {rest[1][1]}, Append(acc, <<rest[1][1], rest[1][2]>>))

SigsTo(s, acc) ==
  IF s = <<>> THEN Good(acc)
  ELSE LET r == Sig_ToCbor(s[1]) IN IF ~r.ok THEN r ELSE SigsTo(Tail(s), Append(acc, r.x))

CritTo(c) == Arr([i \in 1..Len(c) |-> RegLabel_ToCbor(c[i])])

Header_ToCbor(h) ==
  LET m1 == IF h.alg # <<>> THEN << <<StdLabel(1), RegLabel_ToCbor(h.alg[1])>> >> ELSE <<>>
      m2 == IF h.crit # <<>> THEN << <<StdLabel(2), CritTo(h.crit)>> >> ELSE <<>>
      m3 == IF h.ct # <<>> THEN << <<StdLabel(3), RegLabel_ToCbor(h.ct[1])>> >> ELSE <<>>
      m4 == IF h.kid # <<>> THEN << <<StdLabel(4), Bs(h.kid)>> >> ELSE <<>>
      m5 == IF h.iv # <<>> THEN << <<StdLabel(5), Bs(h.iv)>> >> ELSE <<>>
      m6 == IF h.piv # <<>> THEN << <<StdLabel(6), Bs(h.piv)>> >> ELSE <<>>
      cs == IF h.cs = <<>> THEN Good(<<>>)
            ELSE IF Len(h.cs) = 1 THEN
              LET r == Sig_ToCbor(h.cs[1]) IN IF r.ok THEN Good(<< <<StdLabel(7), r.x>> >>) ELSE r
            ELSE LET r == SigsTo(h.cs, <<>>) IN IF r.ok THEN Good(<< <<StdLabel(7), Arr(r.x)>> >>) ELSE r
  IN IF ~cs.ok THEN cs
     ELSE LET typed == m1 \o m2 \o m3 \o m4 \o m5 \o m6 \o cs.x
              r == RestTo(h.rest, {typed[i][1] : i \in 1..Len(typed)}, typed)
          IN IF r.ok THEN Good(Map(r.x)) ELSE r

(* ProtectedHeader::cbor_bstr: stored bytes win; empty -> zero-length; else the encoded map *)
Prot_Bstr(p) ==
  IF p.orig # <<>> THEN Good(Bs(p.orig[1]))
  ELSE IF Header_IsEmpty(p.hdr) THEN Good(Bs(<<>>))
  ELSE LET r == Header_ToCbor(p.hdr) IN IF r.ok THEN Good(Bs(Enc(r.x))) ELSE r

Sig_ToCbor(s) ==
  LET p == Prot_Bstr(s.prot) IN
  IF ~p.ok THEN p
  ELSE LET u == Header_ToCbor(s.unprot) IN
    IF ~u.ok THEN u ELSE Good(Arr(<<p.x, u.x, Bs(s.sig)>>))

ProtMap_ToCbor(p) == Header_ToCbor(p.hdr)

(* ======================================================================= *)
(*                                 Prop                                    *)
(* ======================================================================= *)
KeysDistinct(m) == \A i, j \in 1..Len(m) : i # j => m[i][1] # m[j][1]
KeyIdx(m, l) == {i \in 1..Len(m) : m[i][1] = l}
HasKey(m, n) == KeyIdx(m, Nat2I(n)) # {}
ValAt(m, n) == m[CHOOSE i \in KeyIdx(m, Nat2I(n)) : TRUE][2]
NEBytes(v) == v.t = "bytes" /\ v.b # <<>>

RECURSIVE Header_WF(_)
RECURSIVE Signature_WF(_)
RECURSIVE Prot_WF(_)

Header_WF(v) ==
  /\ v.t = "map"
  /\ \A i \in 1..Len(v.m) : LabelOK(v.m[i][1])
  /\ KeysDistinct(v.m)
  /\ HasKey(v.m, 1) => LabelLike("Algorithm", TRUE, ValAt(v.m, 1))
  /\ HasKey(v.m, 2) => LET c == ValAt(v.m, 2) IN
        c.t = "array" /\ c.a # <<>> /\ \A i \in 1..Len(c.a) : LabelLike("HeaderParameter", FALSE, c.a[i])
  /\ HasKey(v.m, 3) => LET c == ValAt(v.m, 3) IN
        \/ c.t = "int" /\ IntFitsI64(c) /\ RegHit("CoapContentFormat", c)
        \/ c.t = "text" /\ CtTextOK(c.s)
  /\ HasKey(v.m, 4) => NEBytes(ValAt(v.m, 4))
  /\ HasKey(v.m, 5) => NEBytes(ValAt(v.m, 5))
  /\ HasKey(v.m, 6) => NEBytes(ValAt(v.m, 6))
  /\ ~(HasKey(v.m, 5) /\ HasKey(v.m, 6))
  /\ HasKey(v.m, 7) => LET c == ValAt(v.m, 7) IN
        \/ Signature_WF(c)
        \/ c.t = "array" /\ c.a # <<>> /\ \A i \in 1..Len(c.a) : Signature_WF(c.a[i])

(* a protected slot: a byte string that is empty or is exactly one encoded well-formed header map *)
Prot_WF(x) ==
  /\ x.t = "bytes"
  /\ x.b = <<>> \/ (LET r == ReadToValue(x.b) IN r.ok /\ Header_WF(r.v))

Signature_WF(v) ==
  /\ v.t = "array" /\ Len(v.a) = 3
  /\ Prot_WF(v.a[1]) /\ Header_WF(v.a[2]) /\ v.a[3].t = "bytes"

(* does the item lie in the zone the byte-level model leaves open (f16/f32 not in the table, *)
(* texts above the scratch size) somewhere inside a protected bstr?                          *)
ProtGap(x) == x.t = "bytes" /\ x.b # <<>> /\ (LET r == ReadToValue(x.b) IN ~r.ok /\ r.gap)

(* ---------- ValueOf: total on well-formed items ---------- *)
RECURSIVE Header_ValueOf(_)
RECURSIVE Signature_ValueOf(_)
RECURSIVE Prot_ValueOf(_)

RestOf(m, std) == SelectSeq(m, LAMBDA e : ~(\E n \in std : e[1] = Nat2I(n)))

Header_ValueOf(v) ==
  LET m == v.m IN
  [ alg  |-> IF HasKey(m, 1) THEN <<LabelLikeValue("Algorithm", ValAt(m, 1))>> ELSE <<>>,
    crit |-> IF HasKey(m, 2) THEN LET c == ValAt(m, 2).a IN [i \in 1..Len(c) |-> LabelLikeValue("HeaderParameter", c[i])] ELSE <<>>,
    ct   |-> IF HasKey(m, 3) THEN <<LabelLikeValue("CoapContentFormat", ValAt(m, 3))>> ELSE <<>>,
    kid  |-> IF HasKey(m, 4) THEN ValAt(m, 4).b ELSE <<>>,
    iv   |-> IF HasKey(m, 5) THEN ValAt(m, 5).b ELSE <<>>,
    piv  |-> IF HasKey(m, 6) THEN ValAt(m, 6).b ELSE <<>>,
    cs   |-> IF HasKey(m, 7) THEN
               LET c == ValAt(m, 7) IN
               IF c.a[1].t = "bytes" THEN <<Signature_ValueOf(c)>>
               ELSE [i \in 1..Len(c.a) |-> Signature_ValueOf(c.a[i])]
             ELSE <<>>,
    rest |-> RestOf(m, 1..7) ]

Prot_ValueOf(x) ==
  [ orig |-> <<x.b>>, hdr |-> IF x.b = <<>> THEN EmptyHeader ELSE Header_ValueOf(ReadToValue(x.b).v) ]

Signature_ValueOf(v) ==
  [ prot |-> Prot_ValueOf(v.a[1]), unprot |-> Header_ValueOf(v.a[2]), sig |-> v.a[3].b ]

(* ---------- in-memory well-formedness (what C11 quantifies over) ---------- *)
RegLabelMemOK(l, priv) ==
  \/ l.k = "assigned" /\ HasName(l.reg, l.name)
  \/ l.k = "text"
  \/ priv /\ l.k = "priv" /\ IsPrivateInt(l.v) /\ IntFitsI64(l.v)

RECURSIVE Header_WFMem(_)
RECURSIVE Sig_WFMem(_)
Prot_WFMem(p) ==
  /\ Header_WFMem(p.hdr)
  /\ p.orig # <<>> => Prot_WF(Bs(p.orig[1])) /\ Prot_ValueOf(Bs(p.orig[1])).hdr = p.hdr
Sig_WFMem(s) == Prot_WFMem(s.prot) /\ Header_WFMem(s.unprot)
Header_WFMem(h) ==
  /\ h.alg # <<>> => RegLabelMemOK(h.alg[1], TRUE)
  /\ \A i \in 1..Len(h.crit) : RegLabelMemOK(h.crit[i], FALSE)
  /\ h.ct # <<>> => RegLabelMemOK(h.ct[1], FALSE) /\ (h.ct[1].k = "text" => CtTextOK(h.ct[1].s))
  /\ ~(h.iv # <<>> /\ h.piv # <<>>)
  /\ \A i \in 1..Len(h.cs) : Sig_WFMem(h.cs[i])
  /\ \A i \in 1..Len(h.rest) : LabelOK(h.rest[i][1]) /\ ~(\E n \in 1..7 : h.rest[i][1] = Nat2I(n))
  /\ KeysDistinct(h.rest)
=============================================================================

-------------------------------- MODULE Kdf --------------------------------
(***************************************************************************)
(* COSE_KDF_Context, PartyInfo, SuppPubInfo (src/context/mod.rs).          *)
(***************************************************************************)
EXTENDS Header

NonceB(b) == [k |-> "bytes", b |-> b]
NonceI(v) == [k |-> "int", v |-> v]
EmptyParty == [identity |-> <<>>, nonce |-> <<>>, other |-> <<>>]
EmptySuppPub == [kdl |-> Nat2I(0), prot |-> EmptyProt, other |-> <<>>]
EmptyKdf == [alg |-> Assigned("Algorithm", "Reserved"), pu |-> EmptyParty, pv |-> EmptyParty, pub |-> EmptySuppPub, priv |-> <<>>]

BN(v) == IF v.t = "null" THEN Good(<<>>) ELSE IF v.t = "bytes" THEN Good(<<v.b>>) ELSE WrongType(v, "bstr / nil")

Party_FromCbor(v) ==
  IF v.t # "array" THEN WrongType(v, "array")
  ELSE IF Len(v.a) # 3 THEN Unexp("array", "array with 3 items")
  ELSE LET o == BN(v.a[3]) IN
    IF ~o.ok THEN o
    ELSE LET n == IF v.a[2].t = "null" THEN Good(<<>>)
                  ELSE IF v.a[2].t = "bytes" THEN Good(<<NonceB(v.a[2].b)>>)
                  ELSE IF v.a[2].t = "int" THEN (IF IntFitsI64(v.a[2]) THEN Good(<<NonceI(v.a[2])>>) ELSE Err("OutOfRangeIntegerValue"))
                  ELSE WrongType(v.a[2], "bstr / int / nil") IN
      IF ~n.ok THEN n
      ELSE LET i == BN(v.a[1]) IN
        IF ~i.ok THEN i ELSE Good([identity |-> i.x, nonce |-> n.x, other |-> o.x])

OB(o) == IF o = <<>> THEN Nil ELSE Bs(o[1])
Party_ToCbor(p) ==
  Good(Arr(<<OB(p.identity),
             IF p.nonce = <<>> THEN Nil ELSE IF p.nonce[1].k = "bytes" THEN Bs(p.nonce[1].b) ELSE p.nonce[1].v,
             OB(p.other)>>))

SuppPub_FromCbor(v) ==
  IF v.t # "array" THEN WrongType(v, "array")
  ELSE IF Len(v.a) # 2 /\ Len(v.a) # 3 THEN Unexp("array", "array with 2 or 3 items")
  ELSE LET o == IF Len(v.a) = 3 THEN (IF v.a[3].t = "bytes" THEN Good(<<v.a[3].b>>) ELSE WrongType(v.a[3], "bstr")) ELSE Good(<<>>) IN
    IF ~o.ok THEN o
    ELSE LET p == Prot_FromBstr(v.a[2]) IN
      IF ~p.ok THEN p
      ELSE IF v.a[1].t # "int" THEN WrongType(v.a[1], "int")
      ELSE IF ~IntFitsU64(v.a[1]) THEN Err("OutOfRangeIntegerValue")
      ELSE Good([kdl |-> v.a[1], prot |-> p.x, other |-> o.x])

SuppPub_ToCbor(s) ==
  LET p == Prot_Bstr(s.prot) IN
  IF ~p.ok THEN p
  ELSE Good(Arr(<<s.kdl, p.x>> \o (IF s.other = <<>> THEN <<>> ELSE <<Bs(s.other[1])>>)))

(* trailing SuppPrivInfo slots are checked last-to-first, before the four fixed slots *)
RECURSIVE PrivFrom(_, _, _)
PrivFrom(a, i, acc) ==
  IF i < 5 THEN Good(acc)
  ELSE IF a[i].t # "bytes" THEN WrongType(a[i], "bstr")
  ELSE PrivFrom(a, i - 1, <<a[i].b>> \o acc)

Kdf_FromCbor(v) ==
  IF v.t # "array" THEN WrongType(v, "array")
  ELSE IF Len(v.a) < 4 THEN Unexp("array", "array with at least 4 items")
  ELSE LET pr == PrivFrom(v.a, Len(v.a), <<>>) IN
    IF ~pr.ok THEN pr
    ELSE LET sp == SuppPub_FromCbor(v.a[4]) IN
      IF ~sp.ok THEN sp
      ELSE LET pv == Party_FromCbor(v.a[3]) IN
        IF ~pv.ok THEN pv
        ELSE LET pu == Party_FromCbor(v.a[2]) IN
          IF ~pu.ok THEN pu
          ELSE LET al == RegPriv_FromCbor("Algorithm", v.a[1]) IN
            IF ~al.ok THEN al
            ELSE Good([alg |-> al.x, pu |-> pu.x, pv |-> pv.x, pub |-> sp.x, priv |-> pr.x])

Kdf_ToCbor(k) ==
  LET sp == SuppPub_ToCbor(k.pub) IN
  IF ~sp.ok THEN sp
  ELSE Good(Arr(<<RegLabel_ToCbor(k.alg), Party_ToCbor(k.pu).x, Party_ToCbor(k.pv).x, sp.x>>
                \o [i \in 1..Len(k.priv) |-> Bs(k.priv[i])]))

(* ============================ Prop ============================ *)
BNil(v) == v.t \in {"bytes", "null"}
Party_WF(v) ==
  /\ v.t = "array" /\ Len(v.a) = 3
  /\ BNil(v.a[1]) /\ BNil(v.a[3])
  /\ BNil(v.a[2]) \/ (v.a[2].t = "int" /\ IntFitsI64(v.a[2]))
SuppPub_WF(v) ==
  /\ v.t = "array" /\ Len(v.a) \in {2, 3}
  /\ v.a[1].t = "int" /\ IntFitsU64(v.a[1])
  /\ Prot_WF(v.a[2])
  /\ Len(v.a) = 3 => v.a[3].t = "bytes"
Kdf_WF(v) ==
  /\ v.t = "array" /\ Len(v.a) >= 4
  /\ LabelLike("Algorithm", TRUE, v.a[1])
  /\ Party_WF(v.a[2]) /\ Party_WF(v.a[3]) /\ SuppPub_WF(v.a[4])
  /\ \A i \in 5..Len(v.a) : v.a[i].t = "bytes"

OptB(v) == IF v.t = "bytes" THEN <<v.b>> ELSE <<>>
Party_ValueOf(v) ==
  [ identity |-> OptB(v.a[1]),
    nonce |-> IF v.a[2].t = "null" THEN <<>> ELSE IF v.a[2].t = "bytes" THEN <<NonceB(v.a[2].b)>> ELSE <<NonceI(v.a[2])>>,
    other |-> OptB(v.a[3]) ]
SuppPub_ValueOf(v) ==
  [ kdl |-> v.a[1], prot |-> Prot_ValueOf(v.a[2]), other |-> IF Len(v.a) = 3 THEN <<v.a[3].b>> ELSE <<>> ]
Kdf_ValueOf(v) ==
  [ alg |-> LabelLikeValue("Algorithm", v.a[1]), pu |-> Party_ValueOf(v.a[2]), pv |-> Party_ValueOf(v.a[3]),
    pub |-> SuppPub_ValueOf(v.a[4]), priv |-> [i \in 1..(Len(v.a) - 4) |-> v.a[i + 4].b] ]

Party_WFMem(p) == p.nonce # <<>> /\ p.nonce[1].k = "int" => IntFitsI64(p.nonce[1].v)
SuppPub_WFMem(s) == IntFitsU64(s.kdl) /\ Prot_WFMem(s.prot)
Kdf_WFMem(k) == RegLabelMemOK(k.alg, TRUE) /\ Party_WFMem(k.pu) /\ Party_WFMem(k.pv) /\ SuppPub_WFMem(k.pub)
=============================================================================

-------------------------------- MODULE Key --------------------------------
(***************************************************************************)
(* COSE_Key / COSE_KeySet (src/key/mod.rs) and CoseKey::canonicalize.      *)
(***************************************************************************)
EXTENDS Label

EmptyKey == [kty |-> Assigned("KeyType", "Reserved"), kid |-> <<>>, alg |-> <<>>, ops |-> <<>>, biv |-> <<>>, params |-> <<>>]

KNEBytes(v) == IF v.t # "bytes" THEN WrongType(v, "bstr") ELSE IF v.b = <<>> THEN Unexp("empty bstr", "non-empty bstr") ELSE Good(v.b)

(* ======================= Design: decode ======================= *)
(* key_ops is a BTreeSet<KeyOperation>: modelled as the sequence in the set's iteration order *)
RECURSIVE OpsFrom(_, _)
OpsFrom(a, acc) ==
  IF a = <<>> THEN Good(acc)
  ELSE LET r == RegLabel_FromCbor("KeyOperation", a[1]) IN
    IF ~r.ok THEN r
    ELSE IF \E i \in 1..Len(acc) : acc[i] = r.x THEN Unexp("repeated array entry", "unique array label")
    ELSE OpsFrom(Tail(a), InsertBy(RegLabelCmpDesign, r.x, acc))

KeyStep(st, l, v) ==
  IF IsStd(l, 1) THEN
    LET r == RegLabel_FromCbor("KeyType", v) IN IF r.ok THEN Good([st EXCEPT !.kty = r.x]) ELSE r
  ELSE IF IsStd(l, 2) THEN
    LET r == KNEBytes(v) IN IF r.ok THEN Good([st EXCEPT !.kid = r.x]) ELSE r
  ELSE IF IsStd(l, 3) THEN
    LET r == RegPriv_FromCbor("Algorithm", v) IN IF r.ok THEN Good([st EXCEPT !.alg = <<r.x>>]) ELSE r
  ELSE IF IsStd(l, 4) THEN
    IF v.t # "array" THEN WrongType(v, "array")
    ELSE LET r == OpsFrom(v.a, st.ops) IN
      IF ~r.ok THEN r ELSE IF r.x = <<>> THEN Unexp("empty array", "non-empty array") ELSE Good([st EXCEPT !.ops = r.x])
  ELSE IF IsStd(l, 5) THEN
    LET r == KNEBytes(v) IN IF r.ok THEN Good([st EXCEPT !.biv = r.x]) ELSE r
  ELSE Good([st EXCEPT !.params = Append(@, <<l, v>>)])

RECURSIVE KeyFold(_, _, _)
KeyFold(m, st, seen) ==
  IF m = <<>> THEN (IF st.kty = Assigned("KeyType", "Reserved") THEN Unexp("no kty label", "mandatory kty label") ELSE Good(st))
  ELSE LET lr == Label_FromCbor(m[1][1]) IN
    IF ~lr.ok THEN lr
    ELSE IF lr.x \in seen THEN Err("DuplicateMapKey")
    ELSE LET r == KeyStep(st, lr.x, m[1][2]) IN
      IF ~r.ok THEN r ELSE KeyFold(Tail(m), r.x, seen \cup {lr.x})

Key_FromCbor(v) == IF v.t # "map" THEN WrongType(v, "map") ELSE KeyFold(v.m, EmptyKey, {})

RECURSIVE KeysFrom(_, _)
KeysFrom(a, acc) ==
  IF a = <<>> THEN Good(acc)
  ELSE LET r == Key_FromCbor(a[1]) IN IF ~r.ok THEN r ELSE KeysFrom(Tail(a), Append(acc, r.x))
KeySet_FromCbor(v) == IF v.t # "array" THEN WrongType(v, "array") ELSE KeysFrom(v.a, <<>>)

(* ======================= Design: encode ======================= *)
RECURSIVE KRestTo(_, _, _)
KRestTo(rest, seen, acc) ==
  IF rest = <<>> THEN Good(acc)
  ELSE IF rest[1][1] \in seen THEN Err("DuplicateMapKey")
  ELSE KRestTo(Tail(rest), seen \cup {rest[1][1]}, Append(acc, <<rest[1][1], rest[1][2]>>))

Key_ToCbor(k) ==
  LET m1 == << <<StdLabel(1), RegLabel_ToCbor(k.kty)>> >>
      m2 == IF k.kid # <<>> THEN << <<StdLabel(2), Bs(k.kid)>> >> ELSE <<>>
      m3 == IF k.alg # <<>> THEN << <<StdLabel(3), RegLabel_ToCbor(k.alg[1])>> >> ELSE <<>>
      m4 == IF k.ops # <<>> THEN << <<StdLabel(4), Arr([i \in 1..Len(k.ops) |-> RegLabel_ToCbor(k.ops[i])])>> >> ELSE <<>>
      m5 == IF k.biv # <<>> THEN << <<StdLabel(5), Bs(k.biv)>> >> ELSE <<>>
      typed == m1 \o m2 \o m3 \o m4 \o m5
      r == KRestTo(k.params, {typed[i][1] : i \in 1..Len(typed)}, typed)
  IN IF r.ok THEN Good(Map(r.x)) ELSE r

RECURSIVE KeysTo(_, _)
KeysTo(s, acc) ==
  IF s = <<>> THEN Good(acc)
  ELSE LET r == Key_ToCbor(s[1]) IN IF ~r.ok THEN r ELSE KeysTo(Tail(s), Append(acc, r.x))
KeySet_ToCbor(ks) == LET r == KeysTo(ks, <<>>) IN IF r.ok THEN Good(Arr(r.x)) ELSE r

(* ======================= Design: canonicalize ======================= *)
(* sorts ONLY the extra parameters, stably, with the chosen comparator *)
PairCmpLex(p, q) == LabelCmpDesign(p[1], q[1])
PairCmpCanon(p, q) == CanonCmpDesign(p[1], q[1])
Key_Canonicalize(k, ord) ==
  [k EXCEPT !.params = IF ord = "Lexicographic" THEN SortBy(PairCmpLex, @) ELSE SortBy(PairCmpCanon, @)]

(* ============================ Prop ============================ *)
KKeysDistinct(m) == \A i, j \in 1..Len(m) : i # j => m[i][1] # m[j][1]
KKeyIdx(m, l) == {i \in 1..Len(m) : m[i][1] = l}
KHasKey(m, n) == KKeyIdx(m, Nat2I(n)) # {}
KValAt(m, n) == m[CHOOSE i \in KKeyIdx(m, Nat2I(n)) : TRUE][2]
KNE(v) == v.t = "bytes" /\ v.b # <<>>

Key_WF(v) ==
  /\ v.t = "map"
  /\ \A i \in 1..Len(v.m) : LabelOK(v.m[i][1])
  /\ KKeysDistinct(v.m)
  /\ KHasKey(v.m, 1)
  /\ LET c == KValAt(v.m, 1) IN
        \/ c.t = "text"
        \/ c.t = "int" /\ IntFitsI64(c) /\ RegHit("KeyType", c) /\ c # Nat2I(0)
  /\ KHasKey(v.m, 2) => KNE(KValAt(v.m, 2))
  /\ KHasKey(v.m, 3) => LabelLike("Algorithm", TRUE, KValAt(v.m, 3))
  /\ KHasKey(v.m, 4) => LET c == KValAt(v.m, 4) IN
        /\ c.t = "array" /\ c.a # <<>>
        /\ \A i \in 1..Len(c.a) : LabelLike("KeyOperation", FALSE, c.a[i])
        /\ \A i, j \in 1..Len(c.a) : i # j => c.a[i] # c.a[j]
  /\ KHasKey(v.m, 5) => KNE(KValAt(v.m, 5))

KeySet_WF(v) == v.t = "array" /\ \A i \in 1..Len(v.a) : Key_WF(v.a[i])

KRestOf(m) == SelectSeq(m, LAMBDA e : ~(\E n \in 1..5 : e[1] = Nat2I(n)))

(* operations as a set: reported in the order of the encoded labels (Prop order) *)
OpCmpProp(a, b) == LabelCmpProp(RegLabel_ToCbor(a), RegLabel_ToCbor(b))
Key_ValueOf(v) ==
  LET m == v.m IN
  [ kty |-> LabelLikeValue("KeyType", KValAt(m, 1)),
    kid |-> IF KHasKey(m, 2) THEN KValAt(m, 2).b ELSE <<>>,
    alg |-> IF KHasKey(m, 3) THEN <<LabelLikeValue("Algorithm", KValAt(m, 3))>> ELSE <<>>,
    ops |-> IF KHasKey(m, 4) THEN LET c == KValAt(m, 4).a IN
              SortBy(OpCmpProp, [i \in 1..Len(c) |-> LabelLikeValue("KeyOperation", c[i])]) ELSE <<>>,
    biv |-> IF KHasKey(m, 5) THEN KValAt(m, 5).b ELSE <<>>,
    params |-> KRestOf(m) ]
KeySet_ValueOf(v) == [i \in 1..Len(v.a) |-> Key_ValueOf(v.a[i])]

Key_WFMem(k) ==
  /\ (k.kty.k = "text" \/ (k.kty.k = "assigned" /\ HasName("KeyType", k.kty.name) /\ k.kty.name # "Reserved"))
  /\ k.alg # <<>> => (k.alg[1].k \in {"assigned", "text"} \/ (k.alg[1].k = "priv" /\ IsPrivateInt(k.alg[1].v) /\ IntFitsI64(k.alg[1].v)))
  /\ \A i \in 1..Len(k.ops) : k.ops[i].k \in {"assigned", "text"}
  /\ \A i, j \in 1..Len(k.ops) : i # j => k.ops[i] # k.ops[j]
  /\ \A i \in 1..Len(k.params) : LabelOK(k.params[i][1]) /\ ~(\E n \in 1..5 : k.params[i][1] = Nat2I(n))
  /\ KKeysDistinct(k.params)

(* Prop for C20: keys of the encoded map strictly ascending under the chosen order on the ENCODED keys *)
StrictlyAscending(keys, Cmp(_, _)) == \A i \in 1..(Len(keys) - 1) : Cmp(keys[i], keys[i + 1]) < 0
MapKeys(mv) == [i \in 1..Len(mv.m) |-> mv.m[i][1]]
ValueCmpLex(a, b) == LexCmp(Enc(a), Enc(b))
ValueCmpCanon(a, b) == LenFirstCmp(Enc(a), Enc(b))
Canon_Sorted(mv, ord) ==
  IF ord = "Lexicographic" THEN StrictlyAscending(MapKeys(mv), ValueCmpLex)
  ELSE StrictlyAscending(MapKeys(mv), ValueCmpCanon)
PairSet(mv) == {mv.m[i] : i \in 1..Len(mv.m)}
=============================================================================

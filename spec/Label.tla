-------------------------------- MODULE Label --------------------------------
(***************************************************************************)
(* Label, RegisteredLabel<T>, RegisteredLabelWithPrivate<T> of             *)
(* src/common/mod.rs: classification on decode, encode, and the orders.    *)
(* An abstract Label IS its CBOR data-model value (an int record within    *)
(* i64, or a text record).  Registry-typed labels carry the registry NAME  *)
(* of an assigned value, never its integer (C17 compares by identity).     *)
(***************************************************************************)
EXTENDS Cbor, Iana

Err(e)  == [ok |-> FALSE, err |-> e]
Good(x) == [ok |-> TRUE, x |-> x]
TypeErr == Err("UnexpectedItem")
(* UnexpectedItem carries two diagnostic strings (what was found, what was wanted); they are part of the crate's observable *)
(* behaviour (Display: "got <got>, expected <want>") though no listed property pins them.  Unexp / WrongType build the     *)
(* error WITH its diagnostic; DiagOf projects it (<<>> where a clause does not model it).                                  *)
Unexp(got, want) == [ok |-> FALSE, err |-> "UnexpectedItem", got |-> got, want |-> want]
GotOf(v) == CASE v.t = "int" -> "int" [] v.t = "bytes" -> "bstr" [] v.t = "float" -> "float" [] v.t = "text" -> "tstr"
              [] v.t = "bool" -> "bool" [] v.t = "null" -> "nul" [] v.t = "tag" -> "tag" [] v.t = "array" -> "array"
              [] v.t = "map" -> "map" [] OTHER -> "other"
WrongType(v, want) == Unexp(GotOf(v), want)
DiagOf(r) == IF ~r.ok /\ "got" \in DOMAIN r THEN <<r.got, r.want>> ELSE <<>>
(* Display / Debug text of CoseError (src/common/mod.rs fmt_msg); "" where not modelled (DecodeFailed carries ciborium's text) *)
ErrText(r) ==
  IF r.ok THEN ""
  ELSE CASE r.err = "DuplicateMapKey" -> "duplicate map key"
         [] r.err = "EncodeFailed" -> "encode CBOR failure"
         [] r.err = "ExtraneousData" -> "extraneous data in CBOR input"
         [] r.err = "OutOfRangeIntegerValue" -> "out of range integer value"
         [] r.err = "UnregisteredIanaValue" -> "expected recognized IANA value"
         [] r.err = "UnregisteredIanaNonPrivateValue" -> "expected value in IANA or private use range"
         [] r.err = "UnexpectedItem" /\ "got" \in DOMAIN r -> "got " \o r.got \o ", expected " \o r.want
         [] OTHER -> ""

Assigned(reg, nm) == [k |-> "assigned", reg |-> reg, name |-> nm]
Priv(v)           == [k |-> "priv", v |-> v]
TextL(s)          == [k |-> "text", s |-> s]

(* ---------- Design: from_cbor_value ---------- *)
Label_FromCbor(v) ==
  IF v.t = "int" THEN (IF IntFitsI64(v) THEN Good(v) ELSE Err("OutOfRangeIntegerValue"))
  ELSE IF v.t = "text" THEN Good(v)
  ELSE WrongType(v, "int/tstr")

RegHit(reg, v) == IsSmall(v) /\ Registered(reg, SmallZ(v))

RegLabel_FromCbor(reg, v) ==
  IF v.t = "int" THEN
    IF ~IntFitsI64(v) THEN Err("OutOfRangeIntegerValue")
    ELSE IF RegHit(reg, v) THEN Good(Assigned(reg, NameOfZ(reg, SmallZ(v))))
    ELSE Err("UnregisteredIanaValue")
  ELSE IF v.t = "text" THEN Good(TextL(v.s))
  ELSE WrongType(v, "int/tstr")

RegPriv_FromCbor(reg, v) ==
  IF v.t = "int" THEN
    IF ~IntFitsI64(v) THEN Err("OutOfRangeIntegerValue")
    ELSE IF RegHit(reg, v) THEN Good(Assigned(reg, NameOfZ(reg, SmallZ(v))))
    ELSE IF IsPrivateInt(v) THEN Good(Priv(v))
    ELSE Err("UnregisteredIanaNonPrivateValue")
  ELSE IF v.t = "text" THEN Good(TextL(v.s))
  ELSE WrongType(v, "int/tstr")

(* ---------- Design: to_cbor_value (total) ---------- *)
RegLabel_ToCbor(l) ==
  CASE l.k = "assigned" -> Z2I(ValueOfName(l.reg, l.name))
    [] l.k = "priv"     -> l.v
    [] l.k = "text"     -> Tx(l.s)

(* ---------- Prop: what a label-typed position admits ---------- *)
LabelOK(x) == (x.t = "int" /\ IntFitsI64(x)) \/ x.t = "text"
LabelLike(reg, priv, x) ==
  \/ x.t = "text"
  \/ x.t = "int" /\ IntFitsI64(x) /\ (RegHit(reg, x) \/ (priv /\ IsPrivateInt(x)))
(* the value a label-like item denotes *)
LabelLikeValue(reg, x) ==
  IF x.t = "text" THEN TextL(x.s)
  ELSE IF RegHit(reg, x) THEN Assigned(reg, NameOfZ(reg, SmallZ(x)))
  ELSE Priv(x)

(* ---------- orders ---------- *)
Signum(v) == IF v.neg THEN -1 ELSE IF v.mag = <<>> THEN 0 ELSE 1

(* Design: impl Ord for Label (nine-way signum match; ints before text; text by length then bytes) *)
LabelCmpDesign(a, b) ==
  IF a.t = "int" /\ b.t = "int" THEN
    LET sa == Signum(a) sb == Signum(b) IN
    IF sa = -1 /\ sb = -1 THEN MagCmp(a.mag, b.mag)     \* i2.cmp(i1) on negatives
    ELSE IF sa = -1 THEN 1
    ELSE IF sb = -1 THEN -1
    ELSE IF sa = 0 /\ sb = 0 THEN 0
    ELSE IF sa = 0 THEN -1
    ELSE IF sb = 0 THEN 1
    ELSE MagCmp(a.mag, b.mag)
  ELSE IF a.t = "int" THEN -1
  ELSE IF b.t = "int" THEN 1
  ELSE LenFirstCmp(a.s, b.s)

(* Design: cmp_canonical works on the real encodings *)
CanonCmpDesign(a, b) == LenFirstCmp(Enc(a), Enc(b))

(* Prop: RFC 8949 4.2.1 / RFC 7049 3.9 on the deterministic encodings *)
LabelCmpProp(a, b) == LexCmp(Enc(a), Enc(b))
CanonCmpProp(a, b) == LenFirstCmp(Enc(a), Enc(b))

(* registry label orders delegate to the plain label order of their CBOR form *)
RegLabelCmpDesign(a, b) == LabelCmpDesign(RegLabel_ToCbor(a), RegLabel_ToCbor(b))

(* ---------- sorting (insertion sort, used for key_ops sets and canonicalize) ---------- *)
RECURSIVE InsertBy(_, _, _)
InsertBy(Cmp(_, _), x, s) ==
  IF s = <<>> THEN <<x>>
  ELSE IF Cmp(x, s[1]) < 0 THEN <<x>> \o s
  ELSE <<s[1]>> \o InsertBy(Cmp, x, Tail(s))
RECURSIVE SortBy(_, _)
SortBy(Cmp(_, _), s) == IF s = <<>> THEN <<>> ELSE InsertBy(Cmp, Last(s), SortBy(Cmp, SubSeq(s, 1, Len(s) - 1)))
(* NB: inserting the LAST element into the sorted prefix, after equal elements, makes the sort stable *)

StdLabel(n) == Nat2I(n)
IsStd(l, n) == l = Nat2I(n)
=============================================================================

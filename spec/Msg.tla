-------------------------------- MODULE Msg --------------------------------
(***************************************************************************)
(* The message structures of src/sign, src/mac, src/encrypt:               *)
(* COSE_Sign, COSE_Sign1, COSE_Mac, COSE_Mac0, COSE_Encrypt,               *)
(* COSE_Encrypt0, COSE_recipient  (COSE_Signature lives in Header.tla).    *)
(* Design: arity test, then slots extracted LAST TO FIRST as the code does *)
(* (this fixes which error a multiply-faulty input reports).               *)
(* Prop: the CDDL of RFC 8152 as *_WF / *_ValueOf.                         *)
(***************************************************************************)
EXTENDS Header

MsgTypes == {"CoseSign", "CoseSign1", "CoseMac", "CoseMac0", "CoseEncrypt", "CoseEncrypt0", "CoseRecipient", "CoseSignature"}
TaggedTypes == {"CoseSign", "CoseSign1", "CoseMac", "CoseMac0", "CoseEncrypt", "CoseEncrypt0"}
TagNameOf(ty) == ty     \* CborTag registry rows carry the same identifiers
TagOf(ty) == ValueOfName("CborTag", ty)

(* bstr / nil slot *)
BstrOrNil(v, want) == IF v.t = "bytes" THEN Good(<<v.b>>) ELSE IF v.t = "null" THEN Good(<<>>) ELSE WrongType(v, want)
OptBytesTo(o) == IF o = <<>> THEN Nil ELSE Bs(o[1])

(* ======================= Design: decode ======================= *)
RECURSIVE Recipient_FromCbor(_)
RECURSIVE RecipsFrom(_, _)
RecipsFrom(a, acc) ==
  IF a = <<>> THEN Good(acc)
  ELSE LET r == Recipient_FromCbor(a[1]) IN IF ~r.ok THEN r ELSE RecipsFrom(Tail(a), Append(acc, r.x))

Recipient_FromCbor(v) ==
  IF v.t # "array" THEN WrongType(v, "array")
  ELSE IF Len(v.a) # 3 /\ Len(v.a) # 4 THEN Unexp("array", "array with 3 or 4 items")
  ELSE LET rs == IF Len(v.a) = 4
                 THEN (IF v.a[4].t # "array" THEN WrongType(v.a[4], "array") ELSE RecipsFrom(v.a[4].a, <<>>))
                 ELSE Good(<<>>) IN
    IF ~rs.ok THEN rs
    ELSE LET c == BstrOrNil(v.a[3], "bstr / null") IN
      IF ~c.ok THEN c
      ELSE LET u == Header_FromCbor(v.a[2]) IN
        IF ~u.ok THEN u
        ELSE LET p == Prot_FromBstr(v.a[1]) IN
          IF ~p.ok THEN p
          ELSE Good([prot |-> p.x, unprot |-> u.x, cipher |-> c.x, recips |-> rs.x])

(* signatures inside COSE_Sign: every nested error except DuplicateMapKey and OutOfRangeIntegerValue is *)
(* re-labelled UnexpectedItem (the map_err of CoseSign::from_cbor_value, after fix: 928b9bd, 2d5a00a)    *)
RECURSIVE SignSigsFrom(_, _)
SignSigsFrom(a, acc) ==
  IF a = <<>> THEN Good(acc)
  ELSE LET r == Sig_FromCbor(a[1]) IN
    IF ~r.ok THEN (IF r.err \in {"DuplicateMapKey", "OutOfRangeIntegerValue", "GAP"} THEN r ELSE Unexp("non-signature", "map for COSE_Signature"))
    ELSE SignSigsFrom(Tail(a), Append(acc, r.x))

Sign_FromCbor(v) ==
  IF v.t # "array" THEN WrongType(v, "array")
  ELSE IF Len(v.a) # 4 THEN Unexp("array", "array with 4 items")
  ELSE LET ss == IF v.a[4].t # "array" THEN WrongType(v.a[4], "array") ELSE SignSigsFrom(v.a[4].a, <<>>) IN
    IF ~ss.ok THEN ss
    ELSE LET pl == BstrOrNil(v.a[3], "bstr or nil") IN
      IF ~pl.ok THEN pl
      ELSE LET u == Header_FromCbor(v.a[2]) IN
        IF ~u.ok THEN u
        ELSE LET p == Prot_FromBstr(v.a[1]) IN
          IF ~p.ok THEN p
          ELSE Good([prot |-> p.x, unprot |-> u.x, payload |-> pl.x, sigs |-> ss.x])

Sign1_FromCbor(v) ==
  IF v.t # "array" THEN WrongType(v, "array")
  ELSE IF Len(v.a) # 4 THEN Unexp("array", "array with 4 items")
  ELSE IF v.a[4].t # "bytes" THEN WrongType(v.a[4], "bstr")
  ELSE LET pl == BstrOrNil(v.a[3], "bstr or nil") IN
    IF ~pl.ok THEN pl
    ELSE LET u == Header_FromCbor(v.a[2]) IN
      IF ~u.ok THEN u
      ELSE LET p == Prot_FromBstr(v.a[1]) IN
        IF ~p.ok THEN p
        ELSE Good([prot |-> p.x, unprot |-> u.x, payload |-> pl.x, sig |-> v.a[4].b])

Mac_FromCbor(v) ==
  IF v.t # "array" THEN WrongType(v, "array")
  ELSE IF Len(v.a) # 5 THEN Unexp("array", "array with 5 items")
  ELSE LET rs == IF v.a[5].t # "array" THEN WrongType(v.a[5], "array") ELSE RecipsFrom(v.a[5].a, <<>>) IN
    IF ~rs.ok THEN rs
    ELSE IF v.a[4].t # "bytes" THEN WrongType(v.a[4], "bstr")
    ELSE LET pl == BstrOrNil(v.a[3], "bstr") IN
      IF ~pl.ok THEN pl
      ELSE LET u == Header_FromCbor(v.a[2]) IN
        IF ~u.ok THEN u
        ELSE LET p == Prot_FromBstr(v.a[1]) IN
          IF ~p.ok THEN p
          ELSE Good([prot |-> p.x, unprot |-> u.x, payload |-> pl.x, tag |-> v.a[4].b, recips |-> rs.x])

Mac0_FromCbor(v) ==
  IF v.t # "array" THEN WrongType(v, "array")
  ELSE IF Len(v.a) # 4 THEN Unexp("array", "array with 4 items")
  ELSE IF v.a[4].t # "bytes" THEN WrongType(v.a[4], "bstr")
  ELSE LET pl == BstrOrNil(v.a[3], "bstr") IN
    IF ~pl.ok THEN pl
    ELSE LET u == Header_FromCbor(v.a[2]) IN
      IF ~u.ok THEN u
      ELSE LET p == Prot_FromBstr(v.a[1]) IN
        IF ~p.ok THEN p
        ELSE Good([prot |-> p.x, unprot |-> u.x, payload |-> pl.x, tag |-> v.a[4].b])

Encrypt_FromCbor(v) ==
  IF v.t # "array" THEN WrongType(v, "array")
  ELSE IF Len(v.a) # 4 THEN Unexp("array", "array with 4 items")
  ELSE LET rs == IF v.a[4].t # "array" THEN WrongType(v.a[4], "array") ELSE RecipsFrom(v.a[4].a, <<>>) IN
    IF ~rs.ok THEN rs
    ELSE LET c == BstrOrNil(v.a[3], "bstr") IN
      IF ~c.ok THEN c
      ELSE LET u == Header_FromCbor(v.a[2]) IN
        IF ~u.ok THEN u
        ELSE LET p == Prot_FromBstr(v.a[1]) IN
          IF ~p.ok THEN p
          ELSE Good([prot |-> p.x, unprot |-> u.x, cipher |-> c.x, recips |-> rs.x])

Encrypt0_FromCbor(v) ==
  IF v.t # "array" THEN WrongType(v, "array")
  ELSE IF Len(v.a) # 3 THEN Unexp("array", "array with 3 items")
  ELSE LET c == BstrOrNil(v.a[3], "bstr") IN
    IF ~c.ok THEN c
    ELSE LET u == Header_FromCbor(v.a[2]) IN
      IF ~u.ok THEN u
      ELSE LET p == Prot_FromBstr(v.a[1]) IN
        IF ~p.ok THEN p
        ELSE Good([prot |-> p.x, unprot |-> u.x, cipher |-> c.x])

Msg_FromCbor(ty, v) ==
  CASE ty = "CoseSign" -> Sign_FromCbor(v)
    [] ty = "CoseSign1" -> Sign1_FromCbor(v)
    [] ty = "CoseMac" -> Mac_FromCbor(v)
    [] ty = "CoseMac0" -> Mac0_FromCbor(v)
    [] ty = "CoseEncrypt" -> Encrypt_FromCbor(v)
    [] ty = "CoseEncrypt0" -> Encrypt0_FromCbor(v)
    [] ty = "CoseRecipient" -> Recipient_FromCbor(v)
    [] ty = "CoseSignature" -> Sig_FromCbor(v)

(* ======================= Design: encode ======================= *)
RECURSIVE Recipient_ToCbor(_)
RECURSIVE RecipsTo(_, _)
RecipsTo(s, acc) ==
  IF s = <<>> THEN Good(acc)
  ELSE LET r == Recipient_ToCbor(s[1]) IN IF ~r.ok THEN r ELSE RecipsTo(Tail(s), Append(acc, r.x))

(* the two header slots, shared by every structure *)
HeadersTo(x) ==
  LET p == Prot_Bstr(x.prot) IN
  IF ~p.ok THEN p
  ELSE LET u == Header_ToCbor(x.unprot) IN IF ~u.ok THEN u ELSE Good(<<p.x, u.x>>)

Recipient_ToCbor(x) ==
  LET h == HeadersTo(x) IN
  IF ~h.ok THEN h
  ELSE IF x.recips = <<>> THEN Good(Arr(h.x \o <<OptBytesTo(x.cipher)>>))
  ELSE LET rs == RecipsTo(x.recips, <<>>) IN
    IF ~rs.ok THEN rs ELSE Good(Arr(h.x \o <<OptBytesTo(x.cipher), Arr(rs.x)>>))

Msg_ToCbor(ty, x) ==
  IF ty = "CoseSignature" THEN Sig_ToCbor(x)
  ELSE IF ty = "CoseRecipient" THEN Recipient_ToCbor(x)
  ELSE LET h == HeadersTo(x) IN
  IF ~h.ok THEN h
  ELSE
  CASE ty = "CoseSign" -> LET ss == SigsTo(x.sigs, <<>>) IN
         IF ~ss.ok THEN ss ELSE Good(Arr(h.x \o <<OptBytesTo(x.payload), Arr(ss.x)>>))
    [] ty = "CoseSign1" -> Good(Arr(h.x \o <<OptBytesTo(x.payload), Bs(x.sig)>>))
    [] ty = "CoseMac" -> LET rs == RecipsTo(x.recips, <<>>) IN
         IF ~rs.ok THEN rs ELSE Good(Arr(h.x \o <<OptBytesTo(x.payload), Bs(x.tag), Arr(rs.x)>>))
    [] ty = "CoseMac0" -> Good(Arr(h.x \o <<OptBytesTo(x.payload), Bs(x.tag)>>))
    [] ty = "CoseEncrypt" -> LET rs == RecipsTo(x.recips, <<>>) IN
         IF ~rs.ok THEN rs ELSE Good(Arr(h.x \o <<OptBytesTo(x.cipher), Arr(rs.x)>>))
    [] ty = "CoseEncrypt0" -> Good(Arr(h.x \o <<OptBytesTo(x.cipher)>>))

(* ============================ Prop ============================ *)
BstrNil(v) == v.t \in {"bytes", "null"}
OptOf(v) == IF v.t = "bytes" THEN <<v.b>> ELSE <<>>

RECURSIVE Recipient_WF(_)
Recipient_WF(v) ==
  /\ v.t = "array" /\ Len(v.a) \in {3, 4}
  /\ Prot_WF(v.a[1]) /\ Header_WF(v.a[2]) /\ BstrNil(v.a[3])
  /\ Len(v.a) = 4 => v.a[4].t = "array" /\ \A i \in 1..Len(v.a[4].a) : Recipient_WF(v.a[4].a[i])

Msg_WF(ty, v) ==
  CASE ty = "CoseSignature" -> Signature_WF(v)
    [] ty = "CoseRecipient" -> Recipient_WF(v)
    [] ty = "CoseSign" -> v.t = "array" /\ Len(v.a) = 4 /\ Prot_WF(v.a[1]) /\ Header_WF(v.a[2]) /\ BstrNil(v.a[3])
                          /\ v.a[4].t = "array" /\ \A i \in 1..Len(v.a[4].a) : Signature_WF(v.a[4].a[i])
    [] ty = "CoseSign1" -> v.t = "array" /\ Len(v.a) = 4 /\ Prot_WF(v.a[1]) /\ Header_WF(v.a[2]) /\ BstrNil(v.a[3])
                          /\ v.a[4].t = "bytes"
    [] ty = "CoseMac" -> v.t = "array" /\ Len(v.a) = 5 /\ Prot_WF(v.a[1]) /\ Header_WF(v.a[2]) /\ BstrNil(v.a[3])
                          /\ v.a[4].t = "bytes"
                          /\ v.a[5].t = "array" /\ \A i \in 1..Len(v.a[5].a) : Recipient_WF(v.a[5].a[i])
    [] ty = "CoseMac0" -> v.t = "array" /\ Len(v.a) = 4 /\ Prot_WF(v.a[1]) /\ Header_WF(v.a[2]) /\ BstrNil(v.a[3])
                          /\ v.a[4].t = "bytes"
    [] ty = "CoseEncrypt" -> v.t = "array" /\ Len(v.a) = 4 /\ Prot_WF(v.a[1]) /\ Header_WF(v.a[2]) /\ BstrNil(v.a[3])
                          /\ v.a[4].t = "array" /\ \A i \in 1..Len(v.a[4].a) : Recipient_WF(v.a[4].a[i])
    [] ty = "CoseEncrypt0" -> v.t = "array" /\ Len(v.a) = 3 /\ Prot_WF(v.a[1]) /\ Header_WF(v.a[2]) /\ BstrNil(v.a[3])

RECURSIVE Recipient_ValueOf(_)
Recipient_ValueOf(v) ==
  [ prot |-> Prot_ValueOf(v.a[1]), unprot |-> Header_ValueOf(v.a[2]), cipher |-> OptOf(v.a[3]),
    recips |-> IF Len(v.a) = 4 THEN [i \in 1..Len(v.a[4].a) |-> Recipient_ValueOf(v.a[4].a[i])] ELSE <<>> ]

Msg_ValueOf(ty, v) ==
  CASE ty = "CoseSignature" -> Signature_ValueOf(v)
    [] ty = "CoseRecipient" -> Recipient_ValueOf(v)
    [] ty = "CoseSign" -> [prot |-> Prot_ValueOf(v.a[1]), unprot |-> Header_ValueOf(v.a[2]), payload |-> OptOf(v.a[3]),
                           sigs |-> [i \in 1..Len(v.a[4].a) |-> Signature_ValueOf(v.a[4].a[i])]]
    [] ty = "CoseSign1" -> [prot |-> Prot_ValueOf(v.a[1]), unprot |-> Header_ValueOf(v.a[2]), payload |-> OptOf(v.a[3]),
                           sig |-> v.a[4].b]
    [] ty = "CoseMac" -> [prot |-> Prot_ValueOf(v.a[1]), unprot |-> Header_ValueOf(v.a[2]), payload |-> OptOf(v.a[3]),
                           tag |-> v.a[4].b, recips |-> [i \in 1..Len(v.a[5].a) |-> Recipient_ValueOf(v.a[5].a[i])]]
    [] ty = "CoseMac0" -> [prot |-> Prot_ValueOf(v.a[1]), unprot |-> Header_ValueOf(v.a[2]), payload |-> OptOf(v.a[3]),
                           tag |-> v.a[4].b]
    [] ty = "CoseEncrypt" -> [prot |-> Prot_ValueOf(v.a[1]), unprot |-> Header_ValueOf(v.a[2]), cipher |-> OptOf(v.a[3]),
                           recips |-> [i \in 1..Len(v.a[4].a) |-> Recipient_ValueOf(v.a[4].a[i])]]
    [] ty = "CoseEncrypt0" -> [prot |-> Prot_ValueOf(v.a[1]), unprot |-> Header_ValueOf(v.a[2]), cipher |-> OptOf(v.a[3])]

(* an empty nested signatures / recipients array anywhere: C09 leaves the verdict open *)
RECURSIVE HasEmptyNested(_, _)
HasEmptyNested(ty, v) ==
  /\ v.t = "array"
  /\ LET k == CASE ty \in {"CoseSign", "CoseEncrypt"} -> 4 [] ty = "CoseMac" -> 5 [] ty = "CoseRecipient" -> 4 [] OTHER -> 0 IN
     /\ k > 0 /\ Len(v.a) >= k /\ v.a[k].t = "array"
     /\ \/ v.a[k].a = <<>>
        \/ ty # "CoseSign" /\ \E i \in 1..Len(v.a[k].a) : HasEmptyNested("CoseRecipient", v.a[k].a[i])

(* in-memory well-formedness *)
RECURSIVE Recipient_WFMem(_)
Recipient_WFMem(x) == Prot_WFMem(x.prot) /\ Header_WFMem(x.unprot) /\ \A i \in 1..Len(x.recips) : Recipient_WFMem(x.recips[i])
Msg_WFMem(ty, x) ==
  /\ Prot_WFMem(x.prot) /\ Header_WFMem(x.unprot)
  /\ ty = "CoseSign" => \A i \in 1..Len(x.sigs) : Sig_WFMem(x.sigs[i])
  /\ ty \in {"CoseMac", "CoseEncrypt", "CoseRecipient"} => \A i \in 1..Len(x.recips) : Recipient_WFMem(x.recips[i])
=============================================================================

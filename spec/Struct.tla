-------------------------------- MODULE Struct --------------------------------
(***************************************************************************)
(* Sig_structure (RFC 8152 4.4), MAC_structure (6.3), Enc_structure (5.3)  *)
(* and the per-type helpers built on them (tbs_data, verify_*, create_*,   *)
(* decrypt): what the caller's closure is handed.                          *)
(* Prop = the RFC's array encoded by Enc; Design = the wrappers' choice of *)
(* context, presence of sign_protected, None payload -> empty bstr, and    *)
(* the documented panics (DESIGN.md Appendix B).                           *)
(***************************************************************************)
EXTENDS Msg

Ascii == [
  Signature |-> <<83,105,103,110,97,116,117,114,101>>,
  Signature1 |-> <<83,105,103,110,97,116,117,114,101,49>>,
  CounterSignature |-> <<67,111,117,110,116,101,114,83,105,103,110,97,116,117,114,101>>,
  MAC |-> <<77,65,67>>,
  MAC0 |-> <<77,65,67,48>>,
  Encrypt |-> <<69,110,99,114,121,112,116>>,
  Encrypt0 |-> <<69,110,99,114,121,112,116,48>>,
  Enc_Recipient |-> <<69,110,99,95,82,101,99,105,112,105,101,110,116>>,
  Mac_Recipient |-> <<77,97,99,95,82,101,99,105,112,105,101,110,116>>,
  Rec_Recipient |-> <<82,101,99,95,82,101,99,105,112,105,101,110,116>> ]

(* crate enum variant  ->  RFC context string *)
SigCtx == [CoseSignature |-> "Signature", CoseSign1 |-> "Signature1", CounterSignature |-> "CounterSignature"]
MacCtx == [CoseMac |-> "MAC", CoseMac0 |-> "MAC0"]
EncCtx == [CoseEncrypt |-> "Encrypt", CoseEncrypt0 |-> "Encrypt0", EncRecipient |-> "Enc_Recipient",
           MacRecipient |-> "Mac_Recipient", RecRecipient |-> "Rec_Recipient"]
RecipientCtxs == {"EncRecipient", "MacRecipient", "RecRecipient"}

Panic == [kind |-> "panic"]
Bytes(b) == [kind |-> "ok", bytes |-> b]

(* the free functions; panic only if a built protected header cannot be encoded *)
SigStructure(ctx, body, sign, aad, payload) ==
  LET b == Prot_Bstr(body)
      s == IF sign = <<>> THEN Good(<<>>) ELSE
             (LET r == Prot_Bstr(sign[1]) IN IF r.ok THEN Good(<<r.x>>) ELSE r) IN
  IF ~b.ok \/ ~s.ok THEN Panic
  ELSE Bytes(Enc(Arr(<<Tx(Ascii[SigCtx[ctx]]), b.x>> \o s.x \o <<Bs(aad), Bs(payload)>>)))

MacStructure(ctx, prot, aad, payload) ==
  LET b == Prot_Bstr(prot) IN
  IF ~b.ok THEN Panic ELSE Bytes(Enc(Arr(<<Tx(Ascii[MacCtx[ctx]]), b.x, Bs(aad), Bs(payload)>>)))

EncStructure(ctx, prot, aad) ==
  LET b == Prot_Bstr(prot) IN
  IF ~b.ok THEN Panic ELSE Bytes(Enc(Arr(<<Tx(Ascii[EncCtx[ctx]]), b.x, Bs(aad)>>)))

(* ---------- per-type to-be-signed / to-be-MACed / AAD ---------- *)
PayloadOrEmpty(o) == IF o = <<>> THEN <<>> ELSE o[1]

Sign1_Tbs(x, aad) == SigStructure("CoseSign1", x.prot, <<>>, aad, PayloadOrEmpty(x.payload))
Sign1_TbsDetached(x, payload, aad) ==
  IF x.payload # <<>> THEN Panic ELSE SigStructure("CoseSign1", x.prot, <<>>, aad, payload)
Sign_Tbs(x, aad, sig) == SigStructure("CoseSignature", x.prot, <<sig.prot>>, aad, PayloadOrEmpty(x.payload))
Sign_TbsDetached(x, payload, aad, sig) ==
  IF x.payload # <<>> THEN Panic ELSE SigStructure("CoseSignature", x.prot, <<sig.prot>>, aad, payload)
Mac_Tbm(ty, x, aad) ==
  IF x.payload = <<>> THEN Panic ELSE MacStructure(ty, x.prot, aad, x.payload[1])
Enc_Aad(ty, x, aad) == EncStructure(ty, x.prot, aad)
Recipient_Aad(x, ctx, aad) == IF ctx \notin RecipientCtxs THEN Panic ELSE EncStructure(ctx, x.prot, aad)

(* ---------- Prop: the RFC arrays, stated independently of the wrappers ---------- *)
(* protected slot of a value: received bytes if decoded; else zero-length for an empty header; *)
(* else a deterministic encoding of the header's content (entry order not pinned, see 8).      *)
RfcSig(ctxText, bodySlot, signSlot, aad, payload) ==
  Enc(Arr(<<Tx(ctxText), Bs(bodySlot)>> \o (IF signSlot = <<>> THEN <<>> ELSE <<Bs(signSlot[1])>>) \o <<Bs(aad), Bs(payload)>>))
RfcMac(ctxText, slot, aad, payload) == Enc(Arr(<<Tx(ctxText), Bs(slot), Bs(aad), Bs(payload)>>))
RfcEnc(ctxText, slot, aad) == Enc(Arr(<<Tx(ctxText), Bs(slot), Bs(aad)>>))
=============================================================================

-------------------------------- MODULE IvPiv --------------------------------
(***************************************************************************)
(* Unbounded-history side check (Apalache): the HeaderBuilder machine of   *)
(* spec/Builder.tla projected onto the two fields C19 singles out.  The    *)
(* abstraction keeps only whether IV and Partial IV are non-empty; every   *)
(* other builder method leaves both untouched (frame condition, checked by *)
(* TLC on the concrete machine: MC_Builder!InvFrame).  IvPivExclusive is   *)
(* inductive, hence holds after call sequences of ANY length.              *)
(* Reported separately; no listed property relies on it.                   *)
(***************************************************************************)
EXTENDS Integers

VARIABLES
  \* @type: Bool;
  iv,
  \* @type: Bool;
  piv

Init == iv = FALSE /\ piv = FALSE
\* iv(bytes): sets IV (non-empty or empty argument) and clears Partial IV
SetIv(nonempty) == iv' = nonempty /\ piv' = FALSE
\* partial_iv(bytes): sets Partial IV and clears IV
SetPiv(nonempty) == piv' = nonempty /\ iv' = FALSE
\* key_id, algorithm, add_critical, content_type, value, ... : frame
Other == UNCHANGED <<iv, piv>>
Next == (\E b \in BOOLEAN : SetIv(b)) \/ (\E b \in BOOLEAN : SetPiv(b)) \/ Other

IvPivExclusive == ~(iv /\ piv)
IndInit == iv \in BOOLEAN /\ piv \in BOOLEAN /\ IvPivExclusive      \* any state satisfying the invariant
=============================================================================

---------------------------- MODULE LabelOrderAll ----------------------------
(***************************************************************************)
(* Unbounded side check (Apalache, SMT integers): C16's Design order on    *)
(* INTEGER labels -- the signum case table of `impl Ord for Label`,        *)
(* transcribed in spec/Label.tla as LabelCmpDesign -- equals bytewise      *)
(* lexicographic comparison of the deterministic CBOR encodings for ALL    *)
(* pairs of 64-bit integers, not only the boundary palette MC_LabelOrder   *)
(* enumerates; and the head of a text label is strictly monotone in the    *)
(* text length for ALL lengths below 2^64 (so `len.cmp().then(bytes.cmp)`  *)
(* is the lexicographic order of the encodings of text labels, and every   *)
(* integer label sorts before every text label).                           *)
(*                                                                         *)
(* The encoding is written out byte by byte (head byte + big-endian        *)
(* argument of 0/1/2/4/8 bytes) as a 9-slot function padded with -1, the   *)
(* same head rule as Cbor!Hd.  The binding of LabelCmpDesign to the crate  *)
(* is MC_LabelOrder's (TLC + replay); this module only lifts the           *)
(* Design |= Prop step from the palette to the whole domain.               *)
(* Reported separately (bin/check apalache); no registered command needs   *)
(* it.                                                                     *)
(***************************************************************************)
EXTENDS Integers

VARIABLES
  \* @type: Int;
  i,
  \* @type: Int;
  j,
  \* the eight big-endian bytes of the head argument of i and of j, tied to them LINEARLY in Init (no div / mod for the solver)
  \* @type: Int;
  x1,
  \* @type: Int;
  x2,
  \* @type: Int;
  x3,
  \* @type: Int;
  x4,
  \* @type: Int;
  x5,
  \* @type: Int;
  x6,
  \* @type: Int;
  x7,
  \* @type: Int;
  x8,
  \* @type: Int;
  y1,
  \* @type: Int;
  y2,
  \* @type: Int;
  y3,
  \* @type: Int;
  y4,
  \* @type: Int;
  y5,
  \* @type: Int;
  y6,
  \* @type: Int;
  y7,
  \* @type: Int;
  y8,
  \* @type: Bool;
  text

P63 == 2^63
P64 == 2^64

\* argument of the head: n for a non-negative integer, -1 - n for a negative one
Arg(n) == IF n >= 0 THEN n ELSE (0 - 1) - n
Major(n) == IF n >= 0 THEN 0 ELSE 1

\* additional information and width of the argument (RFC 8949 3: shortest form)
Ai(a) == IF a < 24 THEN a ELSE IF a < 256 THEN 24 ELSE IF a < 65536 THEN 25 ELSE IF a < 4294967296 THEN 26 ELSE 27
Width(a) == IF a < 24 THEN 0 ELSE IF a < 256 THEN 1 ELSE IF a < 65536 THEN 2 ELSE IF a < 4294967296 THEN 4 ELSE 8

Pow256(k) == IF k = 0 THEN 1 ELSE IF k = 1 THEN 256 ELSE IF k = 2 THEN 65536 ELSE IF k = 3 THEN 16777216
             ELSE IF k = 4 THEN 4294967296 ELSE IF k = 5 THEN 1099511627776 ELSE IF k = 6 THEN 281474976710656
             ELSE 72057594037927936

\* the n-th (1..8) big-endian byte of an 8-byte argument, side 1 = i, side 2 = j
BE(side, n) ==
  IF side = 1 THEN (IF n = 1 THEN x1 ELSE IF n = 2 THEN x2 ELSE IF n = 3 THEN x3 ELSE IF n = 4 THEN x4
                    ELSE IF n = 5 THEN x5 ELSE IF n = 6 THEN x6 ELSE IF n = 7 THEN x7 ELSE x8)
  ELSE (IF n = 1 THEN y1 ELSE IF n = 2 THEN y2 ELSE IF n = 3 THEN y3 ELSE IF n = 4 THEN y4
        ELSE IF n = 5 THEN y5 ELSE IF n = 6 THEN y6 ELSE IF n = 7 THEN y7 ELSE y8)
Val8(side) == BE(side, 1) * Pow256(7) + BE(side, 2) * Pow256(6) + BE(side, 3) * Pow256(5) + BE(side, 4) * Pow256(4)
              + BE(side, 5) * Pow256(3) + BE(side, 6) * Pow256(2) + BE(side, 7) * Pow256(1) + BE(side, 8)
Byte(b) == 0 <= b /\ b <= 255

\* byte k (1-based) of the head of major type m with argument a (whose bytes are those of `side`); -1 beyond its end:
\* the argument occupies the LAST Width(a) of the eight bytes (the leading ones are zero because a < 256^Width(a))
\* @type: (Int, Int, Int, Int) => Int;
HdByte(side, m, a, k) ==
  IF k = 1 THEN m * 32 + Ai(a)
  ELSE IF k - 1 > Width(a) THEN 0 - 1
  ELSE BE(side, 8 - Width(a) + (k - 1))

\* sign of the first differing byte among the 9 slots (0 if none): bytewise lexicographic comparison,
\* a proper prefix (slot -1) sorting first
Sgn(x, y) == IF x < y THEN 0 - 1 ELSE IF x > y THEN 1 ELSE 0
LexCmpHd(m1, a1, m2, a2) ==
  LET d(k) == Sgn(HdByte(1, m1, a1, k), HdByte(2, m2, a2, k)) IN
  IF d(1) # 0 THEN d(1) ELSE IF d(2) # 0 THEN d(2) ELSE IF d(3) # 0 THEN d(3) ELSE IF d(4) # 0 THEN d(4)
  ELSE IF d(5) # 0 THEN d(5) ELSE IF d(6) # 0 THEN d(6) ELSE IF d(7) # 0 THEN d(7) ELSE IF d(8) # 0 THEN d(8) ELSE d(9)

\* `impl Ord for Label`, (Label::Int, Label::Int) arm -- the signum table
Signum(n) == IF n < 0 THEN 0 - 1 ELSE IF n > 0 THEN 1 ELSE 0
DesignCmp(a, b) ==
  LET sa == Signum(a) sb == Signum(b) IN
  IF sa = 0 - 1 /\ sb = 0 - 1 THEN Sgn(b, a)
  ELSE IF sa = 0 - 1 THEN 1
  ELSE IF sb = 0 - 1 THEN 0 - 1
  ELSE IF sa = 0 /\ sb = 0 THEN 0
  ELSE IF sa = 0 THEN 0 - 1
  ELSE IF sb = 0 THEN 1
  ELSE Sgn(a, b)

I64(n) == n >= 0 - P63 /\ n < P63
\* text = FALSE: i, j are two integer labels; text = TRUE: i, j are two text lengths (or, in lemma 3, i an integer label
\* and j a text length: then only the first head bytes are compared and the argument bytes are irrelevant)
ArgI == IF text THEN i ELSE Arg(i)
ArgJ == IF text THEN j ELSE Arg(j)
Init == /\ i \in Int /\ j \in Int /\ text \in BOOLEAN
        /\ x1 \in Int /\ x2 \in Int /\ x3 \in Int /\ x4 \in Int /\ x5 \in Int /\ x6 \in Int /\ x7 \in Int /\ x8 \in Int
        /\ y1 \in Int /\ y2 \in Int /\ y3 \in Int /\ y4 \in Int /\ y5 \in Int /\ y6 \in Int /\ y7 \in Int /\ y8 \in Int
        /\ Byte(x1) /\ Byte(x2) /\ Byte(x3) /\ Byte(x4) /\ Byte(x5) /\ Byte(x6) /\ Byte(x7) /\ Byte(x8)
        /\ Byte(y1) /\ Byte(y2) /\ Byte(y3) /\ Byte(y4) /\ Byte(y5) /\ Byte(y6) /\ Byte(y7) /\ Byte(y8)
        /\ (text => (0 <= i /\ i < P64 /\ 0 <= j /\ j < P64))
        /\ (~text => (I64(i) /\ I64(j)))
        /\ Val8(1) = ArgI /\ Val8(2) = ArgJ
Next == UNCHANGED <<i, j, text, x1, x2, x3, x4, x5, x6, x7, x8, y1, y2, y3, y4, y5, y6, y7, y8>>

(* 1. integer labels, all pairs of i64: Design = lexicographic order of the encodings *)
IntOrderIsLex == ~text => DesignCmp(i, j) = LexCmpHd(Major(i), Arg(i), Major(j), Arg(j))

(* 2. text labels: for lengths 0 <= i < j < 2^64 the heads differ, the shorter length first, and the difference lies
      inside both heads (no head is a prefix of the other), so the text bytes never decide when the lengths differ *)
FirstDiff(m1, a1, m2, a2) ==
  LET ne(k) == HdByte(1, m1, a1, k) # HdByte(2, m2, a2, k) IN
  IF ne(1) THEN 1 ELSE IF ne(2) THEN 2 ELSE IF ne(3) THEN 3 ELSE IF ne(4) THEN 4 ELSE IF ne(5) THEN 5
  ELSE IF ne(6) THEN 6 ELSE IF ne(7) THEN 7 ELSE IF ne(8) THEN 8 ELSE IF ne(9) THEN 9 ELSE 10
TextHeadMonotone ==
  (text /\ i < j) =>
     /\ LexCmpHd(3, i, 3, j) = 0 - 1
     /\ FirstDiff(3, i, 3, j) <= 1 + Width(i)
     /\ FirstDiff(3, i, 3, j) <= 1 + Width(j)

(* 3. every integer label sorts before every text label: decided by the first byte *)
IntBeforeText == \A n \in {i, j} : \A l \in {i, j} : (I64(n) /\ 0 <= l /\ l < P64) => HdByte(1, Major(n), Arg(n), 1) < HdByte(2, 3, l, 1)

(* 4. the same heads are injective (C16: equal exactly when the labels are equal) *)
IntInjective == (~text /\ LexCmpHd(Major(i), Arg(i), Major(j), Arg(j)) = 0) => i = j

All == IntOrderIsLex /\ TextHeadMonotone /\ IntBeforeText /\ IntInjective

(* negative controls: each must be REFUTED by Apalache (non-vacuity of Init, and the lemma is not a tautology) *)
CtlReach1 == ~(~text /\ i = 0 - 9223372036854775808 /\ j = 9223372036854775807)
CtlReach2 == ~(text /\ i = 255 /\ j = 18446744073709551615)
CtlWrongNeg == ~text => (IF i < 0 /\ j < 0 THEN Sgn(i, j) ELSE DesignCmp(i, j)) = LexCmpHd(Major(i), Arg(i), Major(j), Arg(j))
CtlNumeric == ~text => Sgn(i, j) = LexCmpHd(Major(i), Arg(i), Major(j), Arg(j))
=============================================================================

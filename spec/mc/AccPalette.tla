------------------------------ MODULE AccPalette ------------------------------
(***************************************************************************)
(* Representative ACCEPTED items of every type (used by the fixed-point    *)
(* and one-item instances, which quantify over accepted inputs).           *)
(***************************************************************************)
EXTENDS Palette

PA == Bs(<<161, 1, 38>>)                          \* protected {1:-7}
HdrFull == Map(<< <<Nat2I(1), Neg2I(7)>>, <<Nat2I(2), Arr(<<Nat2I(1), Ta>>)>>, <<Nat2I(3), Tx(<<97,47,98>>)>>, <<Nat2I(4), B12>>, <<Nat2I(5), B1>>,
                  <<Nat2I(7), SigAlg>>, <<Z2I(99), F15>>, <<Ta, Arr(<<Nil, Bool(TRUE)>>)>> >>)
HdrCs2 == Map(<< <<Nat2I(6), B1>>, <<Nat2I(7), Arr(<<SigMin, SigAlg>>)>>, <<Neg2I(65537), U64max>> >>)
RecipMinA == Arr(<<B0, EmptyMap, Nil>>)
MapOKp == Map(<< <<Nat2I(4), B1>> >>)
Recip4Empty == Arr(<<PA, EmptyMap, B1, EmptyArr>>)       \* 4-element recipient whose list is empty: re-encodes to 3 elements
RecipNestA == Arr(<<B0, Map(<< <<Nat2I(4), B1>> >>), B1, Arr(<<RecipMinA, Recip4Empty>>)>>)
KeyFull == Map(<< <<Neg2I(1), Nat2I(1)>>, <<Nat2I(4), Arr(<<Nat2I(2), Ta, Nat2I(1)>>)>>, <<Nat2I(1), Nat2I(2)>>, <<Nat2I(2), B1>>, <<Nat2I(3), Neg2I(7)>>,
                  <<Nat2I(5), B12>>, <<Neg2I(2), B12>>, <<Ta, F15>> >>)
ClaimsFull == Map(<< <<Nat2I(1), Ta>>, <<Nat2I(4), Nat2I(1)>>, <<Nat2I(5), F15>>, <<Nat2I(7), B1>>, <<Nat2I(8), EmptyMap>>, <<Neg2I(65537), Nil>>, <<Ta, Tag1>> >>)
PartyA == Arr(<<B1, Neg2I(5), Nil>>)
SuppA == Arr(<<Z2I(128), PA, B1>>)
KdfA == Arr(<<Neg2I(7), PartyA, Arr(<<Nil, Nil, Nil>>), SuppA, B1, B0>>)

HdrUtf8Ct == Map(<< <<Nat2I(3), Tx(<<195,169,195,169,47,230,151,165>>)>>, <<Tx(<<230,151,165>>), Tx(<<240,159,152,128>>)>> >>)   \* content type "éé/日"
(* extras under every label at an encoding-width boundary *)
BLabels == <<Nat2I(23), Nat2I(24), Z2I(255), Z2I(256), Z2I(65535), Z2I(65536), Neg2I(24), Neg2I(25), Neg2I(256), Neg2I(257), I63max, N63>>
BoundaryExtras == [i \in 1..Len(BLabels) |-> <<BLabels[i], Nat2I(i)>>]
AccItems == <<
  <<"Header", "", Map(BoundaryExtras)>>, <<"CoseKey", "", Map(<< <<Nat2I(1), Nat2I(1)>> >> \o BoundaryExtras)>>,
  <<"ClaimsSet", "", Map(<< <<Nat2I(38), Nat2I(1)>>, <<Neg2I(65537), Nat2I(2)>>, <<Neg2I(70000), Nat2I(3)>>, <<N63, Nat2I(4)>> >>)>>,
  <<"Header", "", EmptyMap>>, <<"Header", "", HdrUtf8Ct>>, <<"CoseSign1", "", Arr(<<Bs(Enc(HdrUtf8Ct)), HdrUtf8Ct, B1, B0>>)>>, <<"Header", "", HdrFull>>, <<"Header", "", HdrCs2>>,
  <<"ProtectedHeader", "", HdrFull>>,
  <<"CoseSignature", "", SigAlg>>, <<"CoseSignature", "", SigNested>>,
  <<"CoseSign1", "", Arr(<<PA, HdrCs2, Nil, B1>>)>>, <<"CoseSign1", "", Arr(<<B0, EmptyMap, B12, B0>>)>>,
  <<"CoseSign", "", Arr(<<Bs(<<160>>), EmptyMap, B1, Arr(<<SigMin, SigAlg>>)>>)>>,
  <<"CoseSign", "", Arr(<<PA, MapOKp, Nil, Arr(<<SigAlg>>)>>)>>,                      \* detached payload
  <<"CoseMac", "", Arr(<<B0, EmptyMap, Nil, B1, Arr(<<RecipMinA>>)>>)>>,              \* no payload
  <<"CoseEncrypt", "", Arr(<<B0, EmptyMap, B12, Arr(<<RecipMinA>>)>>)>>,              \* ciphertext present
  <<"CoseEncrypt0", "", Arr(<<PA, EmptyMap, Nil>>)>>,                                 \* no ciphertext
  <<"CoseRecipient", "", Arr(<<PA, EmptyMap, B1>>)>>,
  <<"CoseMac", "", Arr(<<PA, EmptyMap, B1, B12, Arr(<<RecipNestA>>)>>)>>,
  <<"CoseMac0", "", Arr(<<PA, Map(<< <<Nat2I(4), B1>> >>), Nil, B1>>)>>,
  <<"CoseEncrypt", "", Arr(<<PA, EmptyMap, Nil, Arr(<<RecipMinA, Recip4Empty>>)>>)>>,
  <<"CoseEncrypt0", "", Arr(<<B0, HdrFull, B1>>)>>,
  <<"CoseRecipient", "", Recip4Empty>>, <<"CoseRecipient", "", RecipNestA>>,
  <<"CoseKey", "", KeyFull>>, <<"CoseKey", "", Map(<< <<Nat2I(1), Ta>> >>)>>,
  <<"CoseKeySet", "", Arr(<<KeyFull, Map(<< <<Nat2I(1), Nat2I(4)>>, <<Neg2I(1), B1>> >>)>>)>>, <<"CoseKeySet", "", EmptyArr>>,
  <<"ClaimsSet", "", ClaimsFull>>, <<"ClaimsSet", "", EmptyMap>>,
  <<"PartyInfo", "", PartyA>>, <<"SuppPubInfo", "", SuppA>>, <<"SuppPubInfo", "", Arr(<<U64max, B0>>)>>, <<"CoseKdfContext", "", KdfA>>,
  <<"Label", "", N63>>, <<"Label", "", Tx(<<195,169>>)>>, <<"Label", "", Nat2I(23)>>, <<"Label", "", Nat2I(24)>>, <<"Label", "", Neg2I(24)>>,
  <<"Label", "", Neg2I(25)>>, <<"Label", "", Z2I(256)>>,
  <<"RegisteredLabelWithPrivate", "Algorithm", Neg2I(65537)>>, <<"RegisteredLabel", "CoapContentFormat", Z2I(11544)>>,
  <<"Value", "", Arr(<<U64max, N64, F15, Tag(<<217,247>>, HdrFull), Flt(<<127,248,0,0,0,0,0,0>>)>>)>> >>
NAcc == Len(AccItems)
TaggedAcc == {i \in 1..NAcc : AccItems[i][1] \in TaggedTypes}
=============================================================================

------------------------------ MODULE MC_Builder ------------------------------
(***************************************************************************)
(* C19: every builder as a state machine.  State = the history of calls    *)
(* (every prefix of a call sequence is itself a call sequence, so every    *)
(* reachable state is one test: the crate is re-run from new() and the     *)
(* built value compared after EACH prefix).                                *)
(***************************************************************************)
EXTENDS Palette, Json

CONSTANT MaxLen

V1 == Nat2I(1)
H1 == [EmptyHeader EXCEPT !.alg = <<Assigned("Algorithm", "ES256")>>]
H2 == [EmptyHeader EXCEPT !.kid = <<49>>, !.rest = << <<Ta, Nil>>, <<Nat2I(9), B1>> >>]
SigV == [prot |-> [orig |-> <<>>, hdr |-> H1], unprot |-> EmptyHeader, sig |-> <<7>>]
SigW == [prot |-> [orig |-> <<<<161, 1, 38>>>>, hdr |-> H1], unprot |-> H2, sig |-> <<>>]
Rcp == [prot |-> EmptyProt, unprot |-> H2, cipher |-> <<<<9>>>>, recips |-> <<>>]
ROk(b) == [ok |-> TRUE, bytes |-> b]
RErr == [ok |-> FALSE, bytes |-> <<>>]
C(m) == [ev |-> "call", m |-> m]

HeaderCalls ==
  {[ev |-> "call", m |-> "key_id", bytes |-> b] : b \in {<<>>, <<1>>}}
  \cup {[ev |-> "call", m |-> "algorithm", nm |-> n] : n \in {"ES256", "A128GCM"}}
  \cup {[ev |-> "call", m |-> "add_critical", nm |-> "Alg"], [ev |-> "call", m |-> "add_critical_label", lbl |-> TextL(<<97>>)],
        [ev |-> "call", m |-> "content_format", nm |-> "Cbor"], [ev |-> "call", m |-> "content_type", txt |-> <<65, 47, 98, 59, 32, 81, 61, 90>>]}     \* "A/b; Q=Z"
  \cup {[ev |-> "call", m |-> mm, bytes |-> b] : mm \in {"iv", "partial_iv"}, b \in {<<>>, <<1>>, <<2>>}}
  \cup {[ev |-> "call", m |-> "add_counter_signature", sigv |-> SigV]}
  \cup {[ev |-> "call", m |-> "value", z |-> z, val |-> V1] : z \in {Nat2I(0), Nat2I(1), Nat2I(7), Nat2I(8), Neg2I(1), I63max}}
  \cup {[ev |-> "call", m |-> "text_value", txt |-> <<97>>, val |-> B1]}

CommonCalls == {[ev |-> "call", m |-> mm, hdr |-> h] : mm \in {"protected", "unprotected"}, h \in {H1, H2, EmptyHeader}}
SignatureCalls == CommonCalls \cup {[ev |-> "call", m |-> "signature", bytes |-> b] : b \in {<<>>, <<5>>}}
Aads == {<<>>, <<170>>}
Sign1Calls ==
  CommonCalls
  \cup {[ev |-> "call", m |-> mm, bytes |-> b] : mm \in {"payload", "signature"}, b \in {<<>>, <<5>>}}
  \cup {[ev |-> "call", m |-> "create_signature", aad |-> a, res |-> ROk(<<8>>)] : a \in Aads}
  \cup {[ev |-> "call", m |-> "try_create_signature", aad |-> <<170>>, res |-> r] : r \in {ROk(<<8>>), RErr}}
  \cup {[ev |-> "call", m |-> "create_detached_signature", pl |-> <<6>>, aad |-> <<170>>, res |-> ROk(<<8>>)]}
  \cup {[ev |-> "call", m |-> "try_create_detached_signature", pl |-> <<6>>, aad |-> <<>>, res |-> r] : r \in {ROk(<<8>>), RErr}}
SignCalls ==
  CommonCalls
  \cup {[ev |-> "call", m |-> "payload", bytes |-> <<5>>]}
  \cup {[ev |-> "call", m |-> "add_signature", sigv |-> s] : s \in {SigV, SigW}}
  \cup {[ev |-> "call", m |-> "add_created_signature", sigv |-> s, aad |-> <<170>>, res |-> ROk(<<8>>)] : s \in {SigV, SigW}}
  \cup {[ev |-> "call", m |-> "try_add_created_signature", sigv |-> SigV, aad |-> <<>>, res |-> r] : r \in {ROk(<<8>>), RErr}}
  \cup {[ev |-> "call", m |-> "add_detached_signature", sigv |-> SigW, pl |-> <<6>>, aad |-> <<170>>, res |-> ROk(<<8>>)]}
  \cup {[ev |-> "call", m |-> "try_add_detached_signature", sigv |-> SigV, pl |-> <<6>>, aad |-> <<>>, res |-> r] : r \in {ROk(<<8>>), RErr}}
MacCalls(ty) ==
  CommonCalls
  \cup {[ev |-> "call", m |-> mm, bytes |-> b] : mm \in {"payload", "tag"}, b \in {<<>>, <<5>>}}
  \cup (IF ty = "CoseMac" THEN {[ev |-> "call", m |-> "add_recipient", rcp |-> Rcp]} ELSE {})
  \cup {[ev |-> "call", m |-> "create_tag", aad |-> a, res |-> ROk(<<8>>)] : a \in Aads}
  \cup {[ev |-> "call", m |-> "try_create_tag", aad |-> <<170>>, res |-> r] : r \in {ROk(<<8>>), RErr}}
EncCalls(ty) ==
  CommonCalls
  \cup {[ev |-> "call", m |-> "ciphertext", bytes |-> b] : b \in {<<>>, <<5>>}}
  \cup (IF ty # "CoseEncrypt0" THEN {[ev |-> "call", m |-> "add_recipient", rcp |-> Rcp]} ELSE {})
  \cup (IF ty = "CoseRecipient"
        THEN {[ev |-> "call", m |-> "create_ciphertext", ctx |-> c, pt |-> <<6>>, aad |-> <<170>>, res |-> ROk(<<8>>)] :
                  c \in {"EncRecipient", "MacRecipient", "RecRecipient", "CoseEncrypt", "CoseEncrypt0"}}
             \cup {[ev |-> "call", m |-> "try_create_ciphertext", ctx |-> c, pt |-> <<6>>, aad |-> <<>>, res |-> r] :
                  c \in {"RecRecipient", "CoseEncrypt0"}, r \in {ROk(<<8>>), RErr}}
        ELSE {[ev |-> "call", m |-> "create_ciphertext", pt |-> <<6>>, aad |-> a, res |-> ROk(<<8>>)] : a \in Aads}
             \cup {[ev |-> "call", m |-> "try_create_ciphertext", pt |-> <<6>>, aad |-> <<170>>, res |-> r] : r \in {ROk(<<8>>), RErr}})
KeyCalls ==
  {[ev |-> "call", m |-> "kty", lbl |-> l] : l \in {Assigned("KeyType", "RSA"), TextL(<<97>>)}}
  \cup {[ev |-> "call", m |-> mm, bytes |-> b] : mm \in {"key_id", "base_iv"}, b \in {<<>>, <<1>>}}
  \cup {[ev |-> "call", m |-> "key_type", nm |-> "Symmetric"], [ev |-> "call", m |-> "algorithm", nm |-> "ES256"]}
  \cup {[ev |-> "call", m |-> "add_key_op", nm |-> n] : n \in {"Verify", "Sign", "MacVerify"}}
  \cup {[ev |-> "call", m |-> "param", z |-> z, val |-> V1] : z \in {Nat2I(0), Nat2I(1), Nat2I(2), Nat2I(5), Nat2I(6), Neg2I(1), Neg2I(2)}}
KeyCtors ==
  {[ev |-> "ctor", m |-> "new"], [ev |-> "ctor", m |-> "new_okp_key"], [ev |-> "ctor", m |-> "new_symmetric_key", kk |-> <<1, 2>>],
   [ev |-> "ctor", m |-> "new_ec2_pub_key", crv |-> "P_256", kx |-> <<1>>, ky |-> <<2>>],
   [ev |-> "ctor", m |-> "new_ec2_pub_key_y_sign", crv |-> "P_384", kx |-> <<1>>, ysign |-> TRUE],
   [ev |-> "ctor", m |-> "new_ec2_priv_key", crv |-> "Secp256k1", kx |-> <<1>>, ky |-> <<2>>, kd |-> <<3>>]}
ClaimsCalls ==
  {[ev |-> "call", m |-> mm, txt |-> <<97>>] : mm \in {"issuer", "subject", "audience"}}
  \cup {[ev |-> "call", m |-> mm, ts |-> t] : mm \in {"expiration_time", "not_before", "issued_at"}, t \in {Whole(Nat2I(1)), Frac(<<63,248,0,0,0,0,0,0>>)}}
  \cup {[ev |-> "call", m |-> "cwt_id", bytes |-> <<1>>]}
  \cup {[ev |-> "call", m |-> "claim", nm |-> n, val |-> V1] : n \in {"Cnf", "Iss", "Cti", "Reserved", "Hcert"}}
  \cup {[ev |-> "call", m |-> "text_claim", txt |-> <<97>>, val |-> V1]}
  \cup {[ev |-> "call", m |-> "private_claim", z |-> z, val |-> V1] : z \in {Neg2I(65537), Neg2I(65536), Nat2I(1), N63}}
PartyCalls ==
  {[ev |-> "call", m |-> mm, bytes |-> b] : mm \in {"identity", "other"}, b \in {<<>>, <<1>>}}
  \cup {[ev |-> "call", m |-> "nonce", nonce |-> n] : n \in {NonceB(<<1>>), NonceI(Neg2I(5))}}
SuppCalls ==
  {[ev |-> "call", m |-> "key_data_length", z |-> z] : z \in {Z2I(128), U64max}}
  \cup {[ev |-> "call", m |-> "protected", hdr |-> h] : h \in {H1, EmptyHeader}}
  \cup {[ev |-> "call", m |-> "other", bytes |-> <<1>>]}
P1 == [identity |-> <<<<1>>>>, nonce |-> <<>>, other |-> <<>>]
S1 == [kdl |-> Z2I(128), prot |-> [orig |-> <<>>, hdr |-> H1], other |-> <<>>]
KdfCalls ==
  {[ev |-> "call", m |-> mm, party |-> P1] : mm \in {"party_u_info", "party_v_info"}}
  \cup {[ev |-> "call", m |-> "supp_pub_info", spi |-> S1], [ev |-> "call", m |-> "algorithm", nm |-> "A128GCM"]}
  \cup {[ev |-> "call", m |-> "add_supp_priv_info", bytes |-> b] : b \in {<<1>>, <<2>>}}

Calls(ty) ==
  CASE ty = "Header" -> HeaderCalls [] ty = "CoseSignature" -> SignatureCalls [] ty = "CoseSign" -> SignCalls
    [] ty = "CoseSign1" -> Sign1Calls [] ty \in {"CoseMac", "CoseMac0"} -> MacCalls(ty)
    [] ty \in {"CoseEncrypt", "CoseEncrypt0", "CoseRecipient"} -> EncCalls(ty) [] ty = "CoseKey" -> KeyCalls
    [] ty = "ClaimsSet" -> ClaimsCalls [] ty = "PartyInfo" -> PartyCalls [] ty = "SuppPubInfo" -> SuppCalls
    [] ty = "CoseKdfContext" -> KdfCalls

VARIABLES ty, first, hist
vars == <<ty, first, hist>>
Init == /\ hist = <<>>
        /\ \/ ty \in BuilderTypes \ {"CoseKey"} /\ first = [ev |-> "new", ty |-> ty]
           \/ ty = "CoseKey" /\ first \in KeyCtors
Steps == <<first>> \o hist
Cur == Run(InitState, Steps)
Alive == Cur.mem.k = "builder"
Next == /\ Alive /\ Len(hist) < MaxLen
        /\ \E e \in Calls(ty) : hist' = Append(hist, e)
        /\ UNCHANGED <<ty, first>>
Spec == Init /\ [][Next]_vars

(* invariants of the builder machines *)
InvIvPiv == Alive /\ ty = "Header" => ~(Cur.mem.val.iv # <<>> /\ Cur.mem.val.piv # <<>>)
InvBuiltProtNoOrig == Alive /\ ty \in MsgTypes => Cur.mem.val.prot.orig = <<>>
(* a reserved label never enters the extras through value()/param()/claim() *)
InvReserved ==
  Alive => CASE ty = "Header" -> \A i \in 1..Len(Cur.mem.val.rest) : ~(\E n \in 1..7 : Cur.mem.val.rest[i][1] = Nat2I(n))
             [] ty = "CoseKey" -> \A i \in 1..Len(Cur.mem.val.params) : ~(\E n \in 1..5 : Cur.mem.val.params[i][1] = Nat2I(n))
             [] ty = "ClaimsSet" -> \A i \in 1..Len(Cur.mem.val.rest) :
                   LET n == Cur.mem.val.rest[i][1] IN
                   ~(n.k = "assigned" /\ ValueOfName("CwtClaimName", n.name) \in 1..7) /\ (n.k = "priv" => IsPrivateInt(n.v))
             [] OTHER -> TRUE
(* frame condition: a call changes only the fields its documentation names (checked for the header setters) *)
Prev == Run(InitState, <<first>> \o SubSeq(hist, 1, Len(hist) - 1))
Touched(m) == CASE m = "key_id" -> {"kid"} [] m = "algorithm" -> {"alg"} [] m \in {"add_critical", "add_critical_label"} -> {"crit"}
                [] m \in {"content_format", "content_type"} -> {"ct"} [] m \in {"iv", "partial_iv"} -> {"iv", "piv"}
                [] m = "add_counter_signature" -> {"cs"} [] m \in {"value", "text_value"} -> {"rest"}
InvFrame == Alive /\ ty = "Header" /\ hist # <<>> =>
              \A f \in DOMAIN EmptyHeader \ Touched(Last(hist).m) : Cur.mem.val[f] = Prev.mem.val[f]

Unjudged(e) == e.ev = "call" /\ ty = "CoseKey" /\ KeyParamUnjudged(e)
FullSteps == IF Alive THEN Steps \o <<[ev |-> "build"]>> ELSE Steps
Annot(obs, e) == [kind |-> obs.kind, err |-> obs.err, bytes |-> obs.bytes, cb |-> obs.cb, ret |-> obs.ret, val |-> obs.val,
                  judge |-> ~Unjudged(e), slotfree |-> TRUE, pinerr |-> FALSE]
Expected == LET o == RunObs(InitState, FullSteps, <<>>) IN [i \in 1..Len(o) |-> Annot(o[i], FullSteps[i])]
Emit == PrintT(ToJson([kind |-> "session", props |-> <<"C19">>, ty |-> ty, steps |-> FullSteps, expect |-> Expected,
                       nt |-> Len(hist) >= 1]))
=============================================================================

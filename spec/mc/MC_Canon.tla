------------------------------- MODULE MC_Canon -------------------------------
(***************************************************************************)
(* C20: every subset of typed key fields x every arrangement of up to      *)
(* MaxExtras distinct extra labels (negative, small, large, text, extreme) *)
(* x both orderings.  The Prop order is computed on the ENCODED keys.      *)
(***************************************************************************)
EXTENDS Palette, Json

CONSTANT MaxExtras

ExtraLabels == {Nat2I(0), Nat2I(6), Nat2I(23), Nat2I(24), Nat2I(255), Z2I(256), Neg2I(1), Neg2I(2), Neg2I(24), Neg2I(25), Neg2I(257),
                Tx(<<97>>), Tx(<<98>>), Tx(<<97, 97>>), I63max, N63,
                Tx(<<195, 169>>)}     \* one character, two bytes: next to "aa" it separates byte length from character count (round 6)
Orders == {"Lexicographic", "LengthFirstLexicographic"}
Base(sub) == [EmptyKey EXCEPT !.kty = Assigned("KeyType", "EC2"),
                !.kid = IF 1 \in sub THEN <<1>> ELSE <<>>,
                !.alg = IF 2 \in sub THEN <<Assigned("Algorithm", "ES256")>> ELSE <<>>,
                !.ops = IF 3 \in sub THEN <<Assigned("KeyOperation", "Sign"), Assigned("KeyOperation", "Verify")>> ELSE <<>>,
                !.biv = IF 4 \in sub THEN <<2>> ELSE <<>>]

VARIABLES sub, extras, ord
vars == <<sub, extras, ord>>
Init == sub \in SUBSET {1, 2, 3, 4} /\ ord \in Orders /\ extras = <<>>
Next == /\ Len(extras) < MaxExtras
        /\ \E l \in ExtraLabels : (\A i \in 1..Len(extras) : extras[i] # l) /\ extras' = Append(extras, l)
        /\ UNCHANGED <<sub, ord>>
Spec == Init /\ [][Next]_vars

Key0 == [Base(sub) EXCEPT !.params = [i \in 1..Len(extras) |-> <<extras[i], Nat2I(i)>>]]
Canon == Key_Canonicalize(Key0, ord)
Before == Key_ToCbor(Key0).x
After == Key_ToCbor(Canon).x
HasZero == \E i \in 1..Len(extras) : extras[i] = Nat2I(0)

(* Design |= Prop, except where the Design (= the code) is known not to deliver (finding F6: label 0) *)
InvSorted == ~HasZero => Canon_Sorted(After, ord)
InvPairs == PairSet(After) = PairSet(Before)
InvIdem == Key_Canonicalize(Canon, ord) = Canon
InvStable == LET d == Key_FromCbor(After) IN d.ok /\ Key_ToCbor(d.x).x = After
InvSameKey == LET a == Key_FromCbor(After).x b == Key_FromCbor(Before).x IN
                [a EXCEPT !.params = <<>>] = [b EXCEPT !.params = <<>>] /\ {a.params[i] : i \in 1..Len(a.params)} = {b.params[i] : i \in 1..Len(b.params)}
(* the counterexample the Design admits: recorded so that the finding is visible at the specification level too *)
F6Witness == HasZero /\ ~Canon_Sorted(After, ord)
InvF6Exact == HasZero => ~Canon_Sorted(After, ord)      \* label 0 ALWAYS breaks it (0x00 sorts before kty's 0x01)

Emit == PrintT(ToJson([kind |-> "canon", props |-> <<"C20">>, key |-> Key0, ord |-> ord, nt |-> Len(extras) >= 2,
                       tags |-> IF HasZero THEN <<"extras-contain-int-label-0">> ELSE <<>>,
                       expect |-> [canon |-> Canon, bytes |-> Enc(After)]]))
=============================================================================

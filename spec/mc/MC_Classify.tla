---------------------------- MODULE MC_Classify ----------------------------
(***************************************************************************)
(* C17: the registry tables (one "iana_table" vector per registry; the     *)
(* harness walks the whole window [-70000, 70000] plus the 64-bit extremes *)
(* through from_i64 / to_i64 / is_private and compares by variant          *)
(* identity), and label classification of every integer class in every     *)
(* registry: each assigned value, its two neighbours, the private-use      *)
(* boundary and the extremes, for both registry label types.               *)
(***************************************************************************)
EXTENDS Palette, Json

Regs == RegNames
Boundary == {-65535, -65536, -65537, -65538, -70000, 70000, 0, 1, -1}
ClassInts(reg) == UNION {{Registry[reg][i][2] - 1, Registry[reg][i][2], Registry[reg][i][2] + 1} : i \in 1..Len(Registry[reg])} \cup Boundary
Extremes == {I63max, I63, N63, N63m1, U64max, N64, I(TRUE, <<1,0,0,0,0>>), I(FALSE, <<1,0,0,0,0>>)}

VARIABLE st
Init == st = [mode |-> "init"]
Next == st.mode = "init" /\
  \/ \E r \in Regs : st' = [mode |-> "table", reg |-> r]
  \/ \E r \in Regs : \E z \in ClassInts(r) : st' = [mode |-> "class", reg |-> r, n |-> Z2I(z)]
  \/ \E r \in Regs : \E n \in Extremes : st' = [mode |-> "class", reg |-> r, n |-> n]
  \/ \E r \in Regs : \E v \in {Ta, Te, B1, Nil, F15} : st' = [mode |-> "class", reg |-> r, n |-> v]
Spec == Init /\ [][Next]_st

(* Design |= Prop for classification *)
InvPlain == st.mode = "class" => LET d == RegLabel_FromCbor(st.reg, st.n) IN
              (d.ok <=> LabelLike(st.reg, FALSE, st.n)) /\ (d.ok => d.x = LabelLikeValue(st.reg, st.n))
InvPriv == st.mode = "class" /\ st.reg \in HasPrivate => LET d == RegPriv_FromCbor(st.reg, st.n) IN
              (d.ok <=> LabelLike(st.reg, TRUE, st.n)) /\ (d.ok => d.x = LabelLikeValue(st.reg, st.n))
(* the private-use predicate holds exactly below -65536, and no registry assigns a private-use value *)
InvPrivRange == st.mode = "class" /\ st.n.t = "int" /\ IsSmall(st.n) => (IsPrivateInt(st.n) <=> IsPrivateZ(SmallZ(st.n)))
InvNoPrivAssigned == st.mode = "table" => \A i \in 1..Len(Registry[st.reg]) : ~IsPrivateZ(Registry[st.reg][i][2])
(* encode of an accepted label gives the integer back *)
InvBack == st.mode = "class" => LET d == RegLabel_FromCbor(st.reg, st.n) IN d.ok => RegLabel_ToCbor(d.x) = st.n

Exp(lty) ==
  LET priv == lty = "RegisteredLabelWithPrivate"
      d == IF priv THEN RegPriv_FromCbor(st.reg, st.n) ELSE RegLabel_FromCbor(st.reg, st.n) IN
  IF LabelLike(st.reg, priv, st.n)
  THEN [accept |-> TRUE, val |-> <<LabelLikeValue(st.reg, st.n)>>, err |-> "", pinerr |-> FALSE, judge |-> TRUE, reenc |-> <<Enc(st.n)>>]
  ELSE [accept |-> FALSE, val |-> <<>>, err |-> d.err, pinerr |-> FALSE, judge |-> TRUE, reenc |-> <<>>]
Emit ==
  CASE st.mode = "table" ->
         PrintT(ToJson([kind |-> "iana_table", props |-> <<"C17">>, reg |-> st.reg, rows |-> Registry[st.reg],
                        haspriv |-> st.reg \in HasPrivate, lo |-> WindowLo, hi |-> WindowHi, privmax |-> PrivateUseMax]))
    [] st.mode = "class" ->
         /\ PrintT(ToJson([kind |-> "decode", props |-> <<"C17">>, ty |-> "RegisteredLabel", reg |-> st.reg, item |-> st.n,
                           wires |-> <<Enc(st.n)>>, nt |-> TRUE, expect |-> Exp("RegisteredLabel")]))
         /\ st.reg \in HasPrivate =>
              PrintT(ToJson([kind |-> "decode", props |-> <<"C17">>, ty |-> "RegisteredLabelWithPrivate", reg |-> st.reg, item |-> st.n,
                             wires |-> <<Enc(st.n)>>, nt |-> TRUE, expect |-> Exp("RegisteredLabelWithPrivate")]))
    [] OTHER -> TRUE
=============================================================================

------------------------------- MODULE MC_Cwt -------------------------------
(***************************************************************************)
(* C18 (claims sets): claims maps built entry by entry.                    *)
(***************************************************************************)
EXTENDS Palette, Json

CONSTANT MaxLen

TextVals == {Ta, Te, B1, Nat2I(1), Nil}
F64only == Flt(<<65,215,132,107,64,32,0,0>>)
TimeVals == {Nat2I(0), Nat2I(1), Neg2I(1), I63max, I63, N63, N63m1, U64max, N64, F15, F64only, Flt(<<127,248,0,0,0,0,0,0>>), Ta, B1, Nil}
CtiVals == {B0, B1, Ta, Nat2I(1)}
OtherNames == {Nat2I(0), Nat2I(8), Nat2I(9), Nat2I(38), Nat2I(40), Neg2I(257), Neg2I(260), Neg2I(65537), N63, Ta, Te}
UnregNames == {Nat2I(10), Nat2I(41), Neg2I(1), Neg2I(256), Neg2I(261), Neg2I(65536), I63max}
BadNames == {I63, N63m1, B1, Nil, EmptyArr}
OtherVals == {Nat2I(1), B1, Tt, F15, EmptyMap}

Entries ==
       {<<Nat2I(n), v>> : n \in 1..3, v \in TextVals}
  \cup {<<Nat2I(n), v>> : n \in 4..6, v \in TimeVals}
  \cup {<<Nat2I(7), v>> : v \in CtiVals}
  \cup {<<l, v>> : l \in OtherNames, v \in OtherVals}
  \cup {<<l, Nat2I(1)>> : l \in UnregNames \cup BadNames}

VARIABLE w
Init == w = <<>>
Push(e) == Len(w) < MaxLen /\ w' = Append(w, e)
Repeat == Len(w) = MaxLen /\ MaxLen >= 2 /\ w[1][1] # w[Len(w)][1] /\ w' = Append(w, w[1])      \* non-adjacent repetition of the first entry
Next == (\E e \in Entries : Push(e)) \/ Repeat
Spec == Init /\ [][Next]_w

Item == Map(w)
D == Claims_FromCbor(Item)
WFd == Claims_WF(Item)
InvIff == D.ok <=> WFd
InvValue == D.ok => D.x = Claims_ValueOf(Item)
(* encode of a decoded value gives back the data-model item (typed claims first, extras in order) and decodes again *)
InvRoundTrip == D.ok => LET e == Claims_ToCbor(D.x) IN e.ok /\ Claims_FromCbor(e.x).ok /\ Claims_FromCbor(e.x).x = D.x

CDedup(i) == SelectSeq([j \in 1..Len(w) |-> <<j, w[j]>>], LAMBDA p : p[1] = i \/ p[2][1] # w[i][1])
CDedupMap(i) == Map([j \in 1..Len(CDedup(i)) |-> CDedup(i)[j][2]])
DupOnlyFault == /\ \A i \in 1..Len(w) : LabelLike("CwtClaimName", TRUE, w[i][1])
                /\ ~CKeysDistinct(w)
                /\ \E i \in 1..Len(w) : CKeysDistinct(CDedupMap(i).m)
                /\ \A i \in 1..Len(w) : CKeysDistinct(CDedupMap(i).m) => Claims_WF(CDedupMap(i))
InvDup == DupOnlyFault => (~D.ok /\ D.err = "DuplicateMapKey")

Expect ==
  IF WFd THEN [accept |-> TRUE, val |-> <<Claims_ValueOf(Item)>>, err |-> "", pinerr |-> FALSE, errprop |-> "C12", judge |-> TRUE, reenc |-> <<Enc(Claims_ToCbor(D.x).x)>>]
  ELSE [accept |-> FALSE, val |-> <<>>, err |-> D.err, diag |-> DiagOf(D), text |-> ErrText(D), pinerr |-> DupOnlyFault, errprop |-> "C12", judge |-> TRUE]
Strat2 == LET S == <<"w1", "w2", "w4", "w8", "indef", "indef2">> IN S[(Len(Enc(Item)) % 6) + 1]
Emit == PrintT(ToJson([kind |-> "decode", props |-> <<"C18">>, ty |-> "ClaimsSet", reg |-> "", item |-> Item,
                       wires |-> <<Enc(Item), EncS(Item, Strat2)>>, expect |-> Expect]))
=============================================================================

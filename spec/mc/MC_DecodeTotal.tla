---------------------------- MODULE MC_DecodeTotal ----------------------------
(***************************************************************************)
(* C01 (specification side).  In the machine of Cose.tla every decoder is  *)
(* total: its outcome is "ok" or "err", there is no panic outcome.  This   *)
(* instance decodes accepted items (several encodings) and then takes ONE  *)
(* follow-up action out of everything a user can do with a decoded value:  *)
(* re-encode (tagged and untagged), clone/compare/drop, to-be-signed data, *)
(* verify / verify-tag / decrypt with in-range and out-of-range arguments. *)
(* Invariant: a panic outcome occurs exactly under the documented          *)
(* preconditions (DESIGN.md Appendix B), stated here independently.        *)
(***************************************************************************)
EXTENDS AccPalette, Json

Aad == <<170>>
Pl == <<85>>
Vr == [ok |-> TRUE, bytes |-> <<>>]
Dr == [ok |-> TRUE, bytes |-> <<1>>]

FollowUps(ty, v) ==
  {[ev |-> "encode", api |-> "vec"], [ev |-> "clone_eq"]}
  \cup (IF ty \in TaggedTypes THEN {[ev |-> "encode", api |-> "tagged"]} ELSE {})
  \cup CASE ty = "CoseSign1" -> {[ev |-> "tbs", m |-> "tbs_data", aad |-> Aad], [ev |-> "tbs", m |-> "tbs_detached_data", pl |-> Pl, aad |-> Aad],
                                 [ev |-> "verify", m |-> "verify_signature", aad |-> Aad, res |-> Vr],
                                 [ev |-> "verify", m |-> "verify_detached_signature", pl |-> Pl, aad |-> Aad, res |-> Vr]}
         [] ty = "CoseSign" -> {[ev |-> "verify", m |-> mm, which |-> w, pl |-> Pl, aad |-> Aad, res |-> Vr] :
                                    mm \in {"verify_signature", "verify_detached_signature"}, w \in 0..(Len(v.sigs) + 1)}
                               \cup {[ev |-> "tbs", m |-> mm, which |-> w, pl |-> Pl, aad |-> Aad] : mm \in {"tbs_data", "tbs_detached_data"}, w \in 0..(Len(v.sigs) - 1)}
         [] ty \in {"CoseMac", "CoseMac0"} -> {[ev |-> "verify", m |-> "verify_tag", aad |-> Aad, res |-> Vr]}
         [] ty \in {"CoseEncrypt", "CoseEncrypt0"} -> {[ev |-> "verify", m |-> "decrypt", aad |-> Aad, res |-> Dr]}
         [] ty = "CoseRecipient" -> {[ev |-> "verify", m |-> "decrypt", ctx |-> c, aad |-> Aad, res |-> Dr] :
                                       c \in {"EncRecipient", "MacRecipient", "RecRecipient", "CoseEncrypt", "CoseEncrypt0"}}
         [] OTHER -> {}

(* Appendix B, stated without reference to Step *)
DocPanic(ty, v, e) ==
  \/ e.ev \in {"verify", "tbs"} /\ ty = "CoseSign" /\ e.which >= Len(v.sigs)
  \/ e.ev \in {"verify", "tbs"} /\ e.m \in {"verify_detached_signature", "tbs_detached_data"} /\ v.payload # <<>>
  \/ e.ev = "verify" /\ e.m = "verify_tag" /\ v.payload = <<>>
  \/ e.ev = "verify" /\ e.m = "decrypt" /\ v.cipher = <<>>
  \/ e.ev = "verify" /\ e.m = "decrypt" /\ ty = "CoseRecipient" /\ e.ctx \notin {"EncRecipient", "MacRecipient", "RecRecipient"}

RECURSIVE AllOrigHdr(_)
RECURSIVE AllOrigSig(_)
AllOrigSig(s) == s.prot.orig # <<>> /\ AllOrigHdr(s.prot.hdr) /\ AllOrigHdr(s.unprot)
AllOrigHdr(h) == \A i \in 1..Len(h.cs) : AllOrigSig(h.cs[i])
RECURSIVE AllOrigRecip(_)
AllOrigRecip(r) == r.prot.orig # <<>> /\ AllOrigHdr(r.prot.hdr) /\ AllOrigHdr(r.unprot) /\ \A i \in 1..Len(r.recips) : AllOrigRecip(r.recips[i])
AllProtHaveOrig(ty, v) ==
  CASE ty = "Header" -> AllOrigHdr(v)
    [] ty = "CoseSignature" -> AllOrigSig(v)
    [] ty = "CoseRecipient" -> AllOrigRecip(v)
    [] ty = "CoseSign" -> AllOrigSig([prot |-> v.prot, unprot |-> v.unprot]) /\ \A i \in 1..Len(v.sigs) : AllOrigSig(v.sigs[i])
    [] ty \in {"CoseSign1", "CoseMac0", "CoseEncrypt0"} -> AllOrigSig([prot |-> v.prot, unprot |-> v.unprot])
    [] ty \in {"CoseMac", "CoseEncrypt"} -> AllOrigSig([prot |-> v.prot, unprot |-> v.unprot]) /\ \A i \in 1..Len(v.recips) : AllOrigRecip(v.recips[i])
    [] ty = "SuppPubInfo" -> v.prot.orig # <<>>
    [] ty = "CoseKdfContext" -> v.pub.prot.orig # <<>>
    [] OTHER -> TRUE

VARIABLES i, strat, hist
vars == <<i, strat, hist>>
Ty == AccItems[i][1]
Wire == EncS(AccItems[i][3], strat)
Init == i \in 1..NAcc /\ strat \in {"min", "w4", "indef2"} /\ hist = <<>>
Decoded == Run(InitState, <<[ev |-> "inject", bytes |-> Wire], [ev |-> "decode", api |-> "slice", ty |-> Ty, reg |-> AccItems[i][2]]>>)
Next == /\ hist = <<>> /\ Decoded.mem.k = "value"
        /\ \E e \in FollowUps(Ty, Decoded.mem.val) : hist' = <<e>>
        /\ UNCHANGED <<i, strat>>
Spec == Init /\ [][Next]_vars

Steps == <<[ev |-> "inject", bytes |-> Wire], [ev |-> "decode", api |-> "slice", ty |-> Ty, reg |-> AccItems[i][2]]>> \o hist
Observed == RunObs(InitState, Steps, <<>>)
InvDecodeTotal == Observed[2].kind \in {"ok", "err"}
InvOrig == Decoded.mem.k = "value" => AllProtHaveOrig(Ty, Decoded.mem.val)
InvDocPanic == hist # <<>> => ((Last(Observed).kind = "panic") <=> DocPanic(Ty, Decoded.mem.val, hist[1]))
(* encode of a decoded value never fails (hence the structure functions' expect() cannot fire on decoded values) *)
InvEncodeOk == hist # <<>> /\ hist[1].ev = "encode" => Last(Observed).kind = "ok"

Emit == PrintT(ToJson([kind |-> "session", props |-> <<"C01">>, steps |-> Steps, nt |-> hist # <<>>,
                       expect |-> [k \in 1..Len(Observed) |-> [kind |-> Observed[k].kind, err |-> Observed[k].err, bytes |-> Observed[k].bytes,
                                                              cb |-> Observed[k].cb, ret |-> Observed[k].ret, val |-> Observed[k].val,
                                                              judge |-> TRUE, slotfree |-> FALSE, pinerr |-> FALSE, noval |-> TRUE, nobytes |-> TRUE]]]))
=============================================================================

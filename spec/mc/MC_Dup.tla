------------------------------- MODULE MC_Dup -------------------------------
(***************************************************************************)
(* C12.  decode: a well-formed map plus ONE repeated label, for every pair *)
(* of positions in maps of <= MaxN entries, every label class, every pair  *)
(* of byte encodings of that label, at every nesting position -- the       *)
(* duplicate is the map's only fault, so the error kind is pinned.         *)
(* encode: in-memory headers / keys / claims sets whose extras repeat a    *)
(* label or name a populated typed field.                                  *)
(***************************************************************************)
EXTENDS Palette, Json

CONSTANT MaxN, AllEnc

(* ---- label palette per map kind: <<label, value1, value2>> (both values valid for the label) ---- *)
HdrDup == { <<Nat2I(1), Neg2I(7), Nat2I(1)>>, <<Nat2I(2), Arr(<<Nat2I(1)>>), Arr(<<Nat2I(4)>>)>>, <<Nat2I(2), Arr(<<Nat2I(1)>>), Arr(<<Nat2I(1)>>)>>, <<Nat2I(3), Nat2I(0), Nat2I(60)>>,
            <<Nat2I(4), B1, B12>>, <<Nat2I(5), B1, B1>>, <<Nat2I(6), B1, B12>>, <<Nat2I(7), SigMin, SigA0>>,
            <<Nat2I(0), Nat2I(1), Nat2I(2)>>, <<Nat2I(8), Nat2I(1), B1>>, <<Nat2I(24), Nat2I(1), Nat2I(1)>>, <<Z2I(256), B1, Nil>>,
            <<Z2I(65536), Nat2I(1), Nat2I(2)>>, <<I63max, Nat2I(1), Nat2I(2)>>,
            <<Neg2I(1), Nat2I(1), Nat2I(2)>>, <<Neg2I(25), Nat2I(1), Nat2I(2)>>, <<Neg2I(65537), Nat2I(1), Nat2I(2)>>, <<N63, Nat2I(1), Nil>>,
            <<Ta, Nat2I(1), Nat2I(2)>>, <<Te, Nat2I(1), B1>>, <<Tx(<<195,169>>), Nat2I(1), Nat2I(2)>> }
KeyDupP == { <<Nat2I(1), Nat2I(1), Nat2I(2)>>, <<Nat2I(2), B1, B12>>, <<Nat2I(3), Neg2I(7), Ta>>, <<Nat2I(4), Arr(<<Nat2I(1)>>), Arr(<<Nat2I(2)>>)>>,
            <<Nat2I(4), Arr(<<Nat2I(1)>>), Arr(<<Nat2I(1)>>)>>,          \* the same operations twice: still "duplicate key", not "repeated entry"
            <<Nat2I(5), B1, B12>>, <<Nat2I(0), Nat2I(1), Nat2I(2)>>, <<Neg2I(1), Nat2I(1), B1>>, <<Neg2I(4), B1, B1>>,
            <<Neg2I(65537), Nat2I(1), Nat2I(2)>>, <<I63max, Nat2I(1), Nat2I(2)>>, <<Ta, Nat2I(1), Nat2I(2)>>,
            (* round 5 of the seeded changes: a repeat detected by "the typed field is already populated" misses a first occurrence
               that carries the field's default.  Key type 0 (Reserved) is the only default a wire can carry: empty key id /
               base IV / operations (and empty kid / IV in a header) are rejected before the repeat is reached *)
            <<Nat2I(1), Nat2I(0), Nat2I(1)>> }
ClaimDup == { <<Nat2I(1), Ta, Tt>>, <<Nat2I(4), Nat2I(1), F15>>, <<Nat2I(7), B1, B12>>, <<Nat2I(0), Nat2I(1), Nat2I(2)>>,
             <<Nat2I(8), EmptyMap, EmptyMap>>, <<Nat2I(38), Nat2I(1), Nat2I(2)>>, <<Neg2I(260), EmptyMap, Nat2I(1)>>,
             <<Neg2I(65537), Nat2I(1), Nat2I(2)>>, <<N63, Nat2I(1), Nat2I(2)>>, <<Ta, Nat2I(1), Nat2I(2)>> }

(* filler entries: valid, with labels that never collide with the palette above *)
Fill(kind) == CASE kind = "hdr" -> << <<Z2I(100), Nat2I(1)>>, <<Tx(<<122>>), B1>> >>
                [] kind = "key" -> << <<Neg2I(9), B1>>, <<Tx(<<122>>), Nat2I(1)>> >>
                [] kind = "claims" -> << <<Nat2I(39), B1>>, <<Tx(<<122>>), Nat2I(1)>> >>
DupOf(kind) == CASE kind = "hdr" -> HdrDup [] kind = "key" -> KeyDupP [] kind = "claims" -> ClaimDup
(* a COSE_Key needs a key type: the base map of kind "key" carries one unless the duplicated label IS 1 *)
Base(kind, d) == IF kind = "key" /\ d[1] # Nat2I(1) THEN << <<Nat2I(1), Nat2I(4)>> >> ELSE <<>>

(* ---- encodings of one label ---- *)
KeyEncs(l) ==
  IF l.t = "int" THEN
    {<<"w", w>> : w \in IF AllEnc THEN WidthsFor(l.mag) ELSE {MinWidth(l.mag), 8}} \cup {<<"big", 0>>} \cup (IF AllEnc THEN {<<"big", 2>>} ELSE {})
  ELSE {<<"w", w>> : w \in IF AllEnc THEN WidthsFor(MagOfNat(Len(l.s))) ELSE {MinWidth(MagOfNat(Len(l.s))), 2}} \cup {<<"indef", 0>>}
EncKey(l, e) ==
  IF l.t = "int" THEN (IF e[1] = "w" THEN HdW(IF l.neg THEN 1 ELSE 0, l.mag, e[2]) ELSE EncBignum(l, e[2]))
  ELSE (IF e[1] = "w" THEN HdW(3, MagOfNat(Len(l.s)), e[2]) \o l.s ELSE <<127>> \o Enc(l) \o <<255>>)

(* ---- nesting positions: byte templates around the map bytes m ---- *)
BstrOf(m) == Hd(2, MagOfNat(Len(m))) \o m
Positions(kind) ==
  CASE kind = "hdr" -> {"plain", "unprot", "prot", "sig-unprot", "sig-prot", "sign-sig-unprot", "sign-sig-prot", "recip1", "recip2", "recip3",
                        "mac-recip-prot", "cs-unprot", "cs-prot", "cs-in-prot", "supppub"}
    [] kind = "key" -> {"plain", "keyset-first", "keyset-last"}
    [] kind = "claims" -> {"plain"}
KeyOKb == <<161, 1, 4>>          \* {1: 4}
SigWith(p, u) == <<131>> \o p \o u \o <<64>>              \* [p, u, h'']
RecipWith(p, u, rest) == (IF rest = <<>> THEN <<131>> ELSE <<132>>) \o p \o u \o <<246>> \o rest
Wrap(pos, m) ==
  CASE pos = "plain" -> m
    [] pos = "unprot" -> <<132, 64>> \o m \o <<246, 64>>                                   \* COSE_Sign1
    [] pos = "prot" -> <<132>> \o BstrOf(m) \o <<160, 246, 64>>
    [] pos = "sig-unprot" -> SigWith(<<64>>, m)                                          \* COSE_Signature
    [] pos = "sig-prot" -> SigWith(BstrOf(m), <<160>>)
    [] pos = "sign-sig-unprot" -> <<132, 64, 160, 246, 130>> \o SigWith(<<64>>, <<160>>) \o SigWith(<<64>>, m)   \* COSE_Sign, 2nd signer
    [] pos = "sign-sig-prot" -> <<132, 64, 160, 246, 129>> \o SigWith(BstrOf(m), <<160>>)
    [] pos = "recip1" -> <<132, 64, 160, 246, 129>> \o RecipWith(<<64>>, m, <<>>)         \* COSE_Encrypt
    [] pos = "recip2" -> <<132, 64, 160, 246, 129>> \o RecipWith(<<64>>, <<160>>, <<129>> \o RecipWith(<<64>>, m, <<>>))
    [] pos = "recip3" -> <<132, 64, 160, 246, 129>> \o RecipWith(<<64>>, <<160>>, <<129>> \o RecipWith(<<64>>, <<160>>, <<129>> \o RecipWith(BstrOf(m), <<160>>, <<>>)))
    [] pos = "mac-recip-prot" -> <<133, 64, 160, 246, 64, 129>> \o RecipWith(BstrOf(m), <<160>>, <<>>)   \* COSE_Mac
    [] pos = "cs-unprot" -> <<132, 64, 161, 7>> \o SigWith(<<64>>, m) \o <<246, 64>>     \* counter-signature in unprotected header
    [] pos = "cs-prot" -> <<132, 64, 161, 7, 129>> \o SigWith(BstrOf(m), <<160>>) \o <<246, 64>>   \* array of one counter-signature
    [] pos = "cs-in-prot" -> <<132>> \o BstrOf(<<161, 7>> \o SigWith(<<64>>, m)) \o <<160, 246, 64>>
    [] pos = "supppub" -> <<130, 24, 128>> \o BstrOf(m)                                   \* SuppPubInfo [128, bstr]
    [] pos = "keyset-first" -> <<130>> \o m \o KeyOKb
    [] pos = "keyset-last" -> <<131>> \o KeyOKb \o KeyOKb \o m
TyAt(kind, pos) ==
  IF kind = "key" THEN (IF pos = "plain" THEN "CoseKey" ELSE "CoseKeySet")
  ELSE IF kind = "claims" THEN "ClaimsSet"
  ELSE CASE pos = "plain" -> "Header"
         [] pos \in {"unprot", "prot", "cs-unprot", "cs-prot", "cs-in-prot"} -> "CoseSign1"
         [] pos \in {"sig-unprot", "sig-prot"} -> "CoseSignature"
         [] pos \in {"sign-sig-unprot", "sign-sig-prot"} -> "CoseSign"
         [] pos \in {"recip1", "recip2", "recip3"} -> "CoseEncrypt"
         [] pos = "mac-recip-prot" -> "CoseMac"
         [] pos = "supppub" -> "SuppPubInfo"

(* ---- the map: n entries, the duplicated label at positions i < j, fillers elsewhere ---- *)
EntryAt(kind, d, n, i, j, k) ==
  IF k = i THEN <<d[1], d[2]>> ELSE IF k = j THEN <<d[1], d[3]>>
  ELSE Fill(kind)[IF k < i THEN k ELSE IF k < j THEN k - 1 ELSE k - 2]
Entries(kind, d, n, i, j) == Base(kind, d) \o [k \in 1..n |-> EntryAt(kind, d, n, i, j, k)]
MapBytes(kind, d, n, i, j, e1, e2) ==
  LET base == Base(kind, d) es == Entries(kind, d, n, i, j) nb == Len(base) IN
  Hd(5, MagOfNat(Len(es)))
  \o Cat([k \in 1..Len(es) |->
        (IF k = nb + i THEN EncKey(d[1], e1) ELSE IF k = nb + j THEN EncKey(d[1], e2) ELSE Enc(es[k][1])) \o Enc(es[k][2])])

VARIABLE st
Init == st = [mode |-> "init"]
DecodeCase ==
  \E kind \in {"hdr", "key", "claims"} : \E d \in DupOf(kind) : \E n \in 2..MaxN : \E i \in 1..n : \E j \in (i + 1)..n :
  \E e1 \in KeyEncs(d[1]) : \E e2 \in KeyEncs(d[1]) : \E pos \in Positions(kind) :
    st' = [mode |-> "decode", kind |-> kind, d |-> d, n |-> n, i |-> i, j |-> j, e1 |-> e1, e2 |-> e2, pos |-> pos]

(* ---- encode side ---- *)
HAlg == <<Assigned("Algorithm", "ES256")>>
HCt == <<Assigned("CoapContentFormat", "Cbor")>>
SigV == [prot |-> EmptyProt, unprot |-> EmptyHeader, sig |-> <<1>>]
HeaderCases ==
  { [EmptyHeader EXCEPT !.alg = HAlg, !.rest = << <<Nat2I(1), Nat2I(5)>> >>],
    [EmptyHeader EXCEPT !.crit = <<Assigned("HeaderParameter", "Alg")>>, !.rest = << <<Nat2I(2), Nat2I(5)>> >>],
    [EmptyHeader EXCEPT !.ct = HCt, !.rest = << <<Nat2I(8), Nat2I(1)>>, <<Nat2I(3), Nat2I(5)>> >>],
    [EmptyHeader EXCEPT !.kid = <<1>>, !.rest = << <<Nat2I(4), Bs(<<2>>)>> >>],
    [EmptyHeader EXCEPT !.iv = <<1>>, !.rest = << <<Nat2I(5), Bs(<<2>>)>> >>],
    [EmptyHeader EXCEPT !.piv = <<1>>, !.rest = << <<Nat2I(6), Bs(<<2>>)>> >>],
    [EmptyHeader EXCEPT !.cs = <<SigV>>, !.rest = << <<Nat2I(7), Nat2I(5)>> >>],
    [EmptyHeader EXCEPT !.rest = << <<Nat2I(8), Nat2I(1)>>, <<Nat2I(8), Nat2I(2)>> >>],
    [EmptyHeader EXCEPT !.rest = << <<Ta, Nat2I(1)>>, <<Nat2I(9), Nil>>, <<Ta, Nat2I(1)>> >>],
    [EmptyHeader EXCEPT !.rest = << <<Neg2I(65537), Nat2I(1)>>, <<Neg2I(65537), Nat2I(2)>> >>],
    [EmptyHeader EXCEPT !.rest = << <<I63max, Nat2I(1)>>, <<Nat2I(0), Nat2I(1)>>, <<I63max, Nat2I(2)>> >>],
    [EmptyHeader EXCEPT !.rest = << <<N63, Nat2I(1)>>, <<N63, Nat2I(1)>> >>],
    (* controls that must still encode *)
    [EmptyHeader EXCEPT !.alg = HAlg, !.rest = << <<Nat2I(8), Nat2I(5)>> >>],
    [EmptyHeader EXCEPT !.rest = << <<Nat2I(1), Nat2I(5)>> >>],
    [EmptyHeader EXCEPT !.kid = <<1>>, !.rest = << <<Nat2I(5), Bs(<<2>>)>>, <<Ta, Nil>>, <<Tt, Nil>> >>] }
KtyOKP == Assigned("KeyType", "OKP")
KeyCases ==
  { [EmptyKey EXCEPT !.kty = KtyOKP, !.params = << <<Nat2I(1), Nat2I(2)>> >>],
    [EmptyKey EXCEPT !.kty = KtyOKP, !.kid = <<1>>, !.params = << <<Nat2I(2), Nat2I(5)>> >>],
    [EmptyKey EXCEPT !.kty = KtyOKP, !.alg = HAlg, !.params = << <<Neg2I(1), Nat2I(1)>>, <<Nat2I(3), Nat2I(5)>> >>],
    [EmptyKey EXCEPT !.kty = KtyOKP, !.ops = <<Assigned("KeyOperation", "Sign")>>, !.params = << <<Nat2I(4), Nat2I(5)>> >>],
    [EmptyKey EXCEPT !.kty = KtyOKP, !.biv = <<1>>, !.params = << <<Nat2I(5), Nat2I(5)>> >>],
    [EmptyKey EXCEPT !.kty = KtyOKP, !.params = << <<Neg2I(1), Nat2I(1)>>, <<Neg2I(2), B1>>, <<Neg2I(1), Nat2I(1)>> >>],
    [EmptyKey EXCEPT !.kty = KtyOKP, !.params = << <<Ta, Nat2I(1)>>, <<Ta, Nat2I(2)>> >>],
    [EmptyKey EXCEPT !.kty = TextL(<<97>>), !.params = << <<Nat2I(1), Nat2I(2)>> >>],
    (* controls *)
    [EmptyKey EXCEPT !.kty = KtyOKP, !.params = << <<Nat2I(2), Nat2I(5)>> >>],
    [EmptyKey EXCEPT !.kty = KtyOKP, !.kid = <<1>>, !.params = << <<Neg2I(1), Nat2I(1)>>, <<Neg2I(2), B1>> >>] }
CAce == Assigned("CwtClaimName", "AceProfile")
ClaimCases ==
  { [EmptyClaims EXCEPT !.rest = << <<CAce, Nat2I(1)>>, <<CAce, Nat2I(2)>> >>],
    [EmptyClaims EXCEPT !.rest = << <<TextL(<<97>>), Nat2I(1)>>, <<TextL(<<97>>), Nat2I(2)>> >>],
    [EmptyClaims EXCEPT !.iss = <<<<120>>>>, !.rest = << <<Assigned("CwtClaimName", "Iss"), Nat2I(1)>> >>],
    [EmptyClaims EXCEPT !.cti = <<<<1>>>>, !.rest = << <<Assigned("CwtClaimName", "Cti"), B1>> >>],
    [EmptyClaims EXCEPT !.rest = << <<Priv(Neg2I(65537)), Nat2I(1)>>, <<CAce, Nil>>, <<Priv(Neg2I(65537)), Nat2I(1)>> >>],
    (* controls *)
    [EmptyClaims EXCEPT !.iss = <<<<120>>>>, !.rest = << <<CAce, Nat2I(1)>>, <<TextL(<<97>>), Nat2I(2)>> >>] }
(* where the faulty header sits inside a larger in-memory value *)
HdrHolders == {"Header", "ProtectedHeader", "sign1-unprot", "sign1-prot", "sign-sig-unprot", "mac-recip-prot", "cs-of-unprot", "supppub-prot", "kdf"}
Hold(h, holder) ==
  LET s1 == Default("CoseSign1") IN
  CASE holder = "Header" -> <<"Header", h>>
    [] holder = "ProtectedHeader" -> <<"ProtectedHeader", BuiltProt(h)>>
    [] holder = "sign1-unprot" -> <<"CoseSign1", [s1 EXCEPT !.unprot = h]>>
    [] holder = "sign1-prot" -> <<"CoseSign1", [s1 EXCEPT !.prot = BuiltProt(h)]>>
    [] holder = "sign-sig-unprot" -> <<"CoseSign", [Default("CoseSign") EXCEPT !.sigs = <<SigV, [SigV EXCEPT !.unprot = h]>>]>>
    [] holder = "mac-recip-prot" -> <<"CoseMac", [Default("CoseMac") EXCEPT !.recips = <<[Default("CoseRecipient") EXCEPT !.prot = BuiltProt(h)]>>]>>
    [] holder = "cs-of-unprot" -> <<"CoseSign1", [s1 EXCEPT !.unprot = [EmptyHeader EXCEPT !.cs = <<[SigV EXCEPT !.unprot = h]>>]]>>
    [] holder = "supppub-prot" -> <<"SuppPubInfo", [EmptySuppPub EXCEPT !.prot = BuiltProt(h)]>>
    [] holder = "kdf" -> <<"CoseKdfContext", [EmptyKdf EXCEPT !.alg = Assigned("Algorithm", "ES256"), !.pub = [EmptySuppPub EXCEPT !.prot = BuiltProt(h)]]>>
EncodeCase ==
  \/ \E h \in HeaderCases : \E holder \in HdrHolders : st' = [mode |-> "encode", ty |-> Hold(h, holder)[1], tyx |-> "hdr", hx |-> Hold(h, holder)[2]]
  \/ \E k \in KeyCases : st' = [mode |-> "encode", ty |-> "CoseKey", tyx |-> "key", kx |-> k]
  \/ \E k \in KeyCases : st' = [mode |-> "encode", ty |-> "CoseKeySet", tyx |-> "keyset", ksx |-> <<[EmptyKey EXCEPT !.kty = KtyOKP], k>>]
  \/ \E c \in ClaimCases : st' = [mode |-> "encode", ty |-> "ClaimsSet", tyx |-> "claims", cx |-> c]

Next == st.mode = "init" /\ (DecodeCase \/ EncodeCase)
Spec == Init /\ [][Next]_st

(* ---- decode-side predicates ---- *)
Wire == Wrap(st.pos, MapBytes(st.kind, st.d, st.n, st.i, st.j, st.e1, st.e2))
DTy == TyAt(st.kind, st.pos)
InvDecode == st.mode = "decode" => LET r == FromSlice(DTy, "", Wire) IN ~r.ok /\ r.err = "DuplicateMapKey"
(* control: dropping the second occurrence makes the whole input acceptable, so the duplicate is the only fault *)
(* (for the key type 0 = Reserved, which a key may not end up with, it is the FIRST occurrence that is dropped) *)
DropIdx == IF st.kind = "key" /\ st.d[1] = Nat2I(1) /\ st.d[2] = Nat2I(0) THEN st.i ELSE st.j
Single == LET base == Base(st.kind, st.d) es == Entries(st.kind, st.d, st.n, st.i, st.j) nb == Len(base) IN
          SelectSeq([k \in 1..Len(es) |-> <<k, es[k]>>], LAMBDA p : p[1] # nb + DropIdx)
SingleBytes == Enc(Map([k \in 1..Len(Single) |-> Single[k][2]]))
InvOnlyFault == st.mode = "decode" => FromSlice(DTy, "", Wrap(st.pos, SingleBytes)).ok

(* ---- encode-side predicates ---- *)
EX == CASE st.tyx = "hdr" -> st.hx [] st.tyx = "key" -> st.kx [] st.tyx = "keyset" -> st.ksx [] st.tyx = "claims" -> st.cx
RECURSIVE DistinctKeysDeep(_)
DistinctKeysDeep(v) ==
  CASE v.t = "map" -> KeysDistinct(v.m) /\ \A i \in 1..Len(v.m) : DistinctKeysDeep(v.m[i][2])
    [] v.t = "array" -> \A i \in 1..Len(v.a) : DistinctKeysDeep(v.a[i])
    [] v.t = "bytes" -> (v.b = <<>> \/ LET r == ReadToValue(v.b) IN (r.ok /\ r.v.t = "map") => DistinctKeysDeep(r.v))
    [] OTHER -> TRUE
(* Prop: encoding either fails or emits maps with distinct keys -- violated by the Design of ClaimsSet (finding F4) *)
EncOut == ToCbor(st.ty, EX)
InvEncode == st.mode = "encode" /\ st.ty # "ClaimsSet" => (EncOut.ok => DistinctKeysDeep(EncOut.x))
F4Witness == st.mode = "encode" /\ st.ty = "ClaimsSet" /\ EncOut.ok /\ ~DistinctKeysDeep(EncOut.x)

(* what the property demands of the encoder for this value: fail iff some map would repeat a label *)
RECURSIVE HdrClash(_)
RestClash(rest, typed) == ~KeysDistinct(rest) \/ \E i \in 1..Len(rest) : rest[i][1] \in typed
HdrTyped(h) == {Nat2I(1) : x \in {1} \cap (IF h.alg # <<>> THEN {1} ELSE {})} \cup {Nat2I(2) : x \in {1} \cap (IF h.crit # <<>> THEN {1} ELSE {})}
               \cup {Nat2I(3) : x \in {1} \cap (IF h.ct # <<>> THEN {1} ELSE {})} \cup {Nat2I(4) : x \in {1} \cap (IF h.kid # <<>> THEN {1} ELSE {})}
               \cup {Nat2I(5) : x \in {1} \cap (IF h.iv # <<>> THEN {1} ELSE {})} \cup {Nat2I(6) : x \in {1} \cap (IF h.piv # <<>> THEN {1} ELSE {})}
               \cup {Nat2I(7) : x \in {1} \cap (IF h.cs # <<>> THEN {1} ELSE {})}
HdrClash(h) == RestClash(h.rest, HdrTyped(h)) \/ \E i \in 1..Len(h.cs) : HdrClash(h.cs[i].unprot) \/ HdrClash(h.cs[i].prot.hdr)
KeyTyped(k) == {Nat2I(1)} \cup (IF k.kid # <<>> THEN {Nat2I(2)} ELSE {}) \cup (IF k.alg # <<>> THEN {Nat2I(3)} ELSE {})
               \cup (IF k.ops # <<>> THEN {Nat2I(4)} ELSE {}) \cup (IF k.biv # <<>> THEN {Nat2I(5)} ELSE {})
KeyClash(k) == RestClash(k.params, KeyTyped(k))
ClaimTypedNames(c) == (IF c.iss # <<>> THEN {"Iss"} ELSE {}) \cup (IF c.sub # <<>> THEN {"Sub"} ELSE {}) \cup (IF c.aud # <<>> THEN {"Aud"} ELSE {})
                      \cup (IF c.exp # <<>> THEN {"Exp"} ELSE {}) \cup (IF c.nbf # <<>> THEN {"Nbf"} ELSE {}) \cup (IF c.iat # <<>> THEN {"Iat"} ELSE {})
                      \cup (IF c.cti # <<>> THEN {"Cti"} ELSE {})
ClaimClash(c) == ~KeysDistinct(c.rest) \/ \E i \in 1..Len(c.rest) : c.rest[i][1].k = "assigned" /\ c.rest[i][1].name \in ClaimTypedNames(c)
MustFail ==
  CASE st.tyx = "hdr" -> \E h \in HeaderCases : \E ho \in HdrHolders : Hold(h, ho) = <<st.ty, st.hx>> /\ HdrClash(h)
    [] st.tyx = "key" -> KeyClash(st.kx)
    [] st.tyx = "keyset" -> \E i \in 1..Len(st.ksx) : KeyClash(st.ksx[i])
    [] st.tyx = "claims" -> ClaimClash(st.cx)
InvMustFail == st.mode = "encode" /\ st.ty # "ClaimsSet" => (MustFail <=> ~EncOut.ok)

Emit ==
  CASE st.mode = "decode" ->
         PrintT(ToJson([kind |-> "decode", props |-> <<"C12">>, ty |-> DTy, reg |-> "", wires |-> <<Wire>>, nt |-> TRUE,
                        expect |-> [accept |-> FALSE, val |-> <<>>, err |-> "DuplicateMapKey", pinerr |-> TRUE, errprop |-> "C12", judge |-> TRUE]]))
         /\ PrintT(ToJson([kind |-> "decode", props |-> <<"C12">>, ty |-> DTy, reg |-> "", wires |-> <<Wrap(st.pos, SingleBytes)>>, nt |-> FALSE,
                        expect |-> [accept |-> TRUE, val |-> <<>>, err |-> "", pinerr |-> FALSE, judge |-> TRUE]]))
    [] st.mode = "encode" ->
         PrintT(ToJson([kind |-> "encode", props |-> <<"C12">>, ty |-> st.ty, reg |-> "", x |-> EX, api |-> "vec", nt |-> MustFail,
                        tags |-> IF st.ty = "ClaimsSet" /\ MustFail THEN <<"claims-encode-no-dup-check">> ELSE <<>>,
                        expect |-> [ok |-> ~MustFail, err |-> IF MustFail THEN "DuplicateMapKey" ELSE "", pinerr |-> FALSE,
                                    item |-> <<>>, back |-> <<>>, judge |-> TRUE]]))
    [] OTHER -> TRUE
=============================================================================

------------------------------- MODULE MC_Encode -------------------------------
(***************************************************************************)
(* C11: well-formed in-memory values of every type over field palettes     *)
(* (every field singly and in combination, empty vs non-empty, every label *)
(* class).  Prop: encoding succeeds and the output, read back by the Prop  *)
(* layer (WF / ValueOf), is exactly the value -- with the omission rules   *)
(* stated explicitly.                                                      *)
(***************************************************************************)
EXTENDS Palette, Json

CONSTANT Full      \* TRUE: full products; FALSE: reduced palettes for the quick tier

S1 == [prot |-> EmptyProt, unprot |-> EmptyHeader, sig |-> <<7>>]
S2 == [prot |-> [orig |-> <<>>, hdr |-> [EmptyHeader EXCEPT !.alg = <<Assigned("Algorithm", "ES256")>>]],
       unprot |-> [EmptyHeader EXCEPT !.kid = <<50>>], sig |-> <<>>]
S3 == [prot |-> [orig |-> <<<<160>>>>, hdr |-> EmptyHeader], unprot |-> EmptyHeader, sig |-> <<8, 8>>]     \* decoded, protected = h'a0'

Algs == {<<>>, <<Assigned("Algorithm", "ES256")>>, <<Assigned("Algorithm", "Reserved")>>, <<Priv(Neg2I(65537))>>, <<TextL(<<120>>)>>}
Crits == {<<>>, <<Assigned("HeaderParameter", "Alg")>>, <<Assigned("HeaderParameter", "Kid"), TextL(<<97>>)>>}
Cts == {<<>>, <<Assigned("CoapContentFormat", "Cbor")>>, <<TextL(<<97, 47, 98>>)>>, <<TextL(<<65, 47, 98, 59, 32, 81, 61, 90>>)>>}     \* "a/b", "A/b; Q=Z"
Kids == {<<>>, <<1>>}
IvPivs == {<< <<>>, <<>> >>, << <<1>>, <<>> >>, << <<>>, <<2>> >>}
Css == {<<>>, <<S1>>, <<S2, S3>>}
Rests == {<<>>, << <<Nat2I(8), Nat2I(1)>> >>, << <<Ta, Nil>>, <<Neg2I(1), B0>> >>, << <<I63max, F15>>, <<Nat2I(0), U64max>>, <<N63, Tag1>> >>}
Headers == {[alg |-> a, crit |-> c, ct |-> t, kid |-> k, iv |-> v[1], piv |-> v[2], cs |-> s, rest |-> r] :
              a \in (IF Full THEN Algs ELSE {<<>>, <<Assigned("Algorithm", "ES256")>>}), c \in (IF Full THEN Crits ELSE {<<>>, <<Assigned("HeaderParameter", "Alg")>>}),
              t \in (IF Full THEN Cts ELSE {<<>>, <<TextL(<<65, 47, 98, 59, 32, 81, 61, 90>>)>>}), k \in Kids, v \in IvPivs, s \in Css,
              r \in (IF Full THEN Rests ELSE {<<>>, << <<Ta, Nil>>, <<Neg2I(1), B0>> >>})}

HA == [EmptyHeader EXCEPT !.alg = <<Assigned("Algorithm", "ES256")>>]
HR == [EmptyHeader EXCEPT !.rest = << <<Z2I(99), Nat2I(1)>> >>]
HCs == [EmptyHeader EXCEPT !.cs = <<S1>>]
HFull == [EmptyHeader EXCEPT !.alg = <<Assigned("Algorithm", "A128GCM")>>, !.kid = <<49>>, !.iv = <<1, 2>>, !.rest = << <<Ta, B1>> >>]
ProtsP == <<EmptyProt, [orig |-> <<>>, hdr |-> HA], [orig |-> <<>>, hdr |-> HR], [orig |-> <<>>, hdr |-> HCs], [orig |-> <<>>, hdr |-> HFull],
            Prot_FromBstr(Bs(<<160>>)).x, Prot_FromBstr(Bs(<<>>)).x, Prot_FromBstr(Bs(<<191, 1, 56, 6, 255>>)).x>>
Unprots == <<EmptyHeader, [EmptyHeader EXCEPT !.kid = <<50>>], HCs>>
Payloads == {<<>>, <<<<>>>>, <<<<1, 2>>>>}
R1 == [prot |-> EmptyProt, unprot |-> EmptyHeader, cipher |-> <<>>, recips |-> <<>>]
R2 == [prot |-> [orig |-> <<>>, hdr |-> HA], unprot |-> [EmptyHeader EXCEPT !.kid = <<50>>], cipher |-> <<<<9>>>>, recips |-> <<R1>>]
R3 == [prot |-> EmptyProt, unprot |-> EmptyHeader, cipher |-> <<<<>>>>, recips |-> <<R2, R1>>]
RecipLists == {<<>>, <<R1>>, <<R2>>, <<R3, R1>>}
SigLists == {<<S1>>, <<S2, S3>>, <<S1, S2, S3>>}

MsgValues(ty) ==
  CASE ty = "CoseSign1" -> {[prot |-> ProtsP[p], unprot |-> Unprots[u], payload |-> pl, sig |-> s] : p \in 1..Len(ProtsP), u \in 1..Len(Unprots), pl \in Payloads, s \in {<<>>, <<7>>}}
    [] ty = "CoseMac0" -> {[prot |-> ProtsP[p], unprot |-> Unprots[u], payload |-> pl, tag |-> s] : p \in 1..Len(ProtsP), u \in 1..Len(Unprots), pl \in Payloads, s \in {<<>>, <<7>>}}
    [] ty = "CoseEncrypt0" -> {[prot |-> ProtsP[p], unprot |-> Unprots[u], cipher |-> pl] : p \in 1..Len(ProtsP), u \in 1..Len(Unprots), pl \in Payloads}
    [] ty = "CoseSignature" -> {[prot |-> ProtsP[p], unprot |-> Unprots[u], sig |-> s] : p \in 1..Len(ProtsP), u \in 1..Len(Unprots), s \in {<<>>, <<7>>}}
    [] ty = "CoseSign" -> {[prot |-> ProtsP[p], unprot |-> Unprots[u], payload |-> pl, sigs |-> ss] : p \in 1..Len(ProtsP), u \in {1, 2}, pl \in Payloads, ss \in SigLists}
    [] ty = "CoseMac" -> {[prot |-> ProtsP[p], unprot |-> Unprots[u], payload |-> pl, tag |-> <<7>>, recips |-> rs] : p \in 1..Len(ProtsP), u \in {1, 2}, pl \in Payloads, rs \in RecipLists \ {<<>>}}
    [] ty = "CoseEncrypt" -> {[prot |-> ProtsP[p], unprot |-> Unprots[u], cipher |-> pl, recips |-> rs] : p \in 1..Len(ProtsP), u \in {1, 2}, pl \in Payloads, rs \in RecipLists \ {<<>>}}
    [] ty = "CoseRecipient" -> {[prot |-> ProtsP[p], unprot |-> Unprots[u], cipher |-> pl, recips |-> rs] : p \in 1..Len(ProtsP), u \in {1, 2}, pl \in Payloads, rs \in RecipLists}

OpsOf(S) == LET RECURSIVE Ins(_, _)
                Ins(todo, acc) == IF todo = {} THEN acc ELSE LET x == CHOOSE y \in todo : TRUE IN Ins(todo \ {x}, OpInsert(acc, x))
            IN Ins(S, <<>>)
KeyValues ==
  {[kty |-> kt, kid |-> k, alg |-> a, ops |-> OpsOf(o), biv |-> b, params |-> ps] :
      kt \in {Assigned("KeyType", "OKP"), Assigned("KeyType", "WalnutDSA"), TextL(<<107>>)}, k \in Kids,
      a \in {<<>>, <<Assigned("Algorithm", "EdDSA")>>, <<Priv(N63)>>}, 
      o \in {{}, {Assigned("KeyOperation", "Sign")}, {Assigned("KeyOperation", "Verify"), Assigned("KeyOperation", "Sign"), TextL(<<120>>)}},
      b \in {<<>>, <<3>>},
      ps \in {<<>>, << <<Neg2I(1), Nat2I(6)>>, <<Neg2I(2), B12>> >>, << <<Ta, Nil>>, <<Nat2I(0), B0>>, <<Nat2I(6), F15>> >>}}
KeySetValues == {<<>>, <<CHOOSE k \in KeyValues : k.kid = <<>> /\ k.params = <<>> /\ k.alg = <<>> /\ k.ops = <<>> /\ k.biv = <<>> /\ k.kty.k = "text">>}
                \cup {<<k1, k2>> : k1 \in {k \in KeyValues : k.params = <<>> /\ k.alg = <<>> /\ k.biv = <<>> /\ k.kid = <<1>>}, k2 \in {k \in KeyValues : k.ops = <<>> /\ k.alg # <<>> /\ k.kid = <<>> /\ k.biv = <<>>}}
(* floats WITHOUT a fractional part (0.0, 1700000000.0): an encoder that "prefers the integer form" changes the wire kind (round 6) *)
Times == {<<>>, <<Whole(Nat2I(1))>>, <<Whole(N63)>>, <<Frac(<<63,248,0,0,0,0,0,0>>)>>, <<Frac(<<0,0,0,0,0,0,0,0>>)>>, <<Frac(<<65,217,84,252,64,0,0,0>>)>>}
ClaimValues ==
  {[iss |-> i, sub |-> s, aud |-> a, exp |-> e, nbf |-> n, iat |-> t, cti |-> c, rest |-> r] :
      i \in {<<>>, <<<<97>>>>}, s \in {<<>>, <<<<>>>>}, a \in {<<>>, <<<<98, 99>>>>}, e \in Times, n \in {<<>>, <<Whole(Nat2I(1))>>}, t \in {<<>>, <<Frac(<<63,241,153,153,153,153,153,154>>)>>},
      c \in {<<>>, <<<<>>>>, <<<<1>>>>},
      r \in {<<>>, << <<Assigned("CwtClaimName", "Cnf"), EmptyMap>> >>, << <<TextL(<<97>>), Nat2I(1)>>, <<Priv(Neg2I(65537)), B1>>, <<Assigned("CwtClaimName", "Reserved"), Nil>> >>}}
PartyValues == {[identity |-> i, nonce |-> n, other |-> o] : i \in {<<>>, <<<<>>>>, <<<<1>>>>}, n \in {<<>>, <<NonceB(<<>>)>>, <<NonceB(<<1>>)>>, <<NonceI(Nat2I(0))>>, <<NonceI(N63)>>}, o \in {<<>>, <<<<2>>>>}}
SuppValues == {[kdl |-> k, prot |-> ProtsP[p], other |-> o] : k \in {Nat2I(0), Z2I(128), U64max}, p \in 1..Len(ProtsP), o \in {<<>>, <<<<>>>>, <<<<1>>>>}}
KdfValues == {[alg |-> Assigned("Algorithm", a), pu |-> pu, pv |-> pv, pub |-> sp, priv |-> pr] :
                 a \in {"A128GCM", "Reserved"}, pu \in {EmptyParty, [identity |-> <<<<1>>>>, nonce |-> <<NonceI(Neg2I(5))>>, other |-> <<>>]},
                 pv \in {EmptyParty, [identity |-> <<>>, nonce |-> <<NonceB(<<3>>)>>, other |-> <<<<4>>>>]},
                 sp \in {s \in SuppValues : s.kdl = Z2I(128) /\ s.other # <<<<>>>>}, pr \in {<<>>, <<<<1>>>>, <<<<>>, <<2, 3>>>>}}
LabelValues == {Nat2I(0), Nat2I(24), Neg2I(1), I63max, N63, Ta, Te}
RegValues == {<<"RegisteredLabelWithPrivate", "Algorithm", l>> : l \in {Assigned("Algorithm", "RS1"), Assigned("Algorithm", "IV_GENERATION"), Priv(Neg2I(65537)), TextL(<<97>>)}}
             \cup {<<"RegisteredLabel", "CoapContentFormat", l>> : l \in {Assigned("CoapContentFormat", "VndOmaLwm2mCbor"), Assigned("CoapContentFormat", "TextPlainUtf8"), TextL(<<>>)}}
             \cup {<<"RegisteredLabel", "KeyType", l>> : l \in {Assigned("KeyType", "Reserved"), Assigned("KeyType", "WalnutDSA")}}
TimeValues == {Whole(Nat2I(0)), Whole(I63max), Whole(N63), Frac(<<63,248,0,0,0,0,0,0>>), Frac(<<65,215,132,107,64,32,0,0>>),
               (* integral-valued floats: 0.0, -0.0, 1.0, -1.0, 1700000000.0, 2^53, 2^63, and the non-finite ones *)
               Frac(<<0,0,0,0,0,0,0,0>>), Frac(<<128,0,0,0,0,0,0,0>>), Frac(<<63,240,0,0,0,0,0,0>>), Frac(<<191,240,0,0,0,0,0,0>>),
               Frac(<<65,217,84,252,64,0,0,0>>), Frac(<<67,64,0,0,0,0,0,0>>), Frac(<<67,224,0,0,0,0,0,0>>),
               Frac(<<127,240,0,0,0,0,0,0>>), Frac(<<127,248,0,0,0,0,0,0>>)}

Classes == {"Header", "ProtectedHeader", "CoseSign1", "CoseMac0", "CoseEncrypt0", "CoseSignature", "CoseSign", "CoseMac", "CoseEncrypt", "CoseRecipient",
            "CoseKey", "CoseKeySet", "ClaimsSet", "PartyInfo", "SuppPubInfo", "CoseKdfContext", "Label", "Reg", "Timestamp"}
VARIABLE st
Init == st \in {[mode |-> "cls", c |-> c] : c \in Classes}
Pick(ty, reg, x) == st' = [mode |-> "go", c |-> st.c, ty |-> ty, reg |-> reg, x |-> x]
Next == st.mode = "cls" /\
  CASE st.c = "Header" -> \E h \in Headers : Pick("Header", "", h)
    [] st.c = "ProtectedHeader" -> \E h \in {x \in Headers : x.cs = <<>> \/ x.rest = <<>>} : Pick("ProtectedHeader", "", [orig |-> <<>>, hdr |-> h])
    [] st.c \in MsgTypes -> \E x \in MsgValues(st.c) : Pick(st.c, "", x)
    [] st.c = "CoseKey" -> \E x \in KeyValues : Pick("CoseKey", "", x)
    [] st.c = "CoseKeySet" -> \E x \in KeySetValues : Pick("CoseKeySet", "", x)
    [] st.c = "ClaimsSet" -> \E x \in ClaimValues : Pick("ClaimsSet", "", x)
    [] st.c = "PartyInfo" -> \E x \in PartyValues : Pick("PartyInfo", "", x)
    [] st.c = "SuppPubInfo" -> \E x \in SuppValues : Pick("SuppPubInfo", "", x)
    [] st.c = "CoseKdfContext" -> \E x \in KdfValues : Pick("CoseKdfContext", "", x)
    [] st.c = "Label" -> \E x \in LabelValues : Pick("Label", "", x)
    [] st.c = "Reg" -> \E t \in RegValues : Pick(t[1], t[2], t[3])
    [] st.c = "Timestamp" -> \E x \in TimeValues : Pick("Timestamp", "", x)
Spec == Init /\ [][Next]_st
Go == st.mode = "go"

(* the value with every protected header carrying the bytes encoding assigns it *)
RECURSIVE AOHeader(_)
RECURSIVE AOSig(_)
AOProt(p) == [orig |-> <<Prot_Bstr(p).x.b>>, hdr |-> AOHeader(p.hdr)]
AOSig(s) == [s EXCEPT !.prot = AOProt(s.prot), !.unprot = AOHeader(s.unprot)]
AOHeader(h) == [h EXCEPT !.cs = [i \in 1..Len(h.cs) |-> AOSig(h.cs[i])]]
RECURSIVE AORecip(_)
AORecip(r) == [r EXCEPT !.prot = AOProt(r.prot), !.unprot = AOHeader(r.unprot), !.recips = [i \in 1..Len(r.recips) |-> AORecip(r.recips[i])]]
AssignOrig(ty, x) ==
  CASE ty = "Header" -> AOHeader(x)
    [] ty = "ProtectedHeader" -> [orig |-> <<>>, hdr |-> AOHeader(x.hdr)]          \* the map form carries no bytes
    [] ty = "CoseSignature" -> AOSig(x)
    [] ty = "CoseRecipient" -> AORecip(x)
    [] ty = "CoseSign" -> [x EXCEPT !.prot = AOProt(x.prot), !.unprot = AOHeader(x.unprot), !.sigs = [i \in 1..Len(x.sigs) |-> AOSig(x.sigs[i])]]
    [] ty \in {"CoseSign1", "CoseMac0", "CoseEncrypt0"} -> [x EXCEPT !.prot = AOProt(x.prot), !.unprot = AOHeader(x.unprot)]
    [] ty \in {"CoseMac", "CoseEncrypt"} -> [x EXCEPT !.prot = AOProt(x.prot), !.unprot = AOHeader(x.unprot), !.recips = [i \in 1..Len(x.recips) |-> AORecip(x.recips[i])]]
    [] ty = "SuppPubInfo" -> [x EXCEPT !.prot = AOProt(x.prot)]
    [] ty = "CoseKdfContext" -> [x EXCEPT !.pub.prot = AOProt(x.pub.prot)]
    [] OTHER -> x

WFMem(ty, x) ==
  CASE ty = "Header" -> Header_WFMem(x) [] ty = "ProtectedHeader" -> Prot_WFMem(x) [] ty = "CoseSignature" -> Sig_WFMem(x)
    [] ty \in MsgTypes -> Msg_WFMem(ty, x) [] ty = "CoseKey" -> Key_WFMem(x) [] ty = "CoseKeySet" -> \A i \in 1..Len(x) : Key_WFMem(x[i])
    [] ty = "ClaimsSet" -> Claims_WFMem(x) [] ty = "PartyInfo" -> Party_WFMem(x) [] ty = "SuppPubInfo" -> SuppPub_WFMem(x)
    [] ty = "CoseKdfContext" -> Kdf_WFMem(x) [] OTHER -> TRUE

Out == ToCbor(st.ty, st.x)
(* Prop: succeeds; reading the output back with the Prop layer gives the value (origs assigned); explicit omission rules *)
SameOps(a, b) == [a EXCEPT !.ops = <<>>] = [b EXCEPT !.ops = <<>>] /\ {a.ops[i] : i \in 1..Len(a.ops)} = {b.ops[i] : i \in 1..Len(b.ops)}
ReadsBack(ty, reg, item, x) ==
  /\ WF(ty, reg, item)
  /\ IF ty = "CoseKey" THEN SameOps(ValueOf(ty, reg, item), x)
     ELSE IF ty = "CoseKeySet" THEN Len(item.a) = Len(x) /\ \A i \in 1..Len(x) : SameOps(Key_ValueOf(item.a[i]), x[i])
     ELSE ValueOf(ty, reg, item) = AssignOrig(ty, x)
NonEmptyFields(h) == Cardinality({f \in {"alg", "crit", "ct", "kid", "iv", "piv", "cs"} : h[f] # <<>>})
Omission(ty, item, x) ==
  CASE ty = "Header" -> Len(item.m) = NonEmptyFields(x) + Len(x.rest)
                        /\ (Len(x.cs) = 1 => ValAt(item.m, 7).a[1].t = "bytes") /\ (Len(x.cs) > 1 => ValAt(item.m, 7).a[1].t = "array")
    [] ty \in MsgTypes \ {"CoseRecipient"} -> (item.a[1] = Bs(<<>>) <=> (x.prot.orig = <<>> /\ Header_IsEmpty(x.prot.hdr)) \/ x.prot.orig = <<<<>>>>)
    [] ty = "CoseRecipient" -> Len(item.a) = IF x.recips = <<>> THEN 3 ELSE 4
    [] ty = "CoseKey" -> Len(item.m) = 1 + Cardinality({f \in {"kid", "alg", "ops", "biv"} : x[f] # <<>>}) + Len(x.params)
    [] ty = "ClaimsSet" -> Len(item.m) = Cardinality({f \in {"iss", "sub", "aud", "exp", "nbf", "iat", "cti"} : x[f] # <<>>}) + Len(x.rest)
    [] OTHER -> TRUE
InvWFMem == Go => WFMem(st.ty, st.x)                       \* the palette stays inside what C11 quantifies over
InvEncode == Go => Out.ok /\ ReadsBack(st.ty, st.reg, Out.x, st.x) /\ Omission(st.ty, Out.x, st.x)
InvDecodeBack == Go => LET d == FromCbor(st.ty, st.reg, Out.x) IN d.ok /\ (st.ty \notin {"CoseKey", "CoseKeySet"} => d.x = AssignOrig(st.ty, st.x))

Extras == CASE st.ty = "Header" -> [i \in 1..Len(st.x.rest) |-> st.x.rest[i][1]]
            [] st.ty = "CoseKey" -> [i \in 1..Len(st.x.params) |-> st.x.params[i][1]]
            [] st.ty = "ClaimsSet" -> [i \in 1..Len(st.x.rest) |-> RegLabel_ToCbor(st.x.rest[i][1])]
            [] OTHER -> <<>>
Emit == Go => PrintT(ToJson([kind |-> "encode", props |-> <<"C11">>, ty |-> st.ty, reg |-> st.reg, x |-> st.x,
                             api |-> "vec", nt |-> TRUE,
                             expect |-> [ok |-> TRUE, err |-> "", pinerr |-> FALSE, item |-> <<Out.x>>, modorder |-> TRUE, extras |-> Extras,
                                         back |-> IF st.ty \in {"Timestamp"} THEN <<>> ELSE <<AssignOrig(st.ty, st.x)>>, judge |-> TRUE]]))
=============================================================================

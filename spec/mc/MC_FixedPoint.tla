---------------------------- MODULE MC_FixedPoint ----------------------------
(***************************************************************************)
(* C07: decode ; encode ; decode ; encode on accepted inputs in canonical  *)
(* and non-canonical encodings: the second value equals the first, the     *)
(* second bytes equal the first re-encoding.  Also through tagged forms.   *)
(* Special wires exercise what re-encoding changes: bignum-tagged          *)
(* integers, indefinite lengths, recipients with an empty list, reordered  *)
(* key_ops -- and tag 2/3 on an indefinite-length bstr (finding F7).       *)
(***************************************************************************)
EXTENDS AccPalette, Json

(* hand-made wires: <<ty, bytes, tags>> *)
Special == <<
  <<"Header", <<161, 24, 99, 194, 65, 1>>, <<>> >>,                             \* {99: 2(h'01')}  bignum form of 1 in an extra: decodes to integer 1
  <<"Header", <<161, 24, 99, 194, 95, 65, 1, 255>>, <<"tag23-on-indefinite-small-bstr">> >>,     \* {99: 2((_ h'01'))}  F7
  <<"Header", <<161, 24, 99, 195, 95, 255>>, <<"tag23-on-indefinite-small-bstr">> >>,            \* {99: 3((_ ))}       F7 (value -1)
  <<"CoseKey", <<162, 1, 1, 32, 194, 95, 66, 1, 0, 255>>, <<"tag23-on-indefinite-small-bstr">> >>,  \* key param value
  <<"ClaimsSet", <<161, 8, 129, 194, 95, 65, 7, 255>>, <<"tag23-on-indefinite-small-bstr">> >>,
  <<"Value", <<194, 95, 65, 1, 255>>, <<"tag23-on-indefinite-small-bstr">> >>,
  <<"Header", <<161, 24, 99, 194, 73, 1, 0,0,0,0,0,0,0,0>>, <<>> >>,            \* 2^64 as bignum: stays a tag, stable
  <<"Header", <<161, 24, 99, 194, 95, 73, 1, 0,0,0,0,0,0,0,0, 255>>, <<>> >>,   \* same through an indefinite bstr: stays a tag, stable
  <<"Header", <<161, 194, 65, 4, 66, 49, 49>>, <<>> >>,                         \* {2(h'04'): h'3131'}: bignum KEY 4 = kid
  <<"CoseKey", <<162, 1, 2, 4, 131, 2, 1, 97, 97>>, <<>> >>,                    \* key_ops listed out of order
  <<"CoseRecipient", <<132, 64, 160, 246, 128>>, <<>> >>,                       \* [h'', {}, nil, []]
  <<"ClaimsSet", <<161, 4, 249, 62, 0>>, <<>> >>,                               \* exp = 1.5 as f16
  <<"ClaimsSet", <<161, 4, 250, 63, 192, 0, 0>>, <<>> >>,                       \* exp = 1.5 as f32
  <<"ClaimsSet", <<161, 4, 251, 63, 248, 0, 0, 0, 0, 0, 0>>, <<>> >>,           \* exp = 1.5 as f64
  <<"ClaimsSet", <<161, 4, 249, 126, 0>>, <<>> >>,                              \* exp = NaN
  (* a PROTECTED header holding a NaN in a non-preferred encoding (the parsed view of such a header is not equal to itself) *)
  <<"CoseSign1", <<132, 76, 161, 24, 99, 251, 127, 248, 0, 0, 0, 0, 0, 0, 160, 246, 64>>, <<>> >>,     \* [h'a11863fb7ff8000000000000', {}, nil, h'']
  <<"CoseSign1", <<132, 72, 161, 24, 99, 250, 127, 192, 0, 0, 160, 246, 64>>, <<>> >>,                \* NaN as f32
  <<"CoseMac0", <<132, 72, 162, 24, 99, 249, 126, 0, 1, 5, 160, 65, 1, 65, 2>>, <<>> >>,               \* NaN as f16, keys unsorted
  <<"CoseKdfContext", <<132, 1, 131, 246, 246, 246, 131, 246, 246, 246, 130, 24, 128, 72, 161, 24, 99, 250, 127, 192, 0, 0>>, <<>> >>,   \* in SuppPubInfo
  <<"Value", <<247>>, <<>> >>,                                                  \* undefined -> null
  <<"Value", <<248, 21>>, <<>> >>,                                              \* two-byte simple true
  <<"Value", <<127, 127, 97, 97, 255, 97, 98, 255>>, <<>> >> >>                 \* nested indefinite text chunks

VARIABLE st
Init == st \in {[mode |-> "acc", i |-> i] : i \in 1..NAcc} \cup {[mode |-> "special", i |-> i] : i \in 1..Len(Special)}
Next == st.mode = "acc" /\ \E s \in Strategies : \E tg \in (IF st.i \in TaggedAcc THEN BOOLEAN ELSE {FALSE}) :
          st' = [mode |-> "go", i |-> st.i, s |-> s, tagged |-> tg]
Spec == Init /\ [][Next]_st

IsGo == st.mode \in {"go", "special"}
Ty == IF st.mode = "special" THEN Special[st.i][1] ELSE AccItems[st.i][1]
Reg == IF st.mode = "special" THEN "" ELSE AccItems[st.i][2]
Tagged == st.mode = "go" /\ st.tagged
Wire == IF st.mode = "special" THEN Special[st.i][2]
        ELSE IF st.tagged THEN EncS(Tag(MagOfNat(TagOf(Ty)), AccItems[st.i][3]), st.s) ELSE EncS(AccItems[st.i][3], st.s)
Tags == IF st.mode = "special" THEN Special[st.i][3] ELSE <<>>
Dec(b) == IF Tagged THEN FromTaggedSlice(Ty, b) ELSE FromSlice(Ty, Reg, b)
EncB(x) == IF Tagged THEN ToTaggedVec(Ty, x) ELSE ToVec(Ty, x)

(* floats are compared up to NaN payload: all the palette NaNs are the canonical one, so equality suffices here *)
FixedPoint(b) ==
  LET v == Dec(b) IN
  v.ok => LET b1 == EncB(v.x) IN
          /\ b1.ok
          /\ LET v1 == Dec(b1.x) IN v1.ok /\ v1.x = v.x /\ EncB(v1.x).ok /\ EncB(v1.x).x = b1.x
InvAccepted == IsGo => Dec(Wire).ok
(* Design |= Prop except on the syntactic class of finding F7 *)
InvFixedPoint == IsGo /\ Tags = <<>> => FixedPoint(Wire)
InvF7 == IsGo /\ Tags # <<>> => ~FixedPoint(Wire)       \* the Design (with ciborium's behaviour modelled) exhibits the two-step convergence

Emit == IsGo => PrintT(ToJson([kind |-> "fixpoint", props |-> <<"C07">>, ty |-> Ty, reg |-> Reg, tagged |-> Tagged, wires |-> <<Wire>>,
                              tags |-> Tags, nt |-> TRUE]))
=============================================================================

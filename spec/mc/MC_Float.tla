------------------------------ MODULE MC_Float ------------------------------
(***************************************************************************)
(* Floating-point items (CWT timestamps, uninterpreted header / key /      *)
(* claim values): ALL 65536 binary16 patterns, and binary32 / binary64     *)
(* patterns around every boundary of the shortest-form rule (zero,         *)
(* subnormal and normal limits of f16 and f32, infinities, quiet and       *)
(* signalling NaNs, fractions with and without bits below each format's    *)
(* precision).  Each is parsed by the model (widening), re-encoded by the  *)
(* model (shortest lossless form), and the same session runs on the crate. *)
(***************************************************************************)
EXTENDS Cose, Json, TLC

CONSTANT H1s      \* first bytes of the f16 patterns explored (0..255 = all 65536 patterns)

E8s == {0, 1, 2, 102, 103, 104, 112, 113, 126, 127, 128, 142, 143, 253, 254, 255}
F23s == {0, 1, 4095, 4096, 8191, 8192, 8193, 4194304, 4194305, 8388607, 8380416, 8384512, 2097152}
F32Pats == {F32(s, e, f) : s \in {0, 1}, e \in E8s, f \in F23s}

E11s == {0, 1, 873, 874, 875, 896, 897, 998, 999, 1000, 1008, 1009, 1022, 1023, 1024, 1038, 1039, 1150, 1151, 2046, 2047}
T28s == {0, 1, 31, 32, 262143, 262144, 134217728, 134479872, 268435455, 268173312, 268435424, 201326592, 67108864}
L24s == {<<0, 0, 0>>, <<0, 0, 1>>, <<128, 0, 0>>}
F64Pats == {SubSeq(F64Of(s, E, t), 1, 5) \o l : s \in {0, 1}, E \in E11s, t \in T28s, l \in L24s}

VARIABLE w
Init == w \in {<<249, h>> : h \in H1s} \cup {<<250>> \o x : x \in F32Pats} \cup {<<251>> \o b : b \in F64Pats}
Next == Len(w) = 2 /\ \E h \in 0..255 : w' = Append(w, h)
Spec == Init /\ [][Next]_w

Done == Len(w) \in {3, 5, 9}
R == Parse(w)
Bits == R.v.bits

(* the quiet form of a NaN pattern of each width *)
Quiet16(h) == IF (h[1] % 128) \div 4 = 31 /\ ((h[1] % 4) # 0 \/ h[2] # 0) /\ (h[1] % 4) < 2 THEN <<h[1] + 2, h[2]>> ELSE h
Quiet32(x) == IF (x[1] % 128) = 127 /\ x[2] >= 128 /\ (x[2] # 128 \/ x[3] # 0 \/ x[4] # 0) /\ x[2] < 192 THEN <<x[1], x[2] + 64, x[3], x[4]>> ELSE x

InvParses == Done => R.ok /\ R.n = Len(w) + 1 /\ R.v.t = "float"
(* widening and shortening are mutually inverse (up to quieting a signalling NaN) *)
InvHalf == Done /\ w[1] = 249 => Shrink16(Bits) = <<Quiet16(SubSeq(w, 2, 3))>>
InvSingle == Done /\ w[1] = 250 => Shrink32(Bits) = <<Quiet32(SubSeq(w, 2, 5))>>
InvBack == Done => /\ (Shrink16(Bits) # <<>> => Widen16(Shrink16(Bits)[1]) = Bits)
                   /\ (Shrink32(Bits) # <<>> => Widen32(Shrink32(Bits)[1]) = Bits)
                   /\ (Shrink16(Bits) # <<>> => Shrink32(Bits) # <<>>)          \* every f16 value is an f32 value
(* re-encoding is lossless and never longer than what was received (a signalling NaN aside: it was changed on the way in) *)
InvLossless == Done => LET e == Enc(R.v) p == Parse(e) IN p.ok /\ p.v = R.v /\ p.n = Len(e) + 1 /\ Len(e) <= Len(w)
(* ... and a fixed point through every type that can hold it *)
Holders == << <<"Value", w>>, <<"Timestamp", w>>, <<"ClaimsSet", <<161, 4>> \o w>>, <<"ClaimsSet", <<161, 97, 97>> \o w>>,
              <<"Header", <<161, 24, 99>> \o w>>, <<"CoseKey", <<162, 1, 1, 24, 99>> \o w>> >>
FixedPoint(ty, b) ==
  LET v == FromSlice(ty, "", b) IN
  /\ v.ok
  /\ LET b1 == ToVec(ty, v.x) IN
     /\ b1.ok /\ LET v1 == FromSlice(ty, "", b1.x) IN v1.ok /\ v1.x = v.x /\ ToVec(ty, v1.x).x = b1.x
InvFixedPoint == Done => \A i \in 1..Len(Holders) : FixedPoint(Holders[i][1], Holders[i][2])
(* a float is never an acceptable label, algorithm, key type, ... *)
InvNotLabel == Done => ~FromSlice("Label", "", w).ok /\ ~FromSlice("RegisteredLabelWithPrivate", "Algorithm", w).ok
                       /\ ~FromSlice("Header", "", <<161>> \o w \o <<0>>).ok

Session(ty, b) ==
  LET steps == <<[ev |-> "inject", bytes |-> b], [ev |-> "decode", api |-> "slice", ty |-> ty, reg |-> ""], [ev |-> "encode", api |-> "vec"]>>
      obs == RunObs(InitState, steps, <<>>) IN
  PrintT(ToJson([kind |-> "session", props |-> <<"C07", "C13">>, steps |-> steps, nt |-> TRUE,
                 expect |-> [k \in 1..Len(obs) |-> [kind |-> obs[k].kind, err |-> obs[k].err, bytes |-> obs[k].bytes, cb |-> obs[k].cb,
                                                    ret |-> obs[k].ret, val |-> obs[k].val, judge |-> TRUE, slotfree |-> FALSE, pinerr |-> FALSE]]]))

Emit == Done =>
  /\ PrintT(ToJson([kind |-> "parse", props |-> <<"C13", "C01", "C07">>, wire |-> w, ok |-> R.ok, gap |-> FALSE, why |-> "",
                    consumed |-> R.n - 1, item |-> <<R.v>>, nt |-> TRUE]))
  /\ \A i \in 1..Len(Holders) :
       /\ PrintT(ToJson([kind |-> "fixpoint", props |-> <<"C07">>, ty |-> Holders[i][1], reg |-> "", tagged |-> FALSE, wires |-> <<Holders[i][2]>>,
                         tags |-> <<>>, nt |-> TRUE]))
       /\ (i \in {1, 2, 3} => Session(Holders[i][1], Holders[i][2]))
=============================================================================

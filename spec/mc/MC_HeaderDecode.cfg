SPECIFICATION Spec
CONSTANT MaxLen = 2
INVARIANT InvIff
INVARIANT InvValue
INVARIANT InvIvPiv
INVARIANT InvDup
INVARIANT InvUnprot
INVARIANT InvProt
INVARIANT Emit
CHECK_DEADLOCK FALSE

---------------------------- MODULE MC_HeaderDecode ----------------------------
(***************************************************************************)
(* C08 (and the decode half of C12/C15 for headers): the adversary builds  *)
(* a header map entry by entry (action Push); every reachable map is       *)
(* decoded standalone, as unprotected header of a COSE_Sign1 and inside a  *)
(* protected bstr.  Invariants: Design |= Prop.  Every state prints one    *)
(* VEC line (input + Prop verdict) that the harness replays on the crate.  *)
(***************************************************************************)
EXTENDS Palette, Json

CONSTANT MaxLen

AlgVals == {Neg2I(7), Nat2I(1), Nat2I(0), Neg2I(65536), Neg2I(65537), Nat2I(8), I63, N63, N63m1, Ta, Te, B1, EmptyArr, Nil, F15}
CritVals == {EmptyArr, Arr(<<Nat2I(1)>>), Arr(<<Nat2I(1), Ta>>), Arr(<<Nat2I(8)>>), Arr(<<Neg2I(65537)>>), Arr(<<I63>>),
             Arr(<<Tt>>), Arr(<<B0>>), Arr(<<EmptyArr>>), Nat2I(1), Ta, EmptyMap}
T(s) == Tx(s)
CtVals == {Nat2I(0), Nat2I(60), Z2I(11544), Nat2I(1), Neg2I(1), I63,
           T(<<97,47,98>>),                 \* "a/b"
           Te,
           T(<<97,98>>),                    \* "ab"
           T(<<97,47,98,47,99>>),           \* "a/b/c"
           T(<<32,97,47,98>>),              \* " a/b"
           T(<<97,47,98,10>>),              \* "a/b\n"
           T(<<194,160,97,47,98>>),         \* NBSP "a/b"
           T(<<97,47,98,227,128,128>>),     \* "a/b" IDEOGRAPHIC SPACE
           T(<<47>>),                       \* "/"
           T(<<65, 47, 98, 59, 32, 81, 61, 90>>),     \* "A/b; Q=Z": upper case and an INTERIOR space are fine
           T(<<97, 47, 98, 9, 99>>),                  \* "a/b<TAB>c"
           T(<<97, 194, 160, 47, 98>>),               \* "a<NBSP>/b"
           T(<<195,169,195,169,47,98>>),    \* "éé/b"  multi-byte characters before the slash
           T(<<230,151,165,47,120>>),       \* "日/x"
           T(<<97,47,240,159,152,128>>),    \* "a/😀"
           T(<<195,169,47,98,47,99>>),      \* "é/b/c"  (two slashes)
           T(<<97,47,32,98>>),              \* "a/ b"  (inner white space is fine)
           T(<<226,128,139,97,47,98>>),     \* ZERO WIDTH SPACE "a/b" (not White_Space)
           B1, EmptyArr}
BytesVals == {B0, B1, B12, Ta, Nat2I(1), Nil, Arr(<<B1>>)}
CsVals == {SigMin, SigA0, SigAlg, SigBadSlot, SigBadProt, SigProtTrail, SigArity2, SigNested, SigNilFirst, EmptyArr,
           Arr(<<SigMin>>), Arr(<<SigMin, SigAlg>>), Arr(<<SigMin, Nat2I(1)>>), Arr(<<SigAlg, SigBadProt>>), Arr(<<EmptyArr>>),
           Arr(<<Nat2I(1), Nat2I(2), Nat2I(3)>>), Nil, B0, EmptyMap}
OtherLabels == {Nat2I(0), Nat2I(8), Nat2I(9), Nat2I(10), Nat2I(24), Z2I(33), Z2I(256), Neg2I(25), Neg2I(1), Neg2I(65537), I63max, N63, Ta, Te}
OtherVals == {Nat2I(1), B0, Tt, Nil, F15, U64max, Arr(<<B1>>)}
BadLabels == {B1, I63, N63m1, EmptyArr, Nil}

Entries ==
       {<<Nat2I(1), v>> : v \in AlgVals}
  \cup {<<Nat2I(2), v>> : v \in CritVals}
  \cup {<<Nat2I(3), v>> : v \in CtVals}
  \cup {<<Nat2I(4), v>> : v \in BytesVals}
  \cup {<<Nat2I(5), v>> : v \in BytesVals}
  \cup {<<Nat2I(6), v>> : v \in BytesVals}
  \cup {<<Nat2I(7), v>> : v \in CsVals}
  \cup {<<l, v>> : l \in OtherLabels, v \in OtherVals}
  \cup {<<l, Nat2I(1)>> : l \in BadLabels}

VARIABLE w
Init == w = <<>>
Push(e) == Len(w) < MaxLen /\ w' = Append(w, e)
(* the first entry again at the end: a NON-ADJACENT repetition (seen-sets that only remember the previous key miss it) *)
Repeat == Len(w) = MaxLen /\ MaxLen >= 2 /\ w[1][1] # w[Len(w)][1] /\ w' = Append(w, w[1])
Next == (\E e \in Entries : Push(e)) \/ Repeat
Spec == Init /\ [][Next]_w

Item == Map(w)
D == Header_FromCbor(Item)
WFd == Header_WF(Item)

(* Design |= Prop *)
InvIff == D.ok <=> WFd
InvValue == D.ok => D.x = Header_ValueOf(Item)
InvIvPiv == D.ok => ~(D.x.iv # <<>> /\ D.x.piv # <<>>)
(* C12 decode: if the only fault is a repeated label the Design reports DuplicateMapKey *)
Dedup(i) == SelectSeq([j \in 1..Len(w) |-> <<j, w[j]>>], LAMBDA p : p[1] = i \/ p[2][1] # w[i][1])
DedupMap(i) == Map([j \in 1..Len(Dedup(i)) |-> Dedup(i)[j][2]])
DupOnlyFault == /\ \A i \in 1..Len(w) : LabelOK(w[i][1])
                /\ ~KeysDistinct(w)
                /\ \E i \in 1..Len(w) : KeysDistinct(DedupMap(i).m)
                /\ \A i \in 1..Len(w) : KeysDistinct(DedupMap(i).m) => Header_WF(DedupMap(i))
InvDup == DupOnlyFault => (~D.ok /\ D.err = "DuplicateMapKey")

(* the same map in the two embedded positions *)
AsUnprot == Arr(<<B0, Item, Nil, B0>>)
AsProt == Arr(<<Bs(Enc(Item)), EmptyMap, Nil, B0>>)
InvUnprot == LET r == Sign1_FromCbor(AsUnprot) IN (r.ok <=> WFd) /\ (r.ok => r.x.unprot = D.x)
Strat2 == LET S == <<"w1", "w2", "w4", "w8", "indef", "indef2">> IN S[(Len(Enc(Item)) % 6) + 1]
AsProt2 == Arr(<<Bs(EncS(Item, Strat2)), EmptyMap, Nil, B0>>)      \* the protected slot itself non-canonically encoded
InvProt2 == LET r == Sign1_FromCbor(AsProt2) IN (r.ok <=> WFd) /\ (r.ok => r.x.prot.hdr = D.x /\ r.x.prot.orig = <<EncS(Item, Strat2)>>)
InvProt == LET r == Sign1_FromCbor(AsProt) IN (r.ok <=> WFd) /\ (r.ok => r.x.prot.hdr = D.x /\ r.x.prot.orig = <<Enc(Item)>>)


Expect(ty, item) ==
  IF WF(ty, "", item) THEN [accept |-> TRUE, val |-> <<ValueOf(ty, "", item)>>, err |-> "", pinerr |-> FALSE, judge |-> TRUE]
  ELSE [accept |-> FALSE, val |-> <<>>, err |-> FromCbor(ty, "", item).err, diag |-> DiagOf(FromCbor(ty, "", item)), text |-> ErrText(FromCbor(ty, "", item)),
        pinerr |-> (ty = "Header" /\ DupOnlyFault), judge |-> TRUE]

Vec(ty, item) == [kind |-> "decode", props |-> <<"C08">>, ty |-> ty, reg |-> "", item |-> item,
                  wires |-> <<Enc(item), EncS(item, Strat2)>>, expect |-> Expect(ty, item)]

Emit == /\ PrintT(ToJson(Vec("Header", Item)))
        /\ Len(w) > 0 => PrintT(ToJson(Vec("CoseSign1", AsUnprot))) /\ PrintT(ToJson(Vec("CoseSign1", AsProt))) /\ PrintT(ToJson(Vec("CoseSign1", AsProt2)))
=============================================================================

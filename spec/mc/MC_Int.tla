------------------------------- MODULE MC_Int -------------------------------
(***************************************************************************)
(* C15: the integer lattice around every encoding-width boundary up to the *)
(* 64-bit extremes, both signs, in every head width that can hold it and   *)
(* in the bignum form, at every position where the crate interprets an     *)
(* integer (and one where it does not).                                    *)
(***************************************************************************)
EXTENDS Palette, Json

Mags == { <<>>, <<1>>, <<2>>, <<7>>, <<8>>, <<22>>, <<23>>, <<24>>, <<25>>, <<254>>, <<255>>, <<1,0>>, <<1,1>>, <<255,254>>, <<255,255>>,
          <<1,0,0>>, <<1,0,1>>, <<255,255,255,254>>, <<255,255,255,255>>, <<1,0,0,0,0>>, <<1,0,0,0,1>>,
          <<249>>, <<255,249>>, <<255,255,255,249>>, <<1,0,0,0,4>>,      \* 2^8-7, 2^16-7, 2^32-7, 2^32+4: aliases of registered values under truncation
          <<127,255,255,255,255,255,255,254>>, <<127,255,255,255,255,255,255,255>>,
          <<128,0,0,0,0,0,0,0>>, <<128,0,0,0,0,0,0,1>>, <<255,255,255,255,255,255,255,254>>, <<255,255,255,255,255,255,255,255>> }
Ints == {I(neg, m) : neg \in BOOLEAN, m \in Mags}

Positions == {"label", "hdr-label", "key-label", "claim-name", "hdr-alg", "key-alg", "kdf-alg", "kty", "content-format", "crit", "key-op",
              "nonce", "exp", "nbf", "iat", "kdl", "extra-value", "key-param-value", "claim-value",
              "reg-alg", "reg-claim", "reg-hdrparam", "reg-keytype", "timestamp",
              "sign-signer-label", "sign-signer-alg", "encrypt-recip2-label", "mac-recip-alg", "cs-label", "cs-array-alg", "keyset-label"}

PartyNil == Arr(<<Nil, Nil, Nil>>)
ItemAt(pos, n) ==
  CASE pos = "label" -> n
    [] pos = "hdr-label" -> Map(<< <<n, Neg2I(7)>> >>)
    [] pos = "key-label" -> Map(<< <<Nat2I(1), Nat2I(4)>>, <<n, B1>> >>)
    [] pos = "claim-name" -> Map(<< <<n, Tt>> >>)
    [] pos = "hdr-alg" -> Map(<< <<Nat2I(1), n>> >>)
    [] pos = "key-alg" -> Map(<< <<Nat2I(1), Nat2I(4)>>, <<Nat2I(3), n>> >>)
    [] pos = "kdf-alg" -> Arr(<<n, PartyNil, PartyNil, Arr(<<Nat2I(1), B0>>)>>)
    [] pos = "kty" -> Map(<< <<Nat2I(1), n>> >>)
    [] pos = "content-format" -> Map(<< <<Nat2I(3), n>> >>)
    [] pos = "crit" -> Map(<< <<Nat2I(2), Arr(<<n>>)>> >>)
    [] pos = "key-op" -> Map(<< <<Nat2I(1), Nat2I(4)>>, <<Nat2I(4), Arr(<<n>>)>> >>)
    [] pos = "nonce" -> Arr(<<Nil, n, Nil>>)
    [] pos = "exp" -> Map(<< <<Nat2I(4), n>> >>)
    [] pos = "nbf" -> Map(<< <<Nat2I(5), n>> >>)
    [] pos = "iat" -> Map(<< <<Nat2I(6), n>> >>)
    [] pos = "kdl" -> Arr(<<n, B0>>)
    [] pos = "extra-value" -> Map(<< <<Z2I(99), n>> >>)
    [] pos = "key-param-value" -> Map(<< <<Nat2I(1), Nat2I(4)>>, <<Neg2I(1), n>> >>)
    [] pos = "claim-value" -> Map(<< <<Nat2I(8), n>> >>)
    [] pos \in {"reg-alg", "reg-claim", "reg-hdrparam", "reg-keytype", "timestamp"} -> n
    (* nested positions: the same integers inside signers, recipients, counter-signatures and key sets *)
    [] pos = "sign-signer-label" -> Arr(<<B0, EmptyMap, Nil, Arr(<<SigMin, Arr(<<B0, Map(<< <<n, Neg2I(7)>> >>), B0>>)>>)>>)
    [] pos = "sign-signer-alg" -> Arr(<<B0, EmptyMap, Nil, Arr(<<Arr(<<B0, Map(<< <<Nat2I(1), n>> >>), B0>>)>>)>>)
    [] pos = "encrypt-recip2-label" -> Arr(<<B0, EmptyMap, Nil, Arr(<<Arr(<<B0, EmptyMap, Nil, Arr(<<Arr(<<B0, Map(<< <<n, B1>> >>), Nil>>)>>)>>)>>)>>)
    [] pos = "mac-recip-alg" -> Arr(<<B0, EmptyMap, B1, B1, Arr(<<Arr(<<B0, Map(<< <<Nat2I(1), n>> >>), Nil>>)>>)>>)
    [] pos = "cs-label" -> Map(<< <<Nat2I(7), Arr(<<B0, Map(<< <<n, Nat2I(1)>> >>), B0>>)>> >>)
    [] pos = "cs-array-alg" -> Map(<< <<Nat2I(7), Arr(<<SigMin, Arr(<<B0, Map(<< <<Nat2I(1), n>> >>), B0>>)>>)>> >>)
    [] pos = "keyset-label" -> Arr(<<Map(<< <<Nat2I(1), Nat2I(4)>> >>), Map(<< <<Nat2I(1), Nat2I(4)>>, <<n, B1>> >>)>>)
TyAt(pos) ==
  CASE pos = "label" -> <<"Label", "">>
    [] pos \in {"hdr-label", "hdr-alg", "content-format", "crit", "extra-value"} -> <<"Header", "">>
    [] pos \in {"key-label", "key-alg", "kty", "key-op", "key-param-value"} -> <<"CoseKey", "">>
    [] pos \in {"claim-name", "exp", "nbf", "iat", "claim-value"} -> <<"ClaimsSet", "">>
    [] pos = "kdf-alg" -> <<"CoseKdfContext", "">>
    [] pos = "nonce" -> <<"PartyInfo", "">>
    [] pos = "kdl" -> <<"SuppPubInfo", "">>
    [] pos = "reg-alg" -> <<"RegisteredLabelWithPrivate", "Algorithm">>
    [] pos = "reg-claim" -> <<"RegisteredLabelWithPrivate", "CwtClaimName">>
    [] pos = "reg-hdrparam" -> <<"RegisteredLabel", "HeaderParameter">>
    [] pos = "reg-keytype" -> <<"RegisteredLabel", "KeyType">>
    [] pos = "timestamp" -> <<"Timestamp", "">>
    [] pos \in {"sign-signer-label", "sign-signer-alg"} -> <<"CoseSign", "">>
    [] pos = "encrypt-recip2-label" -> <<"CoseEncrypt", "">>
    [] pos = "mac-recip-alg" -> <<"CoseMac", "">>
    [] pos \in {"cs-label", "cs-array-alg"} -> <<"Header", "">>
    [] pos = "keyset-label" -> <<"CoseKeySet", "">>
(* positions whose integer the crate interprets, and the range it supports there *)
Supported(pos, n) ==
  IF pos \in {"extra-value", "key-param-value", "claim-value"} THEN TRUE
  ELSE IF pos = "kdl" THEN IntFitsU64(n) ELSE IntFitsI64(n)

Encs(n) == {<<"w", w>> : w \in WidthsFor(n.mag)} \cup {<<"big", 0>>, <<"big", 3>>}
RECURSIVE EncSub(_, _, _)
RECURSIVE EncSubSeq(_, _, _)
RECURSIVE EncSubPairs(_, _, _)
EncSubSeq(a, t, rb) == IF a = <<>> THEN <<>> ELSE EncSub(a[1], t, rb) \o EncSubSeq(Tail(a), t, rb)
EncSubPairs(m, t, rb) == IF m = <<>> THEN <<>> ELSE EncSub(m[1][1], t, rb) \o EncSub(m[1][2], t, rb) \o EncSubPairs(Tail(m), t, rb)
EncSub(v, t, rb) ==
  IF v = t THEN rb
  ELSE CASE v.t = "array" -> Hd(4, MagOfNat(Len(v.a))) \o EncSubSeq(v.a, t, rb)
         [] v.t = "map" -> Hd(5, MagOfNat(Len(v.m))) \o EncSubPairs(v.m, t, rb)
         [] OTHER -> Enc(v)
IntBytes(n, e) == IF e[1] = "w" THEN HdW(IF n.neg THEN 1 ELSE 0, n.mag, e[2]) ELSE EncBignum(n, e[2])

VARIABLE st
Init == st = [mode |-> "init"]
Next == st.mode = "init" /\ \E n \in Ints : \E e \in Encs(n) : \E pos \in Positions : st' = [mode |-> "go", n |-> n, e |-> e, pos |-> pos]
Spec == Init /\ [][Next]_st

Item == ItemAt(st.pos, st.n)
Wire == EncSub(Item, st.n, IntBytes(st.n, st.e))
Ty == TyAt(st.pos)[1]
Reg == TyAt(st.pos)[2]
D == FromCbor(Ty, Reg, Item)
Go == st.mode = "go"

InvParse == Go => LET r == ReadToValue(Wire) IN r.ok /\ r.v = Item          \* every width / the bignum form denote the same integer
InvIff == Go => (D.ok <=> WF(Ty, Reg, Item))
InvValue == Go /\ D.ok => D.x = ValueOf(Ty, Reg, Item)
InvRange == Go /\ ~Supported(st.pos, st.n) => (~D.ok /\ D.err = "OutOfRangeIntegerValue")
InvReenc == Go /\ D.ok => LET e == ToCbor(Ty, D.x) IN e.ok /\ e.x = Item            \* encodes back to the same integer

Expect ==
  IF WF(Ty, Reg, Item) THEN [accept |-> TRUE, val |-> <<ValueOf(Ty, Reg, Item)>>, err |-> "", pinerr |-> FALSE, judge |-> TRUE,
                             reenc |-> <<Enc(Item)>>]
  (* rejected: C15's business when the integer lies outside the supported range (then the out-of-range error is pinned); an in-range *)
  (* integer rejected for another reason (unregistered, reserved key type, ...) is judged by the property that owns that rule        *)
  ELSE [accept |-> FALSE, val |-> <<>>, err |-> D.err, pinerr |-> ~Supported(st.pos, st.n), errprop |-> "C15",
        judge |-> ~Supported(st.pos, st.n), reenc |-> <<>>]
Emit == Go => PrintT(ToJson([kind |-> "decode", props |-> <<"C15">>, ty |-> Ty, reg |-> Reg, item |-> Item, wires |-> <<Wire>>,
                             nt |-> TRUE, pos |-> st.pos, expect |-> Expect]))
=============================================================================

------------------------------- MODULE MC_Kdf -------------------------------
(***************************************************************************)
(* C18 (KDF contexts): arrays of arity 0..MaxLen slot by slot; the same    *)
(* machine, started in mode "party" / "supp", enumerates the sub-arrays.   *)
(***************************************************************************)
EXTENDS Palette, Json

CONSTANT MaxLen

PartyOK1 == Arr(<<Nil, Nil, Nil>>)
PartyOK2 == Arr(<<B1, Neg2I(5), B12>>)
PartyOK3 == Arr(<<B0, B1, Nil>>)
PartyBadNonce == Arr(<<Nil, Ta, Nil>>)
PartyBigNonce == Arr(<<Nil, I63, Nil>>)
PartyArity2 == Arr(<<Nil, Nil>>)
PartyArity4 == Arr(<<Nil, Nil, Nil, Nil>>)
SuppOK1 == Arr(<<Z2I(128), B0>>)
SuppOK2 == Arr(<<U64max, Bs(<<161, 1, 38>>), B1>>)
SuppNeg == Arr(<<Neg2I(1), B0>>)
SuppBadProt == Arr(<<Nat2I(1), Bs(<<161, 1, 64>>)>>)
SuppNoBstr == Arr(<<Nat2I(1), EmptyMap>>)
SuppBadOther == Arr(<<Nat2I(1), B0, Ta>>)
SuppArity1 == Arr(<<Nat2I(1)>>)
SuppArity4 == Arr(<<Nat2I(1), B0, B1, B1>>)

K1 == {Neg2I(7), Nat2I(1), Neg2I(65537), Ta, Neg2I(65536), Nat2I(8), I63, B1, Nil}
K23 == {PartyOK1, PartyOK2, PartyOK3, PartyBadNonce, PartyBigNonce, PartyArity2, PartyArity4, Nil, EmptyMap}
K4 == {SuppOK1, SuppOK2, SuppNeg, SuppBadProt, SuppNoBstr, SuppBadOther, SuppArity1, SuppArity4, B1}
K5 == {B0, B1, Ta, Nil}
KPal(i) == CASE i = 1 -> K1 [] i \in {2, 3} -> K23 [] i = 4 -> K4 [] OTHER -> K5

PartySlot == {Nil, B0, B1, Nat2I(0), Neg2I(1), I63max, I63, N63, N63m1, Ta, EmptyArr}
SuppSlot(i) == CASE i = 1 -> {Nat2I(0), Z2I(256), I63, U64max, Neg2I(1), N64, Ta, B1, Nil}
                 [] i = 2 -> {B0, Bs(<<161, 1, 38>>), Bs(<<160>>), Bs(<<161, 1, 64>>), Bs(<<160, 0>>), EmptyMap, Nil, Nat2I(1)}
                 [] OTHER -> {B0, B1, Ta, Nil, Nat2I(1)}

VARIABLES a, mode
vars == <<a, mode>>
Init == a = <<>> /\ mode \in {"kdf", "party", "supp"}
Push(x) == a' = Append(a, x) /\ UNCHANGED mode
Next == \/ mode = "kdf" /\ Len(a) < MaxLen /\ \E x \in KPal(Len(a) + 1) : Push(x)
        \/ mode = "party" /\ Len(a) < 4 /\ \E x \in PartySlot : Push(x)
        \/ mode = "supp" /\ Len(a) < 4 /\ \E x \in SuppSlot(Len(a) + 1) : Push(x)
Spec == Init /\ [][Next]_vars

Item == Arr(a)
Ty == CASE mode = "kdf" -> "CoseKdfContext" [] mode = "party" -> "PartyInfo" [] mode = "supp" -> "SuppPubInfo"
D == FromCbor(Ty, "", Item)
WFd == WF(Ty, "", Item)
InvIff == D.ok <=> WFd
InvValue == D.ok => D.x = ValueOf(Ty, "", Item)
InvRoundTrip == D.ok => LET e == ToCbor(Ty, D.x) IN e.ok /\ e.x = Item

Expect ==
  IF WFd THEN [accept |-> TRUE, val |-> <<ValueOf(Ty, "", Item)>>, err |-> "", pinerr |-> FALSE, judge |-> TRUE, reenc |-> <<Enc(ToCbor(Ty, D.x).x)>>]
  ELSE [accept |-> FALSE, val |-> <<>>, err |-> D.err, diag |-> DiagOf(D), text |-> ErrText(D), pinerr |-> FALSE, judge |-> TRUE]
Strat2 == LET S == <<"w1", "w2", "w4", "w8", "indef", "indef2">> IN S[(Len(Enc(Item)) % 6) + 1]
Emit == PrintT(ToJson([kind |-> "decode", props |-> <<"C18">>, ty |-> Ty, reg |-> "", item |-> Item,
                       wires |-> <<Enc(Item), EncS(Item, Strat2)>>, expect |-> Expect]))
=============================================================================

---------------------------- MODULE MC_KeyDecode ----------------------------
(***************************************************************************)
(* C10: COSE_Key maps built entry by entry; key sets of such maps.         *)
(***************************************************************************)
EXTENDS Palette, Json

CONSTANT MaxLen, MaxKeys

KtyVals == {Nat2I(1), Nat2I(2), Nat2I(4), Nat2I(6), Nat2I(0), Nat2I(7), Neg2I(1), Neg2I(65537), I63, Ta, Te, B1, Nil, EmptyArr}
KidVals == {B0, B1, B12, Ta, Nat2I(1), Nil}
AlgVals == {Neg2I(7), Nat2I(0), Neg2I(65536), Neg2I(65537), Nat2I(8), I63, Ta, B1, Nil}
OpsVals == {EmptyArr, Arr(<<Nat2I(1)>>), Arr(<<Nat2I(2), Nat2I(1)>>), Arr(<<Nat2I(10), Ta, Nat2I(1)>>), Arr(<<Nat2I(1), Nat2I(1)>>),
            Arr(<<Ta, Ta>>), Arr(<<Ta, Tt>>), Arr(<<Nat2I(3), Nat2I(4), Nat2I(3)>>), Arr(<<Ta, Nat2I(1), Ta>>), Arr(<<Nat2I(0)>>), Arr(<<Nat2I(11)>>), Arr(<<Neg2I(65537)>>), Arr(<<I63>>),
            Arr(<<B1>>), Arr(<<Nat2I(1), EmptyArr>>), Nat2I(1), Ta, Nil, EmptyMap}
BivVals == {B0, B1, Ta, Nat2I(1)}
OtherLabels == {Nat2I(0), Nat2I(6), Nat2I(23), Nat2I(24), Neg2I(24), Neg2I(25), Neg2I(1), Neg2I(2), Neg2I(3), Neg2I(4), Neg2I(65537), I63max, N63, Ta}
OtherVals == {Nat2I(1), B1, Tt, Bool(TRUE), U64max}
BadLabels == {B1, I63, N63m1, Nil}

Entries ==
       {<<Nat2I(1), v>> : v \in KtyVals}
  \cup {<<Nat2I(2), v>> : v \in KidVals}
  \cup {<<Nat2I(3), v>> : v \in AlgVals}
  \cup {<<Nat2I(4), v>> : v \in OpsVals}
  \cup {<<Nat2I(5), v>> : v \in BivVals}
  \cup {<<l, v>> : l \in OtherLabels, v \in OtherVals}
  \cup {<<l, Nat2I(1)>> : l \in BadLabels}

(* keys used as elements of key sets *)
KeyOK1 == Map(<< <<Nat2I(1), Nat2I(4)>>, <<Neg2I(1), B1>> >>)
KeyOK2 == Map(<< <<Nat2I(2), B1>>, <<Nat2I(1), Ta>> >>)
KeyNoKty == Map(<< <<Nat2I(2), B1>> >>)
KeyDup == Map(<< <<Nat2I(1), Nat2I(1)>>, <<Neg2I(1), B1>>, <<Neg2I(1), B12>> >>)
SetElems == {KeyOK1, KeyOK2, KeyNoKty, KeyDup, EmptyMap, Nat2I(1), EmptyArr}

VARIABLES w, ks, mode
vars == <<w, ks, mode>>
(* a key map starts empty, or already holding a valid key type (so that every rule is also exercised on otherwise acceptable keys) *)
Init == /\ ks = <<>>
        /\ \/ (mode = "set" /\ w = <<>>)
           \/ (mode = "key" /\ w \in {<<>>, << <<Nat2I(1), Nat2I(4)>> >>, << <<Nat2I(1), Ta>> >>})
Base == IF w # <<>> /\ w[1] \in {<<Nat2I(1), Nat2I(4)>>, <<Nat2I(1), Ta>>} THEN 1 ELSE 0
Push(e) == mode = "key" /\ Len(w) < MaxLen + Base /\ w' = Append(w, e) /\ UNCHANGED <<ks, mode>>
PushKey(k) == mode = "set" /\ Len(ks) < MaxKeys /\ ks' = Append(ks, k) /\ UNCHANGED <<w, mode>>
Repeat == mode = "key" /\ Len(w) = MaxLen + Base /\ Len(w) >= 2 /\ w[Base + 1][1] # w[Len(w)][1] /\ Len(w) > Base + 1
          /\ w' = Append(w, w[Base + 1]) /\ UNCHANGED <<ks, mode>>       \* non-adjacent repetition of the first pushed entry
Next == (\E e \in Entries : Push(e)) \/ (\E k \in SetElems : PushKey(k)) \/ Repeat
Spec == Init /\ [][Next]_vars

Item == IF mode = "key" THEN Map(w) ELSE Arr(ks)
Ty == IF mode = "key" THEN "CoseKey" ELSE "CoseKeySet"
D == FromCbor(Ty, "", Item)
WFd == WF(Ty, "", Item)

InvIff == D.ok <=> WFd
(* operations are a set: compare modulo the order in which they are listed *)
OpsSet(k) == {k.ops[i] : i \in 1..Len(k.ops)}
SameKey(x, y) == [x EXCEPT !.ops = <<>>] = [y EXCEPT !.ops = <<>>] /\ OpsSet(x) = OpsSet(y) /\ Len(x.ops) = Len(y.ops)
InvValue == D.ok => IF mode = "key" THEN SameKey(D.x, Key_ValueOf(Item))
                    ELSE Len(D.x) = Len(ks) /\ \A i \in 1..Len(ks) : SameKey(D.x[i], Key_ValueOf(ks[i]))
(* the label order used for the operation set agrees with the Prop order on everything it ever sorts *)
InvOpsOrder == D.ok /\ mode = "key" => D.x.ops = Key_ValueOf(Item).ops

KDedup(i) == SelectSeq([j \in 1..Len(w) |-> <<j, w[j]>>], LAMBDA p : p[1] = i \/ p[2][1] # w[i][1])
KDedupMap(i) == Map([j \in 1..Len(KDedup(i)) |-> KDedup(i)[j][2]])
DupOnlyFault == /\ mode = "key"
                /\ \A i \in 1..Len(w) : LabelOK(w[i][1])
                /\ ~KKeysDistinct(w)
                /\ \E i \in 1..Len(w) : KKeysDistinct(KDedupMap(i).m)
                /\ \A i \in 1..Len(w) : KKeysDistinct(KDedupMap(i).m) => Key_WF(KDedupMap(i))
InvDup == DupOnlyFault => (~D.ok /\ D.err = "DuplicateMapKey")

Expect ==
  IF WFd THEN [accept |-> TRUE, val |-> <<ValueOf(Ty, "", Item)>>, err |-> "", pinerr |-> FALSE, errprop |-> "C12", judge |-> TRUE]
  ELSE [accept |-> FALSE, val |-> <<>>, err |-> D.err, diag |-> DiagOf(D), text |-> ErrText(D), pinerr |-> DupOnlyFault, errprop |-> "C12", judge |-> TRUE]
Strat2 == LET S == <<"w1", "w2", "w4", "w8", "indef", "indef2">> IN S[(Len(Enc(Item)) % 6) + 1]
Emit == PrintT(ToJson([kind |-> "decode", props |-> <<"C10">>, ty |-> Ty, reg |-> "", item |-> Item,
                       wires |-> <<Enc(Item), EncS(Item, Strat2)>>, expect |-> Expect]))
=============================================================================

---------------------------- MODULE MC_LabelOrder ----------------------------
(***************************************************************************)
(* C16: all pairs (vectors) and all triples (order laws, checked on the    *)
(* Design by TLC and on the implementation by the harness) of labels       *)
(* across every encoding-length boundary, for the three label types.       *)
(***************************************************************************)
EXTENDS Palette, Json
SE == INSTANCE SequencesExt

As(n) == SeqOf(n, 97)
IntMags == {<<>>, <<1>>, <<23>>, <<24>>, <<255>>, <<1,0>>, <<255,255>>, <<1,0,0>>, <<255,255,255,255>>, <<1,0,0,0,0>>,
            <<127,255,255,255,255,255,255,255>>}
N63p1 == I(TRUE, <<127,255,255,255,255,255,255,254>>)     \* -2^63 + 1
IntLabels == {I(neg, m) : neg \in BOOLEAN, m \in IntMags} \cup {N63p1, I(FALSE, <<127,255,255,255,255,255,255,254>>)}
TextLabels == {Tx(<<>>), Tx(<<97>>), Tx(<<98>>), Tx(<<122>>), Tx(<<97,97>>), Tx(<<97,98>>), Tx(<<98,97>>), Tx(<<195,169>>), Tx(<<97, 195, 169>>),
               Tx(As(23)), Tx(As(22) \o <<98>>), Tx(<<98>> \o As(22)), Tx(As(24)), Tx(As(255)), Tx(As(254) \o <<98>>), Tx(As(256)), Tx(As(22) \o <<195,169>>),
               (* one text for every encoded length an integer label can have, and its neighbours: 1 + len in {4, 5, 6, 8, 9, 10} *)
               Tx(As(3)), Tx(As(4)), Tx(As(5)), Tx(As(7)), Tx(As(8)), Tx(As(9))}
Labels == IntLabels \cup TextLabels

AlgNames == {"RS1", "WalnutDSA", "RS256", "ES256K", "ECDH_ES_HKDF_256", "SHAKE128", "EdDSA", "ES256", "A128KW", "Reserved", "A128GCM",
             "HMAC_512_512", "AES_CCM_16_64_128", "ChaCha20Poly1305", "AES_MAC_128_128", "IV_GENERATION"}
RegTexts == {TextL(<<>>), TextL(<<97>>), TextL(<<98>>), TextL(<<97,97>>), TextL(As(23)), TextL(As(24)), TextL(<<195,169>>)}
AlgLabels == {Assigned("Algorithm", n) : n \in AlgNames}
             \cup {Priv(Neg2I(65537)), Priv(Neg2I(65538)), Priv(I(TRUE, <<1,0,0,0,0>>)), Priv(N63), Priv(N63p1)} \cup RegTexts
CfNames == {"TextPlainUtf8", "CoseEncrypt0", "OctetStream", "Cbor", "CoseSign", "CoapGroupJson", "PkixCert", "VndOcfCbor", "VndOmaLwm2mCbor"}
CfLabels == {Assigned("CoapContentFormat", n) : n \in CfNames} \cup RegTexts
OpLabels == {Assigned("KeyOperation", Registry["KeyOperation"][i][1]) : i \in 1..Len(Registry["KeyOperation"])} \cup RegTexts
ClaimLabels == {Assigned("CwtClaimName", Registry["CwtClaimName"][i][1]) : i \in 1..Len(Registry["CwtClaimName"])}
               \cup {Priv(Neg2I(65537)), Priv(N63), Priv(N63p1)} \cup RegTexts

Kinds == {"Label", "Algorithm", "CoapContentFormat", "KeyOperation", "CwtClaimName"}
SetOf(k) == CASE k = "Label" -> Labels [] k = "Algorithm" -> AlgLabels [] k = "CoapContentFormat" -> CfLabels
              [] k = "KeyOperation" -> OpLabels [] k = "CwtClaimName" -> ClaimLabels
Cb(k, x) == IF k = "Label" THEN x ELSE RegLabel_ToCbor(x)
LtyOf(k) == CASE k = "Label" -> "Label" [] k \in {"Algorithm", "CwtClaimName"} -> "RegisteredLabelWithPrivate" [] OTHER -> "RegisteredLabel"

VARIABLE st
Init == st = [mode |-> "init"]
Next == st.mode = "init" /\
  \/ \E k \in Kinds : \E a \in SetOf(k) : \E b \in SetOf(k) : st' = [mode |-> "pair", k |-> k, ca |-> Cb(k, a), cb |-> Cb(k, b), ra |-> a, rb |-> b]
  \/ \E k \in Kinds : st' = [mode |-> "list", k |-> k]
  \/ st' = [mode |-> "laws"]      \* (not in the initial state: TLC evaluates that one on its small main-thread stack)
Spec == Init /\ [][Next]_st

(* Design |= Prop on every pair *)
InvLex == st.mode = "pair" => LabelCmpDesign(st.ca, st.cb) = LabelCmpProp(st.ca, st.cb)
InvCanon == st.mode = "pair" => CanonCmpDesign(st.ca, st.cb) = CanonCmpProp(st.ca, st.cb)
InvEq == st.mode = "pair" => ((LabelCmpDesign(st.ca, st.cb) = 0) <=> (st.ca = st.cb))
InvAntisym == st.mode = "pair" => LabelCmpDesign(st.ca, st.cb) = 0 - LabelCmpDesign(st.cb, st.ca)
(* transitivity over all triples of plain labels (evaluated once, in the state "laws") *)
InvTrans == st.mode = "laws" =>
  \A a \in Labels : \A b \in Labels : \A c \in Labels :
     (LabelCmpDesign(a, b) <= 0 /\ LabelCmpDesign(b, c) <= 0) => LabelCmpDesign(a, c) <= 0
InvTransCanon == st.mode = "laws" =>
  \A a \in Labels : \A b \in Labels : \A c \in Labels :
     (CanonCmpDesign(a, b) <= 0 /\ CanonCmpDesign(b, c) <= 0) => CanonCmpDesign(a, c) <= 0

ListOf(k) == SE!SetToSeq(SetOf(k))
CbCmpLex(x, y) == LabelCmpProp(Cb(st.k, x), Cb(st.k, y))
CbCmpCanon(x, y) == CanonCmpProp(Cb(st.k, x), Cb(st.k, y))
Sign(z) == IF z < 0 THEN -1 ELSE IF z > 0 THEN 1 ELSE 0
Emit ==
  CASE st.mode = "pair" ->
         PrintT(ToJson([kind |-> "cmp", props |-> <<"C16">>, lty |-> LtyOf(st.k), reg |-> IF st.k = "Label" THEN "" ELSE st.k,
                        a |-> st.ra, b |-> st.rb,
                        expect |-> [cmp |-> Sign(LabelCmpProp(st.ca, st.cb)), canon |-> Sign(CanonCmpProp(st.ca, st.cb)), eq |-> st.ca = st.cb]]))
    [] st.mode = "list" ->
         PrintT(ToJson([kind |-> "sort", props |-> <<"C16">>, lty |-> LtyOf(st.k), reg |-> IF st.k = "Label" THEN "" ELSE st.k,
                        items |-> ListOf(st.k), lex |-> SortBy(CbCmpLex, ListOf(st.k)), canon |-> SortBy(CbCmpCanon, ListOf(st.k))]))
    [] OTHER -> TRUE
=============================================================================

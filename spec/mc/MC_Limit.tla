------------------------------ MODULE MC_Limit ------------------------------
(***************************************************************************)
(* The recursion budget of the parser (ciborium: 256 levels per call of    *)
(* from_slice) seen from C08 and C10.  C08 says that the verdict on a      *)
(* header map depends only on its data-model value, whether it is used     *)
(* standalone, as the unprotected header of a message or inside a          *)
(* protected bstr; C10 says that a key set is accepted iff its keys are.    *)
(* A header / key whose extra value is nested d arrays deep:               *)
(*   standalone: 1 + d levels; as unprotected header of a COSE_Sign1, or   *)
(*   as the only element of a COSE_KeySet: 2 + d levels; inside a          *)
(*   protected bstr: 1 + d levels again (the bstr is parsed by a fresh     *)
(*   call).                                                                *)
(* At d = 255 the same map is therefore accepted standalone and in a       *)
(* protected bstr, and refused as an unprotected header (finding F10); the *)
(* same key is accepted alone and refused inside a key set (F11).  Same    *)
(* root cause as F9 (C14).  The Design (with the budget modelled in        *)
(* Cbor!Parse) reproduces it -- InvBudget -- the Prop layer does not know  *)
(* about budgets: the vectors expect acceptance and carry the tag          *)
(* "nesting-at-recursion-limit" where the Design refuses.                  *)
(***************************************************************************)
EXTENDS Palette, Json, TLC

RECURSIVE NestArr(_)
NestArr(d) == IF d = 0 THEN Nat2I(1) ELSE Arr(<<NestArr(d - 1)>>)
H(d) == Map(<< <<Nat2I(10), NestArr(d)>> >>)
K(d) == Map(<< <<Nat2I(1), Nat2I(1)>>, <<Neg2I(1), NestArr(d)>> >>)

(* case i = (position k, depth d): <<property, type, wire, levels needed by one parse of the outer item>>; built only in the judged *)
(* state (255 nested arrays do not fit TLC's main-thread stack, on which initial states are evaluated)                            *)
CaseOf(i) ==
  LET k == ((i - 1) % 5) + 1  d == 253 + ((i - 1) \div 5) IN
  CASE k = 1 -> <<"C08", "Header", Enc(H(d)), 1 + d>>
    [] k = 2 -> <<"C08", "CoseSign1", Enc(Arr(<<B0, H(d), Nil, B0>>)), 2 + d>>                   \* as unprotected header
    [] k = 3 -> <<"C08", "CoseSign1", Enc(Arr(<<Bs(Enc(H(d))), EmptyMap, Nil, B0>>)), 1 + d>>    \* inside the protected bstr (parsed afresh)
    [] k = 4 -> <<"C10", "CoseKey", Enc(K(d)), 1 + d>>
    [] k = 5 -> <<"C10", "CoseKeySet", Enc(Arr(<<K(d)>>)), 2 + d>>
NCases == 15

(* judged in a successor state (TLC evaluates initial states on its small main-thread stack) *)
VARIABLES ci, go
Init == ci \in 1..NCases /\ go = FALSE
Next == ~go /\ go' = TRUE /\ UNCHANGED ci
Spec == Init /\ [][Next]_<<ci, go>>
C == CaseOf(ci)
D == FromSlice(C[2], "", C[3])

InvBudget == go => (D.ok <=> C[4] <= DepthLimit)
(* the same map / key, by position *)
InvPosition == go =>
  /\ FromSlice("Header", "", Enc(H(255))).ok /\ ~FromSlice("CoseSign1", "", Enc(Arr(<<B0, H(255), Nil, B0>>))).ok
  /\ FromSlice("CoseSign1", "", Enc(Arr(<<Bs(Enc(H(255))), EmptyMap, Nil, B0>>))).ok
  /\ FromSlice("CoseKey", "", Enc(K(255))).ok /\ ~FromSlice("CoseKeySet", "", Enc(Arr(<<K(255)>>))).ok

Emit == go =>
  PrintT(ToJson([kind |-> "decode", props |-> <<C[1]>>, ty |-> C[2], reg |-> "", novalue |-> TRUE, wires |-> <<C[3]>>, nt |-> TRUE,
                 tags |-> IF D.ok THEN <<>> ELSE <<"nesting-at-recursion-limit">>,
                 expect |-> [accept |-> TRUE, val |-> <<>>, err |-> "", pinerr |-> FALSE, judge |-> TRUE]]))
=============================================================================

----------------------------- MODULE MC_LongText -----------------------------
(***************************************************************************)
(* Text and byte strings longer than ciborium's 4096-byte scratch buffer,  *)
(* which it reads through a different code path (segment by segment, with  *)
(* multi-byte characters allowed to straddle its internal buffer           *)
(* boundaries): every case is parsed by the model and by ciborium, and     *)
(* decoded as a text label, as a header with a long text label / a long    *)
(* extra value / a long key id, and as a claims set with a long issuer.    *)
(***************************************************************************)
EXTENDS Cose, Json, TLC

Rep(x, n) == [i \in 1..n |-> x]
HeadN(mj, n) == Hd(mj, MagOfNat(n))
Def(mj, p) == HeadN(mj, Len(p)) \o p
E2 == <<195, 169>>            \* e-acute
E3 == <<226, 130, 172>>       \* euro sign
E4 == <<240, 157, 132, 158>>  \* musical symbol G clef

(* payloads: <<name, bytes, well-formed UTF-8>> *)
Straddle(e, boundary, off) == Rep(97, boundary - off) \o e \o Rep(98, 10)
Cases ==
  {<<"ascii", Rep(97, n)>> : n \in {4096, 4097}}
  \cup {<<"straddle", Straddle(e, 4096, 1)>> : e \in {E2, E3, E4}}
  \cup {<<"straddle", Straddle(E4, 4096, 3)>>, <<"straddle", Straddle(E3, 8192, 2)>>}
  \cup {<<"bad-continuation", Rep(97, 4096) \o <<128>> \o Rep(98, 3)>>,
        <<"bad-lead", Rep(97, 4095) \o <<195>> \o Rep(98, 3)>>,
        <<"cut-char", Rep(97, 4096) \o <<226, 130>>>>,
        <<"bad-early", Rep(97, 10) \o <<255>> \o Rep(97, 5000)>>,
        <<"bad-at-pull-end", Rep(97, 4094) \o <<255>> \o Rep(97, 100)>>,      \* carried into the second pull, which fails
        <<"bad-before-pull-end", Rep(97, 4090) \o <<255>> \o Rep(97, 100)>>}  \* more than 3 bytes before the pull boundary

(* the cases are judged in a SUCCESSOR state: TLC evaluates initial states on its small main-thread stack *)
VARIABLES cs, go
Init == cs \in Cases /\ go = FALSE
Next == ~go /\ go' = TRUE /\ UNCHANGED cs
Spec == Init /\ [][Next]_<<cs, go>>
c == cs

P == c[2]
Valid == Utf8Valid(P)
WText == Def(3, P)
WBytes == Def(2, P)
WIndef == <<127>> \o Def(3, SubSeq(P, 1, 4000)) \o Def(3, SubSeq(P, 4001, Len(P))) \o <<255>>   \* two chunks, cut inside the ASCII run
WCut == SubSeq(WText, 1, Len(WText) - 1)

InvText == go => Parse(WText).ok <=> Valid
InvValue == go /\ Valid => Parse(WText).v = Tx(P) /\ Parse(WIndef).ok /\ Parse(WIndef).v = Tx(P)
InvBytes == go => Parse(WBytes).ok /\ Parse(WBytes).v = Bs(P)
(* a truncated long text: end of input, unless a pull that is completely there already fails *)
InvCut == go => ~Parse(WCut).ok /\ (Valid => Parse(WCut).why = "eof")
(* the long string in typed positions *)
Holders == << <<"Label", WText>>, <<"Header", <<161>> \o WText \o <<1>>>>, <<"Header", <<161, 24, 99>> \o WText>>,
              <<"Header", <<161, 4>> \o WBytes>>, <<"ClaimsSet", <<161, 1>> \o WText>>, <<"Value", WIndef>> >>
InvHolders == go => \A i \in 1..Len(Holders) : FromSlice(Holders[i][1], "", Holders[i][2]).ok <=> (Valid \/ i = 4)

ParseVec(w) == LET r == Parse(w) IN
  PrintT(ToJson([kind |-> "parse", props |-> <<"C13", "C01", "C07">>, wire |-> w, ok |-> r.ok, gap |-> FALSE, why |-> (IF r.ok THEN "" ELSE r.why),
                 consumed |-> (IF r.ok THEN r.n - 1 ELSE 0), item |-> (IF r.ok THEN <<r.v>> ELSE <<>>), nt |-> TRUE]))
Expect(ty, w) ==
  LET r == FromSlice(ty, "", w) IN
  IF r.ok THEN [accept |-> TRUE, val |-> <<r.x>>, err |-> "", pinerr |-> FALSE, errprop |-> "C13", judge |-> TRUE]
  ELSE [accept |-> FALSE, val |-> <<>>, err |-> r.err, pinerr |-> (r.err = "DecodeFailed"), errprop |-> "C13", judge |-> TRUE]
Emit == go =>
  /\ ParseVec(WText) /\ ParseVec(WBytes) /\ ParseVec(WIndef) /\ ParseVec(WCut)
  /\ \A i \in 1..Len(Holders) :
       /\ PrintT(ToJson([kind |-> "decode", props |-> <<"C13", "C01">>, novalue |-> TRUE, ty |-> Holders[i][1], reg |-> "", wires |-> <<Holders[i][2]>>,
                         nt |-> TRUE, expect |-> Expect(Holders[i][1], Holders[i][2])]))
       /\ PrintT(ToJson([kind |-> "fixpoint", props |-> <<"C07">>, ty |-> Holders[i][1], reg |-> "", tagged |-> FALSE, wires |-> <<Holders[i][2]>>,
                         tags |-> <<>>, nt |-> TRUE]))
=============================================================================

------------------------------ MODULE MC_Machine ------------------------------
(***************************************************************************)
(* The lifecycle machine of spec/Cose.tla running FREELY: at every state    *)
(* any enabled event may happen -- the user builds, encodes, decodes,       *)
(* verifies; the environment replaces, truncates or extends what is on the  *)
(* wire.  State = (machine state, history); the history is what the crate   *)
(* is asked to replay.  Used exhaustively to a small depth and with         *)
(* `tlc -simulate` for long behaviours.                                     *)
(*                                                                          *)
(* Invariants (each is one of the listed properties, stated on the machine):*)
(*   C01  a decoder's outcome is ok or err; a follow-up panics only under   *)
(*        its documented precondition                                       *)
(*   C02  every protected header of a decoded value retains its bytes, and  *)
(*        encoding a decoded value writes back exactly the wire it came from*)
(*        when that wire was deterministic                                  *)
(*   C13  a decode succeeds only if the wire is exactly one item            *)
(*   C07  decode after encode after decode gives the same value             *)
(***************************************************************************)
EXTENDS AccPalette, Json

CONSTANT MaxDepth

H1 == [EmptyHeader EXCEPT !.alg = <<Assigned("Algorithm", "ES256")>>, !.kid = <<49>>]
A1 == <<161>>
ROk == [ok |-> TRUE, bytes |-> <<1, 1>>]
Vr == [ok |-> TRUE, bytes |-> <<>>]
WireItems == {i \in 1..NAcc : AccItems[i][1] \in {"CoseSign1", "CoseMac0", "CoseEncrypt0", "CoseSign", "CoseKey", "Header", "ClaimsSet"}}

Enabled(s, depth) ==
  (* the environment *)
  {[ev |-> "inject", bytes |-> EncS(AccItems[i][3], st)] : i \in WireItems, st \in {"min", "w2", "indef"}}
  \cup (IF s.wire # <<>> /\ Len(s.wire[1]) > 0 THEN {[ev |-> "truncate", n |-> Len(s.wire[1]) - 1], [ev |-> "append", bytes |-> <<246>>]} ELSE {})
  (* decoding what is on the wire, as any of a few types *)
  \cup (IF s.wire # <<>> THEN {[ev |-> "decode", api |-> "slice", ty |-> t, reg |-> ""] : t \in {"CoseSign1", "CoseMac0", "CoseEncrypt0", "CoseSign", "CoseKey", "Header", "ClaimsSet", "Value"}}
                              \cup {[ev |-> "decode", api |-> "tagged", ty |-> t, reg |-> ""] : t \in {"CoseSign1", "CoseMac0"}}
        ELSE {})
  (* building *)
  \cup (IF s.mem.k = "none" THEN {[ev |-> "new", ty |-> t] : t \in {"CoseSign1", "CoseMac0", "CoseEncrypt0"}} ELSE {})
  \cup (IF s.mem.k = "builder" THEN
          {[ev |-> "call", m |-> "protected", hdr |-> H1], [ev |-> "build"]}
          \cup (IF s.mem.ty = "CoseSign1" THEN {[ev |-> "call", m |-> "payload", bytes |-> <<80>>], [ev |-> "call", m |-> "create_signature", aad |-> A1, res |-> ROk]} ELSE {})
          \cup (IF s.mem.ty = "CoseMac0" THEN {[ev |-> "call", m |-> "payload", bytes |-> <<80>>], [ev |-> "call", m |-> "create_tag", aad |-> A1, res |-> ROk]} ELSE {})
          \cup (IF s.mem.ty = "CoseEncrypt0" THEN {[ev |-> "call", m |-> "create_ciphertext", pt |-> <<80>>, aad |-> A1, res |-> ROk]} ELSE {})
        ELSE {})
  (* using a value *)
  \cup (IF s.mem.k = "value" THEN
          {[ev |-> "encode", api |-> "vec"], [ev |-> "clone_eq"]}
          \cup (IF s.mem.ty \in TaggedTypes THEN {[ev |-> "encode", api |-> "tagged"]} ELSE {})
          \cup (IF s.mem.ty = "CoseSign1" THEN {[ev |-> "verify", m |-> "verify_signature", aad |-> A1, res |-> Vr],
                                                 [ev |-> "verify", m |-> "verify_detached_signature", pl |-> <<80>>, aad |-> A1, res |-> Vr]} ELSE {})
          \cup (IF s.mem.ty = "CoseMac0" THEN {[ev |-> "verify", m |-> "verify_tag", aad |-> A1, res |-> Vr]} ELSE {})
          \cup (IF s.mem.ty = "CoseEncrypt0" THEN {[ev |-> "verify", m |-> "decrypt", aad |-> A1, res |-> ROk]} ELSE {})
          \cup (IF s.mem.ty = "CoseKey" THEN {[ev |-> "canonicalize", ord |-> "Lexicographic"]} ELSE {})
        ELSE {})

VARIABLES s, hist
vars == <<s, hist>>
Init == s = InitState /\ hist = <<>>
Next == Len(hist) < MaxDepth /\ \E e \in Enabled(s, Len(hist)) : s' = Step(s, e) /\ hist' = Append(hist, e)
Spec == Init /\ [][Next]_vars

LastEv == hist[Len(hist)]
(* C01 *)
DocPanic(pre, e) ==
  \/ e.ev = "verify" /\ e.m = "verify_detached_signature" /\ pre.mem.val.payload # <<>>
  \/ e.ev = "verify" /\ e.m = "verify_tag" /\ pre.mem.val.payload = <<>>
  \/ e.ev = "verify" /\ e.m = "decrypt" /\ pre.mem.val.cipher = <<>>
  \/ e.ev = "call" /\ e.m = "create_tag" /\ pre.mem.val.payload = <<>>
Pre == Run(InitState, SubSeq(hist, 1, Len(hist) - 1))
InvTotal == hist # <<>> => ((s.out.kind = "panic") <=> DocPanic(Pre, LastEv))
InvDecodeOutcome == hist # <<>> /\ LastEv.ev = "decode" => s.out.kind \in {"ok", "err"}
(* C13 *)
InvOneItem == hist # <<>> /\ LastEv.ev = "decode" /\ s.out.kind = "ok" => LET r == Parse(s.wire[1]) IN r.ok /\ r.n = Len(s.wire[1]) + 1
(* C02: encoding a message that was just decoded writes back the protected slot it received, bit for bit *)
Untag(v) == IF v.t = "tag" THEN v.x ELSE v
InvReencode == Len(hist) >= 2 /\ LastEv.ev = "encode" /\ hist[Len(hist) - 1].ev = "decode" /\ Pre.out.kind = "ok"
                 /\ Pre.mem.ty \in {"CoseSign1", "CoseMac0", "CoseEncrypt0", "CoseSign"}
               => /\ s.out.kind = "ok"
                  /\ Untag(ReadToValue(s.out.bytes[1]).v).a[1] = Untag(ReadToValue(Pre.wire[1]).v).a[1]
(* C07: decode ; encode ; decode (same type and API) returns the same value *)
InvFixed == Len(hist) >= 3 /\ LastEv.ev = "decode" /\ hist[Len(hist) - 1].ev = "encode" /\ hist[Len(hist) - 2].ev = "decode"
              /\ hist[Len(hist) - 2] = LastEv /\ ((LastEv.api = "tagged") <=> (hist[Len(hist) - 1].api = "tagged"))
              /\ Run(InitState, SubSeq(hist, 1, Len(hist) - 2)).out.kind = "ok" /\ Pre.out.kind = "ok"
            => s.out.kind = "ok" /\ s.mem.val = Run(InitState, SubSeq(hist, 1, Len(hist) - 2)).mem.val

Obsd == RunObs(InitState, hist, <<>>)
Emit == hist # <<>> =>
  PrintT(ToJson([kind |-> "session", props |-> <<"C01">>, steps |-> hist, nt |-> Len(hist) >= 3,
                 expect |-> [k \in 1..Len(hist) |-> IF k < Len(hist) THEN [judge |-> FALSE, kind |-> Obsd[k].kind]
                                                    ELSE [kind |-> Obsd[k].kind, err |-> Obsd[k].err, bytes |-> Obsd[k].bytes, cb |-> Obsd[k].cb,
                                                          ret |-> Obsd[k].ret, val |-> Obsd[k].val, judge |-> TRUE, slotfree |-> TRUE, pinerr |-> FALSE]]]))
=============================================================================

---------------------------- MODULE MC_MsgDecode ----------------------------
(***************************************************************************)
(* C09: arrays of arity 0..MaxLen built slot by slot (action Push) from    *)
(* per-position palettes holding every CBOR kind; EACH array is decoded as *)
(* all eight structure types (several share a shape).                      *)
(***************************************************************************)
EXTENDS Palette, Json

CONSTANT MaxLen, Wide

ProtOK    == Bs(<<161, 1, 38>>)          \* {1: -7}
ProtBad   == Bs(<<161, 1, 64>>)          \* {1: h''}  algorithm of the wrong kind
ProtTrail == Bs(<<160, 0>>)              \* empty map + trailing byte
ProtNoMap == Bs(<<1>>)                   \* a bstr holding an integer
ProtDup   == Bs(<<162, 24, 99, 1, 24, 99, 2>>)  \* {99:1, 99:2}
MapOK     == Map(<< <<Nat2I(4), B1>> >>)
MapBad    == Map(<< <<Nat2I(4), Nat2I(1)>> >>)
MapDup    == Map(<< <<Nat2I(99), Nat2I(1)>>, <<Nat2I(99), Nat2I(2)>> >>)

RecipMin    == Arr(<<B0, EmptyMap, Nil>>)
RecipNest   == Arr(<<B0, EmptyMap, B1, Arr(<<RecipMin>>)>>)
RecipNest3  == Arr(<<ProtOK, MapOK, Nil, Arr(<<RecipNest, RecipMin>>)>>)
RecipBad    == Arr(<<B0, EmptyMap, Nat2I(1)>>)
RecipBadIn  == Arr(<<B0, EmptyMap, Nil, Arr(<<RecipMin, RecipBad>>)>>)
RecipBadIn3 == Arr(<<B0, EmptyMap, Nil, Arr(<<RecipBadIn>>)>>)
RecipEmptyL == Arr(<<B0, EmptyMap, Nil, EmptyArr>>)
Recip5      == Arr(<<B0, EmptyMap, Nil, EmptyArr, B0>>)
SigDup      == Arr(<<B0, MapDup, B0>>)
SigProtDup  == Arr(<<ProtDup, EmptyMap, B0>>)

ProtIv == Bs(<<161, 5, 65, 1>>)            \* {5: h'01'}
MapPiv == Map(<< <<Nat2I(6), Bs(<<2>>)>> >>)  \* {6: h'02'}: valid on its own, also next to an IV in the OTHER header
(* IV and Partial IV in the SAME header, in either wire order: ill-formed in every header slot, at every nesting level *)
MapIvPiv  == Map(<< <<Nat2I(5), Bs(<<1>>)>>, <<Nat2I(6), Bs(<<2>>)>> >>)
MapPivIv  == Map(<< <<Nat2I(6), Bs(<<2>>)>>, <<Nat2I(5), Bs(<<1>>)>> >>)
ProtPivIv == Bs(<<162, 6, 65, 2, 5, 65, 1>>)
ProtIvPiv == Bs(<<162, 5, 65, 1, 6, 65, 2>>)
RecipPivIv == Arr(<<B0, MapPivIv, Nil>>)
SigPivIv   == Arr(<<ProtPivIv, EmptyMap, B0>>)
P1 == {B0, ProtOK, ProtIv, ProtBad, ProtTrail, ProtNoMap, Nat2I(1), ProtPivIv} \cup (IF Wide THEN {ProtIvPiv, ProtDup, Nil, EmptyMap, Ta} ELSE {})
P2 == {EmptyMap, MapOK, MapPiv, MapBad, MapDup, Nil, B0, MapPivIv} \cup (IF Wide THEN {EmptyArr, Nat2I(1), Ta, MapIvPiv} ELSE {})
P3 == {B1, B0, Nil, Nat2I(1), Tt, EmptyArr} \cup (IF Wide THEN {EmptyMap, Bool(TRUE), F15} ELSE {})
P4 == {B1, Nil, Nat2I(1), EmptyArr, Arr(<<SigMin>>), Arr(<<SigAlg, SigBadSlot>>), Arr(<<RecipMin>>), Arr(<<RecipNest3>>), Arr(<<RecipBadIn3>>),
       Arr(<<SigPivIv>>), Arr(<<RecipMin, RecipPivIv>>)}
      \cup (IF Wide THEN {Arr(<<SigMin, SigAlg>>), Arr(<<SigDup>>), Arr(<<SigProtDup>>), Arr(<<RecipEmptyL>>), Arr(<<Recip5>>),
                          Arr(<<RecipMin, RecipNest>>), Arr(<<Nat2I(1)>>), EmptyMap, Tt} ELSE {})
P5 == {Arr(<<RecipMin>>), Arr(<<RecipNest>>), Arr(<<RecipBadIn>>), EmptyArr, B1, Nil, Nat2I(1)}
      \cup (IF Wide THEN {Arr(<<RecipNest3, RecipMin>>), Arr(<<RecipEmptyL>>), Arr(<<SigMin>>)} ELSE {})
P67 == {B1, Nat2I(1)}
Pal(i) == CASE i = 1 -> P1 [] i = 2 -> P2 [] i = 3 -> P3 [] i = 4 -> P4 [] i = 5 -> P5 [] OTHER -> P67

VARIABLE a
Init == a = <<>>
Push(x) == Len(a) < MaxLen /\ a' = Append(a, x)
Next == \E x \in Pal(Len(a) + 1) : Push(x)
Spec == Init /\ [][Next]_a

Item == Arr(a)
Tys == <<"CoseSign1", "CoseSign", "CoseSignature", "CoseMac", "CoseMac0", "CoseEncrypt", "CoseEncrypt0", "CoseRecipient">>

InvIff == \A i \in 1..Len(Tys) : Msg_FromCbor(Tys[i], Item).ok <=> Msg_WF(Tys[i], Item)
InvValue == \A i \in 1..Len(Tys) : LET r == Msg_FromCbor(Tys[i], Item) IN r.ok => r.x = Msg_ValueOf(Tys[i], Item)
(* C12 at nesting positions: a duplicate label that is the only fault is reported as such *)
InvNestedDup ==
  /\ Sign_FromCbor(Arr(<<B0, EmptyMap, Nil, Arr(<<SigDup>>)>>)).err = "DuplicateMapKey"
  /\ Sign_FromCbor(Arr(<<B0, EmptyMap, Nil, Arr(<<SigProtDup>>)>>)).err = "DuplicateMapKey"

Expect(ty) ==
  IF Msg_WF(ty, Item) THEN [accept |-> TRUE, val |-> <<Msg_ValueOf(ty, Item)>>, err |-> "", pinerr |-> FALSE,
                            judge |-> ~HasEmptyNested(ty, Item)]
  ELSE [accept |-> FALSE, val |-> <<>>, err |-> Msg_FromCbor(ty, Item).err, diag |-> DiagOf(Msg_FromCbor(ty, Item)), text |-> ErrText(Msg_FromCbor(ty, Item)), pinerr |-> FALSE, judge |-> ~HasEmptyNested(ty, Item)]

Strat2 == LET S == <<"w1", "w2", "w4", "w8", "indef", "indef2">> IN S[(Len(Enc(Item)) % 6) + 1]

Emit == PrintT(ToJson([kind |-> "decode", props |-> <<"C09">>, reg |-> "", item |-> Item,
                       wires |-> <<Enc(Item), EncS(Item, Strat2)>>,
                       multi |-> [i \in 1..Len(Tys) |-> [ty |-> Tys[i], expect |-> Expect(Tys[i])]]]))
=============================================================================

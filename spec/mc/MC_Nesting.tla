------------------------------ MODULE MC_Nesting ------------------------------
(***************************************************************************)
(* C01: nesting recipes.  A recipe is a base item and a sequence of wrap   *)
(* steps over every recursive position of the grammar, each repeated n     *)
(* times.  Unfold gives the recipe a meaning; for small n TLC checks that  *)
(* the bytes the recipe denotes parse back to that item (so the harness'   *)
(* recipe interpreter, which must produce the same bytes, is bound to the  *)
(* specification); for large n the harness materialises the bytes itself   *)
(* and decodes them in a child process on a default-size stack.  The       *)
(* expected outcome of every recipe is "returns".                          *)
(***************************************************************************)
EXTENDS Palette, Json

CONSTANT Reps, MaxSteps, PropId, SmallLimit

(* wrap steps by the kind of item they take and produce: "any" | "sig" | "recip" *)
StepsOf == << <<"arr", "any", "any">>, <<"indef-arr", "any", "any">>, <<"map-val", "any", "any">>, <<"map-key", "any", "any">>,
              <<"indef-map-val", "any", "any">>, <<"tag", "any", "any">>,
              <<"cs-unprot", "sig", "sig">>, <<"cs-unprot-arr", "sig", "sig">>, <<"cs-prot", "sig", "sig">>, <<"cs-prot-arr", "sig", "sig">>,
              <<"recip", "recip", "recip">>, <<"recip-cs", "sig", "recip">>, <<"sig-in-recip-prot", "recip", "sig">> >>
NS == Len(StepsOf)
BstrOf(m) == Hd(2, MagOfNat(Len(m))) \o m
WrapB(step, x) ==     \* bytes -> bytes
  CASE step = "arr" -> <<129>> \o x
    [] step = "indef-arr" -> <<159>> \o x \o <<255>>
    [] step = "map-val" -> <<161, 0>> \o x
    [] step = "map-key" -> <<161>> \o x \o <<0>>
    [] step = "indef-map-val" -> <<191, 0>> \o x \o <<255>>
    [] step = "tag" -> <<193>> \o x
    [] step = "cs-unprot" -> <<131, 64, 161, 7>> \o x \o <<64>>                         \* [h'', {7: x}, h'']
    [] step = "cs-unprot-arr" -> <<131, 64, 161, 7, 129>> \o x \o <<64>>                \* [h'', {7: [x]}, h'']
    [] step = "cs-prot" -> <<131>> \o BstrOf(<<161, 7>> \o x) \o <<160, 64>>            \* [bstr({7: x}), {}, h'']
    [] step = "cs-prot-arr" -> <<131>> \o BstrOf(<<161, 7, 129>> \o x) \o <<160, 64>>
    [] step = "recip" -> <<132, 64, 160, 246, 129>> \o x                                \* [h'', {}, nil, [x]]
    [] step = "recip-cs" -> <<131, 64, 161, 7>> \o x \o <<246>>                         \* recipient whose unprotected header counter-signs: [h'', {7: x}, nil]
    [] step = "sig-in-recip-prot" -> <<131>> \o BstrOf(<<161, 7>> \o <<131, 64, 160, 64>>) \o <<160, 64>>  \* (closes a recipient chain with a signature)
BaseB(kind) == CASE kind = "any" -> <<0>> [] kind = "sig" -> <<131, 64, 160, 64>> [] kind = "recip" -> <<131, 64, 160, 246>>

RECURSIVE RepB(_, _, _)
RepB(step, n, x) == IF n = 0 THEN x ELSE RepB(step, n - 1, WrapB(step, x))

VARIABLE st
Init == st \in {[mode |-> "s", k |-> k] : k \in 1..NS}
Next == st.mode = "s" /\
  \/ \E n \in Reps : st' = [mode |-> "go", steps |-> <<st.k>>, reps |-> <<n>>]
  \/ MaxSteps >= 2 /\ \E k2 \in {k \in 1..NS : StepsOf[k][3] = StepsOf[st.k][2]} : \E n \in Reps : \E n2 \in Reps :
        st' = [mode |-> "go", steps |-> <<k2, st.k>>, reps |-> <<n2, n>>]         \* inner step first
Spec == Init /\ [][Next]_st
Go == st.mode = "go"

InnerKind == StepsOf[st.steps[1]][2]
OuterKind == StepsOf[st.steps[Len(st.steps)]][3]
RECURSIVE Build(_, _)
Build(j, x) == IF j > Len(st.steps) THEN x ELSE Build(j + 1, RepB(StepsOf[st.steps[j]][1], st.reps[j], x))
BytesOfRecipe == Build(1, BaseB(InnerKind))
Small == \A j \in 1..Len(st.reps) : st.reps[j] <= SmallLimit
(* plain CBOR nesting below the parser's limit is accepted as a Value, and a chain of well-formed recipients as a recipient *)
InvDeepAccepted == Go /\ Small /\ Len(st.steps) = 1 =>
  /\ StepsOf[st.steps[1]][1] \in {"arr", "map-val", "tag", "indef-arr"} => FromSlice("Value", "", BytesOfRecipe).ok
  /\ StepsOf[st.steps[1]][1] = "recip" => FromSlice("CoseRecipient", "", BytesOfRecipe).ok
  /\ StepsOf[st.steps[1]][1] \in {"cs-unprot", "cs-prot", "cs-prot-arr"} => FromSlice("CoseSignature", "", BytesOfRecipe).ok
(* the recipe denotes one complete CBOR item (Parse is the specification's reading of it) *)
InvRecipeParses == Go /\ Small => LET r == ReadToValue(BytesOfRecipe) IN r.ok
(* the Design decoders return on it: with either "ok" or "err" -- never anything else *)
EntryTypes == CASE OuterKind = "any" -> <<"Value", "Header", "CoseKey", "CoseKeySet", "ClaimsSet", "CoseSign1", "CoseRecipient", "CoseKdfContext">>
                [] OuterKind = "sig" -> <<"CoseSignature", "Value">>
                [] OuterKind = "recip" -> <<"CoseRecipient", "Value">>
InvReturns == Go /\ Small => \A t \in 1..Len(EntryTypes) : LET r == FromSlice(EntryTypes[t], "", BytesOfRecipe) IN r.ok \/ r.err # ""

(* for recipes the specification can still evaluate: does each entry point accept the item? (nesting below ciborium's 256) *)
Accepts == [t \in 1..Len(EntryTypes) |-> FromSlice(EntryTypes[t], "", BytesOfRecipe).ok]
Emit == Go => PrintT(ToJson([kind |-> "recipe", props |-> <<PropId>>, accept |-> IF Small THEN Accepts ELSE <<>>, base |-> InnerKind, outer |-> OuterKind,
                             steps |-> [j \in 1..Len(st.steps) |-> StepsOf[st.steps[j]][1]], reps |-> st.reps,
                             bytes |-> IF Small THEN <<BytesOfRecipe>> ELSE <<>>,
                             entry |-> EntryTypes,
                             tags |-> IF \E j \in 1..Len(st.steps) : StepsOf[st.steps[j]][1] \in {"cs-prot", "cs-prot-arr"} /\ st.reps[j] > 3
                                      THEN <<"protected-countersignature-recursion">> ELSE <<>>]))
=============================================================================

----------------------------- MODULE MC_OneItem -----------------------------
(***************************************************************************)
(* C13: for accepted inputs (several encodings): every proper prefix is    *)
(* rejected, every non-empty suffix gives ExtraneousData, also for the     *)
(* header map inside a protected bstr; Parse is prefix-free; the byte and  *)
(* Value API layers agree (checked on the crate).                          *)
(***************************************************************************)
EXTENDS AccPalette, Json
SE == INSTANCE SequencesExt

Suffixes == {<<0>>, <<246>>, <<255>>, <<28>>, <<160>>, <<64, 64>>}

VARIABLE st
Init == st \in {[mode |-> "acc", i |-> i] : i \in 1..NAcc}
Next == st.mode = "acc" /\ \E s \in {"min", "w2", "indef", "indef2"} : st' = [mode |-> "go", i |-> st.i, s |-> s]
Spec == Init /\ [][Next]_st
IsGo == st.mode = "go"
Ty == AccItems[st.i][1]
Reg == AccItems[st.i][2]
Wire == EncS(AccItems[st.i][3], st.s)

InvAccepted == IsGo => FromSlice(Ty, Reg, Wire).ok
InvPrefix == IsGo => \A k \in 0..(Len(Wire) - 1) : ~FromSlice(Ty, Reg, SubSeq(Wire, 1, k)).ok
InvSuffix == IsGo => \A s \in Suffixes \cup {Wire} : LET r == FromSlice(Ty, Reg, Wire \o s) IN ~r.ok /\ r.err = "ExtraneousData"
(* lemma: Parse consumes exactly the item and no proper prefix parses *)
InvPrefixFree == IsGo => Parse(Wire).ok /\ Parse(Wire).n = Len(Wire) + 1 /\ \A k \in 0..(Len(Wire) - 1) : ~Parse(SubSeq(Wire, 1, k)).ok
(* the same discipline for the header map inside a protected bstr: [bstr(map || suffix), {}, nil] as COSE_Encrypt0 *)
ProtWith(inner) == <<131>> \o Hd(2, MagOfNat(Len(inner))) \o inner \o <<160, 246>>
InvProtToVec == IsGo /\ Ty = "Header" =>
  LET p == Prot_FromBstr(Bs(Wire)).x IN
  /\ ToVec("ProtectedHeader", p).x = Enc(Header_ToCbor(p.hdr).x)      \* the map form, whatever bytes were received
  /\ Prot_Bstr(p).x.b = Wire                                           \* the bstr form: the received bytes
InvProtInner == IsGo /\ Ty = "Header" =>
  /\ FromSlice("CoseEncrypt0", "", ProtWith(Wire)).ok \/ Wire = <<160>> \/ TRUE
  /\ \A s \in Suffixes : LET r == FromSlice("CoseEncrypt0", "", ProtWith(Wire \o s)) IN ~r.ok /\ r.err = "ExtraneousData"
  /\ \A k \in 1..(Len(Wire) - 1) : ~FromSlice("CoseEncrypt0", "", ProtWith(SubSeq(Wire, 1, k))).ok

Emit == IsGo =>
  /\ PrintT(ToJson([kind |-> "oneitem", props |-> <<"C13">>, ty |-> Ty, reg |-> Reg, wire |-> Wire, nt |-> TRUE,
                    suffixes |-> SE!SetToSeq(Suffixes \cup {Wire})]))
  /\ Ty = "Header" => PrintT(ToJson([kind |-> "oneitem", props |-> <<"C13">>, ty |-> "CoseEncrypt0", reg |-> "", nt |-> TRUE, inner |-> Wire,
                                     suffixes |-> SE!SetToSeq(Suffixes)]))
  (* byte-level encoding = convert, then serialise -- also for a protected header that retains received bytes: *)
  (* to_vec gives the MAP form, cbor_bstr gives the retained bytes                                            *)
  /\ Ty = "Header" => LET steps == <<[ev |-> "inject", bytes |-> Wire], [ev |-> "decode", api |-> "bstr", ty |-> "ProtectedHeader", reg |-> ""],
                                      [ev |-> "encode", api |-> "vec"], [ev |-> "encode", api |-> "bstr"]>>
                           obs == RunObs(InitState, steps, <<>>) IN
                       PrintT(ToJson([kind |-> "session", props |-> <<"C13">>, steps |-> steps, nt |-> TRUE,
                                      expect |-> [k \in 1..Len(obs) |-> [kind |-> obs[k].kind, err |-> obs[k].err, bytes |-> obs[k].bytes, cb |-> obs[k].cb,
                                                                         ret |-> obs[k].ret, val |-> obs[k].val, judge |-> TRUE, slotfree |-> FALSE, pinerr |-> FALSE]]]))
=============================================================================

------------------------------ MODULE MC_Parse ------------------------------
(***************************************************************************)
(* Exhaustive short byte strings.  Every string over the alphabet Alpha up *)
(* to MaxLen bytes, and every string over the smaller alphabet Alpha2 up   *)
(* to MaxLen2 bytes, is                                                    *)
(*   - parsed by the specification's model of ciborium (Cbor!Parse): the   *)
(*     outcome (value, bytes consumed, or the class of failure) is printed *)
(*     and compared with ciborium itself on the implementation side, which *)
(*     binds the parser model in the REJECTING direction too;              *)
(*   - decoded as every public type through the byte-level entry point:    *)
(*     DecodeFailed iff no item parses, ExtraneousData iff an item parses  *)
(*     and bytes remain, otherwise whatever converting the parsed item     *)
(*     gives (C13: byte-level decoding = parse, then convert);             *)
(*   - when it is one complete item: decode;encode;decode;encode through   *)
(*     the Value type reaches its fixed point in one step (C07), except on *)
(*     the syntactic class of finding F7.                                  *)
(* Lemmas about the parser model itself are checked as invariants.         *)
(***************************************************************************)
EXTENDS Cose, Json, TLC
SE == INSTANCE SequencesExt

CONSTANTS MaxLen, MaxLen2

(* one or more representatives of every (major type, additional information) class, plus bytes that matter as DATA: *)
(* UTF-8 lead/continuation bytes, the break, small lengths                                                        *)
Alpha == { 0, 1, 23, 24, 25, 27, 28, 31,            \* uint: immediate, 1/2/8-byte heads, reserved 28, illegal indefinite
           32, 56, 59,                              \* nint
           64, 65, 66, 88, 95,                      \* bstr: empty, 1, 2, 1-byte length, indefinite
           96, 97, 98, 120, 127,                    \* tstr
           128, 129, 130, 152, 159,                 \* array
           160, 161, 184, 191,                      \* map
           192, 194, 195, 216, 219,                 \* tag 0, 2, 3 (bignums), 1-byte, 8-byte tag number
           224, 244, 245, 246, 247, 248, 249, 250, 251, 252, 255 }   \* simple(0), false, true, null, undefined, 2-byte simple, f16/f32/f64, reserved, break
Alpha2 == { 0, 24, 65, 66, 95, 97, 127, 129, 130, 159, 161, 191, 194, 195, 246, 255 }

VARIABLE w
Init == w \in {<<b>> : b \in Alpha} \cup {<<>>}
Next == \/ /\ Len(w) > 0 /\ Len(w) < MaxLen
           /\ \E b \in Alpha : w' = Append(w, b)
        \/ /\ Len(w) >= MaxLen /\ Len(w) < MaxLen2
           /\ \A i \in 1..Len(w) : w[i] \in Alpha2
           /\ \E b \in Alpha2 : w' = Append(w, b)
Spec == Init /\ [][Next]_w

R == Parse(w)
Complete == R.ok /\ R.n = Len(w) + 1

(* ---------- lemmas about the parser model ---------- *)
InvShape == IF R.ok THEN R.n >= 2 /\ R.n <= Len(w) + 1 ELSE R.why \in {"eof", "syntax", "semantic", "depth", "gap"}
(* the item is determined by the bytes it consumes *)
InvLocal == R.ok => LET p == Parse(SubSeq(w, 1, R.n - 1)) IN p.ok /\ p.v = R.v /\ p.n = R.n
(* prefix-freeness, in its strong form: every proper prefix of a complete item fails as END OF INPUT *)
InvPrefixEof == Complete => \A k \in 0..(Len(w) - 1) : LET p == Parse(SubSeq(w, 1, k)) IN ~p.ok /\ p.why = "eof"
(* end-of-input is the only failure that more bytes can cure *)
InvStableFail == ~R.ok /\ R.why \in {"syntax", "semantic"} => \A b \in Alpha2 : LET p == Parse(Append(w, b)) IN ~p.ok /\ p.why = R.why
(* the deterministic encoder inverts the parser on what it produces *)
RECURSIVE NoFloat(_)
NoFloat(v) == CASE v.t = "float" -> FALSE
                [] v.t = "array" -> \A i \in 1..Len(v.a) : NoFloat(v.a[i])
                [] v.t = "map" -> \A i \in 1..Len(v.m) : NoFloat(v.m[i][1]) /\ NoFloat(v.m[i][2])
                [] v.t = "tag" -> NoFloat(v.x)
                [] OTHER -> TRUE
InvEncParse == R.ok /\ NoFloat(R.v) /\ ~HasSmallBignumTag(R.v) => LET p == Parse(Enc(R.v)) IN p.ok /\ p.v = R.v /\ p.n = Len(Enc(R.v)) + 1
InvEncShorter == Complete /\ NoFloat(R.v) /\ ~HasSmallBignumTag(R.v) => Len(Enc(R.v)) <= Len(w) + 0
(* ReadToValue is Parse plus the emptiness test *)
InvRead == LET r == ReadToValue(w) IN
           /\ r.ok <=> Complete
           /\ ~r.ok /\ ~r.gap => (r.err = "ExtraneousData" <=> R.ok)

(* ---------- vectors ---------- *)
Tys == << <<"Value", "">>, <<"Header", "">>, <<"ProtectedHeader", "">>, <<"CoseKey", "">>, <<"CoseKeySet", "">>, <<"ClaimsSet", "">>,
          <<"PartyInfo", "">>, <<"SuppPubInfo", "">>, <<"CoseKdfContext", "">>, <<"Label", "">>, <<"Timestamp", "">>,
          <<"RegisteredLabel", "HeaderParameter">>, <<"RegisteredLabelWithPrivate", "Algorithm">>,
          <<"CoseSign1", "">>, <<"CoseSign", "">>, <<"CoseSignature", "">>, <<"CoseMac", "">>, <<"CoseMac0", "">>,
          <<"CoseEncrypt", "">>, <<"CoseEncrypt0", "">>, <<"CoseRecipient", "">> >>

Expect(ty, reg) ==
  LET r == FromSlice(ty, reg, w) IN
  IF r.ok THEN [accept |-> TRUE, val |-> <<r.x>>, err |-> "", pinerr |-> FALSE, errprop |-> "C13", judge |-> TRUE]
  ELSE [accept |-> FALSE, val |-> <<>>, err |-> r.err, diag |-> DiagOf(r), text |-> ErrText(r), pinerr |-> (r.err \in {"ExtraneousData", "DecodeFailed"}), errprop |-> "C13",
        judge |-> (r.err # "GAP")]      \* f16/f32 outside the widening tables: the model leaves the outcome open

Emit ==
  /\ PrintT(ToJson([kind |-> "parse", props |-> <<"C13", "C01", "C07">>, wire |-> w, ok |-> R.ok,
                    gap |-> (~R.ok /\ R.gap), why |-> (IF R.ok THEN "" ELSE R.why),
                    consumed |-> (IF R.ok THEN R.n - 1 ELSE 0), item |-> (IF R.ok THEN <<R.v>> ELSE <<>>),
                    nt |-> Complete]))
  /\ PrintT(ToJson([kind |-> "decode", props |-> <<"C13", "C01">>, novalue |-> TRUE, wires |-> <<w>>, nt |-> Complete,
                    multi |-> [i \in 1..Len(Tys) |-> [ty |-> Tys[i][1], reg |-> Tys[i][2], expect |-> Expect(Tys[i][1], Tys[i][2])]]]))
  /\ Complete => PrintT(ToJson([kind |-> "fixpoint", props |-> <<"C07">>, ty |-> "Value", reg |-> "", tagged |-> FALSE, wires |-> <<w>>,
                                tags |-> (IF HasSmallBignumTag(R.v) THEN <<"tag23-on-indefinite-small-bstr">> ELSE <<>>), nt |-> TRUE]))
=============================================================================

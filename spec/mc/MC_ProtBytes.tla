---------------------------- MODULE MC_ProtBytes ----------------------------
(***************************************************************************)
(* C02: header contents x encodings of that content x carrying structures  *)
(* and nesting positions.  For each: the wire is decoded, the retained     *)
(* bytes are observed at the position, the value is re-encoded, and the    *)
(* to-be-signed / MACed / AAD structures are produced -- every one of them *)
(* must carry the received slot bit for bit.                               *)
(***************************************************************************)
EXTENDS Palette, Json

K11 == Bs(<<49, 49>>)
Contents == << EmptyMap,
               Map(<< <<Nat2I(1), Neg2I(7)>> >>),
               Map(<< <<Nat2I(4), K11>> >>),
               Map(<< <<Nat2I(1), Neg2I(7)>>, <<Nat2I(4), K11>> >>),
               Map(<< <<Nat2I(4), K11>>, <<Nat2I(1), Neg2I(7)>> >>),        \* unsorted keys
               Map(<< <<Z2I(99), Tx(<<120>>)>> >>),                           \* unknown parameter
               Map(<< <<Nat2I(7), SigAlg>> >>),                              \* nested counter-signature
               Map(<< <<Neg2I(65537), U64max>>, <<Ta, F15>> >>),
               Map(<< <<Z2I(99), Flt(<<127,248,0,0,0,0,0,0>>)>> >>) >>        \* an extra holding NaN (equality on the parsed view is not reflexive)
NC == Len(Contents)
Strats == <<"min", "w1", "w2", "w4", "w8", "indef", "indef2", "zero", "bigkey", "nan32", "nan64">>
(* byte string placed in the protected slot *)
SlotBytes(c, s) ==
  CASE s = "zero" -> <<>>                                                       \* zero-length form (only for the empty map)
    [] s = "bigkey" -> <<161>> \o EncBignum(Contents[c].m[1][1], 1) \o Enc(Contents[c].m[1][2])   \* first key in bignum form
    [] s = "nan32" -> <<161, 24, 99, 250, 127, 192, 0, 0>>                         \* {99: NaN} with the float written as f32
    [] s = "nan64" -> <<161, 24, 99, 251, 127, 248, 0, 0, 0, 0, 0, 0>>              \* ... as f64
    [] OTHER -> EncS(Contents[c], s)
Valid(c, s) == (s = "zero" => c = 1) /\ (s = "bigkey" => (c \in {2, 3, 6} /\ ~Contents[c].m[1][1].neg)) /\ (s \in {"nan32", "nan64"} => c = 9)

Positions == {"sign1-detached", "sign-body-detached", "sign-signer1-detached", "sign1", "mac0", "encrypt0", "signature", "sign-body", "sign-signer0", "sign-signer2", "mac-body", "encrypt-body", "recipient",
              "encrypt-recip1", "mac-recip2", "encrypt-recip3", "cs-unprot", "cs-in-prot", "supppub", "kdf"}
BstrOf(m) == Hd(2, MagOfNat(Len(m))) \o m
SigW(p) == <<131>> \o p \o <<160, 65, 7>>                                        \* [p, {}, h'07']
RecW(p, rest) == (IF rest = <<>> THEN <<131>> ELSE <<132>>) \o p \o <<160, 65, 9>> \o rest      \* [p, {}, h'09', ?rest]
PartyNilB == <<131, 246, 246, 246>>
Wrap(pos, sl) ==
  LET p == BstrOf(sl) IN
  CASE pos = "sign1" -> <<132>> \o p \o <<160, 65, 5, 65, 7>>                     \* [p, {}, h'05', h'07']
    [] pos = "sign1-detached" -> <<132>> \o p \o <<160, 246, 65, 7>>                \* [p, {}, nil, h'07']
    [] pos = "sign-body-detached" -> <<132>> \o p \o <<160, 246, 130>> \o SigW(<<64>>) \o SigW(<<67, 161, 1, 38>>)    \* nil payload, two signers
    [] pos = "sign-signer1-detached" -> <<132, 67, 161, 1, 38, 160, 246, 130>> \o SigW(<<64>>) \o SigW(p)
    [] pos = "mac0" -> <<132>> \o p \o <<160, 65, 5, 65, 7>>
    [] pos = "encrypt0" -> <<131>> \o p \o <<160, 65, 9>>
    [] pos = "signature" -> SigW(p)
    [] pos = "sign-body" -> <<132>> \o p \o <<160, 65, 5, 129>> \o SigW(<<64>>)
    [] pos = "sign-signer0" -> <<132, 64, 160, 65, 5, 129>> \o SigW(p)
    [] pos = "sign-signer2" -> <<132, 65, 160, 160, 65, 5, 131>> \o SigW(<<64>>) \o SigW(<<65, 160>>) \o SigW(p)   \* body protected = h'a0'
    [] pos = "mac-body" -> <<133>> \o p \o <<160, 65, 5, 65, 7, 129>> \o RecW(<<64>>, <<>>)
    [] pos = "encrypt-body" -> <<132>> \o p \o <<160, 65, 9, 129>> \o RecW(<<64>>, <<>>)
    [] pos = "recipient" -> RecW(p, <<>>)
    [] pos = "encrypt-recip1" -> <<132, 64, 160, 65, 9, 129>> \o RecW(p, <<>>)
    [] pos = "mac-recip2" -> <<133, 64, 160, 65, 5, 65, 7, 129>> \o RecW(<<64>>, <<129>> \o RecW(p, <<>>))
    [] pos = "encrypt-recip3" -> <<132, 64, 160, 65, 9, 129>> \o RecW(<<64>>, <<129>> \o RecW(<<64>>, <<129>> \o RecW(p, <<>>)))
    [] pos = "cs-unprot" -> <<132, 64, 161, 7>> \o SigW(p) \o <<65, 5, 65, 7>>
    [] pos = "cs-in-prot" -> <<132>> \o BstrOf(<<161, 7>> \o SigW(p)) \o <<160, 65, 5, 65, 7>>
    [] pos = "supppub" -> <<130, 24, 128>> \o p
    [] pos = "kdf" -> <<132, 1>> \o PartyNilB \o PartyNilB \o <<130, 24, 128>> \o p
TyOf(pos) ==
  CASE pos \in {"sign1", "sign1-detached", "cs-unprot", "cs-in-prot"} -> "CoseSign1" [] pos = "mac0" -> "CoseMac0" [] pos = "encrypt0" -> "CoseEncrypt0"
    [] pos = "signature" -> "CoseSignature" [] pos \in {"sign-body", "sign-signer0", "sign-signer2", "sign-body-detached", "sign-signer1-detached"} -> "CoseSign"
    [] pos \in {"mac-body", "mac-recip2"} -> "CoseMac" [] pos \in {"encrypt-body", "encrypt-recip1", "encrypt-recip3"} -> "CoseEncrypt"
    [] pos = "recipient" -> "CoseRecipient" [] pos = "supppub" -> "SuppPubInfo" [] pos = "kdf" -> "CoseKdfContext"

Aad == <<170, 187>>
Vr == [ok |-> TRUE, bytes |-> <<>>]
Dr == [ok |-> TRUE, bytes |-> <<1, 2, 3>>]
Fc(f, i) == [ev |-> "focus", f |-> f, i |-> i]
DecR(ctx) == [ev |-> "verify", m |-> "decrypt", ctx |-> ctx, aad |-> Aad, res |-> Dr]
(* follow-ups after the decode: what is done with the value at / around the position *)
Follow(pos) ==
  CASE pos = "sign1-detached" -> <<[ev |-> "tbs", m |-> "tbs_detached_data", pl |-> <<5, 5>>, aad |-> Aad],
                                  [ev |-> "verify", m |-> "verify_detached_signature", pl |-> <<5, 5>>, aad |-> Aad, res |-> Vr]>>
    [] pos \in {"sign-body-detached", "sign-signer1-detached"} ->
         <<[ev |-> "tbs", m |-> "tbs_detached_data", pl |-> <<5, 5>>, aad |-> Aad, which |-> 1],
           [ev |-> "verify", m |-> "verify_detached_signature", pl |-> <<5, 5>>, aad |-> Aad, which |-> 1, res |-> Vr],
           [ev |-> "verify", m |-> "verify_detached_signature", pl |-> <<5, 5>>, aad |-> Aad, which |-> 0, res |-> Vr]>>
    [] pos = "sign1" -> <<[ev |-> "tbs", m |-> "tbs_data", aad |-> Aad], [ev |-> "verify", m |-> "verify_signature", aad |-> Aad, res |-> Vr]>>
    [] pos = "mac0" -> <<[ev |-> "verify", m |-> "verify_tag", aad |-> Aad, res |-> Vr]>>
    [] pos = "encrypt0" -> <<[ev |-> "verify", m |-> "decrypt", aad |-> Aad, res |-> Dr]>>
    [] pos = "signature" -> <<>>
    [] pos = "sign-body" -> <<[ev |-> "tbs", m |-> "tbs_data", aad |-> Aad, which |-> 0], [ev |-> "verify", m |-> "verify_signature", aad |-> Aad, which |-> 0, res |-> Vr]>>
    [] pos = "sign-signer0" -> <<[ev |-> "tbs", m |-> "tbs_data", aad |-> Aad, which |-> 0], [ev |-> "verify", m |-> "verify_signature", aad |-> Aad, which |-> 0, res |-> Vr]>>
    [] pos = "sign-signer2" -> <<[ev |-> "verify", m |-> "verify_signature", aad |-> Aad, which |-> 2, res |-> Vr],
                                 [ev |-> "verify", m |-> "verify_signature", aad |-> Aad, which |-> 1, res |-> Vr]>>
    [] pos = "mac-body" -> <<[ev |-> "verify", m |-> "verify_tag", aad |-> Aad, res |-> Vr]>>
    [] pos = "encrypt-body" -> <<[ev |-> "verify", m |-> "decrypt", aad |-> Aad, res |-> Dr]>>
    [] pos = "recipient" -> <<DecR("EncRecipient"), DecR("RecRecipient")>>
    [] pos = "encrypt-recip1" -> <<Fc("recip", 0), DecR("EncRecipient")>>
    [] pos = "mac-recip2" -> <<Fc("recip", 0), Fc("recip", 0), DecR("MacRecipient")>>
    [] pos = "encrypt-recip3" -> <<Fc("recip", 0), Fc("recip", 0), Fc("recip", 0), DecR("RecRecipient")>>
    [] pos = "cs-unprot" -> <<Fc("cs-unprot", 0), [ev |-> "encode", api |-> "vec"]>>
    [] pos = "cs-in-prot" -> <<[ev |-> "tbs", m |-> "tbs_data", aad |-> Aad], Fc("cs-prot", 0), [ev |-> "encode", api |-> "vec"]>>
    [] pos = "supppub" -> <<Fc("prot", 0), [ev |-> "encode", api |-> "bstr"]>>
    [] pos = "kdf" -> <<>>

VARIABLE st
Init == st \in {[mode |-> "pos", pos |-> p] : p \in Positions}
Next == st.mode = "pos" /\ \E c \in 1..NC : \E s \in 1..Len(Strats) : Valid(c, Strats[s]) /\ st' = [mode |-> "go", pos |-> st.pos, c |-> c, s |-> Strats[s]]
Spec == Init /\ [][Next]_st
Go == st.mode = "go"

Slot == SlotBytes(st.c, st.s)
Wire == Wrap(st.pos, Slot)
Ty == TyOf(st.pos)
Steps == <<[ev |-> "inject", bytes |-> Wire], [ev |-> "decode", api |-> "slice", ty |-> Ty, reg |-> ""], [ev |-> "encode", api |-> "vec"]>> \o Follow(st.pos)
(* counter-signature structure through the free function, with the decoded headers as literal arguments *)
Decoded == Step(Step(InitState, Steps[1]), Steps[2])
CsSteps == IF st.pos = "cs-unprot" /\ Decoded.mem.k = "value"
           THEN <<[ev |-> "struct", fn |-> "sig", ctx |-> "CounterSignature", body |-> Decoded.mem.val.prot,
                   signp |-> <<Decoded.mem.val.unprot.cs[1].prot>>, aad |-> Aad, pl |-> <<5>>]>>
           ELSE <<>>
AllSteps == Steps \o CsSteps

(* where the retained bytes must sit in the decoded value *)
OrigAt(v) ==
  CASE st.pos \in {"sign1", "sign1-detached", "sign-body-detached", "mac0", "encrypt0", "signature", "sign-body", "mac-body", "encrypt-body", "recipient", "supppub"} -> v.prot.orig
    [] st.pos = "sign-signer1-detached" -> v.sigs[2].prot.orig
    [] st.pos = "sign-signer0" -> v.sigs[1].prot.orig
    [] st.pos = "sign-signer2" -> v.sigs[3].prot.orig
    [] st.pos = "encrypt-recip1" -> v.recips[1].prot.orig
    [] st.pos = "mac-recip2" -> v.recips[1].recips[1].prot.orig
    [] st.pos = "encrypt-recip3" -> v.recips[1].recips[1].recips[1].prot.orig
    [] st.pos = "cs-unprot" -> v.unprot.cs[1].prot.orig
    [] st.pos = "cs-in-prot" -> v.prot.hdr.cs[1].prot.orig
    [] st.pos = "kdf" -> v.pub.prot.orig
HdrAt(v) ==
  CASE st.pos \in {"sign1", "sign1-detached", "sign-body-detached", "mac0", "encrypt0", "signature", "sign-body", "mac-body", "encrypt-body", "recipient", "supppub"} -> v.prot.hdr
    [] st.pos = "sign-signer1-detached" -> v.sigs[2].prot.hdr
    [] st.pos = "sign-signer0" -> v.sigs[1].prot.hdr
    [] st.pos = "sign-signer2" -> v.sigs[3].prot.hdr
    [] st.pos = "encrypt-recip1" -> v.recips[1].prot.hdr
    [] st.pos = "mac-recip2" -> v.recips[1].recips[1].prot.hdr
    [] st.pos = "encrypt-recip3" -> v.recips[1].recips[1].recips[1].prot.hdr
    [] st.pos = "cs-unprot" -> v.unprot.cs[1].prot.hdr
    [] st.pos = "cs-in-prot" -> v.prot.hdr.cs[1].prot.hdr
    [] st.pos = "kdf" -> v.pub.prot.hdr

RECURSIVE Contains(_, _)
Contains(hay, needle) ==   \* needle occurs as a contiguous sub-sequence of hay
  IF Len(hay) < Len(needle) THEN FALSE
  ELSE SubSeq(hay, 1, Len(needle)) = needle \/ Contains(Tail(hay), needle)

InvProt == Go =>
  LET obs == RunObs(InitState, AllSteps, <<>>) v == Decoded.mem.val IN
  /\ Decoded.mem.k = "value"                                           \* every encoding of the content is accepted
  /\ OrigAt(v) = <<Slot>>                                              \* retained exactly as received
  /\ HdrAt(v) = Header_ValueOf(Contents[st.c])                         \* parsed view independent of the encoding
  /\ obs[3].bytes = <<Wire>>                                           \* re-encoding writes the received bytes
  /\ \A i \in 4..Len(obs) :                                            \* structures carry the received slot
       LET sb == IF obs[i].bytes # <<>> THEN obs[i].bytes[1] ELSE IF obs[i].cb # <<>> THEN Last(obs[i].cb) ELSE <<>> IN
       (sb # <<>> /\ AllSteps[i].ev # "encode") => Contains(sb, BstrOf(Slot)) \/ st.pos \in {"sign-signer2", "sign-signer1-detached"}
  /\ PrintT(ToJson([kind |-> "session", props |-> <<"C02">>, steps |-> AllSteps, nt |-> TRUE,
                    expect |-> [i \in 1..Len(obs) |-> [kind |-> obs[i].kind, err |-> obs[i].err, bytes |-> obs[i].bytes, cb |-> obs[i].cb,
                                                      ret |-> obs[i].ret, val |-> obs[i].val, judge |-> TRUE, slotfree |-> FALSE, pinerr |-> FALSE,
                                                      (* of a structure C02 owns the protected slots; its other slots are C03-C05's *)
                                                      protonly |-> (AllSteps[i].ev \in {"tbs", "verify", "struct"})]]]))
=============================================================================

---------------------------- MODULE MC_RoundTrip ----------------------------
(***************************************************************************)
(* C06: lifecycle behaviours                                               *)
(*   new -> call* (setters, create/try_create/add_created with an          *)
(*   environment-chosen closure result) -> build -> to_vec | to_tagged_vec *)
(*   -> from_slice | from_tagged_slice -> verify / decrypt with equal or   *)
(*   perturbed AAD / detached payload / signer index.                      *)
(* TLC checks the relational property on the Design; every complete        *)
(* behaviour is replayed end to end on the crate with recording closures.  *)
(***************************************************************************)
EXTENDS Palette, Json

CONSTANT MaxCalls

H1 == [EmptyHeader EXCEPT !.alg = <<Assigned("Algorithm", "ES256")>>]
H2 == [EmptyHeader EXCEPT !.alg = <<Assigned("Algorithm", "ES256")>>, !.kid = <<49>>,
                          !.ct = <<TextL(<<65, 47, 98, 59, 32, 81, 61, 90>>)>>]          \* content type "A/b; Q=Z" (upper case, interior space)
U1 == [EmptyHeader EXCEPT !.kid = <<50>>]
A1 == <<161>>
A2 == <<162, 162>>
P1 == <<80>>
P2 == <<80, 81>>
SigE == [prot |-> EmptyProt, unprot |-> EmptyHeader, sig |-> <<>>]
SigP == [prot |-> [orig |-> <<>>, hdr |-> H2], unprot |-> U1, sig |-> <<>>]
ROk(b) == [ok |-> TRUE, bytes |-> b]
RErr == [ok |-> FALSE, bytes |-> <<>>]
Types == {"CoseSign1", "CoseSign", "CoseMac", "CoseMac0", "CoseEncrypt", "CoseEncrypt0", "CoseRecipient"}

HXr == [EmptyHeader EXCEPT !.rest = << <<Z2I(99), Nat2I(1)>> >>]          \* extras only: differs from the empty header only outside the typed fields
HA0 == [EmptyHeader EXCEPT !.alg = <<Assigned("Algorithm", "Reserved")>>]   \* {1: 0}: differs from the empty header by a field holding the registry's value 0
Common == {[ev |-> "call", m |-> "protected", hdr |-> h] : h \in {H1, H2, EmptyHeader, HXr, HA0}} \cup {[ev |-> "call", m |-> "unprotected", hdr |-> U1]}
(* a nested layer of recipients: what is created for / decrypted from the OUTER layer must not depend on it (round 6) *)
RcpIn == [prot |-> EmptyProt, unprot |-> EmptyHeader, cipher |-> <<<<9>>>>, recips |-> <<>>]
AddRcp(ty) == IF ty \in {"CoseMac", "CoseEncrypt", "CoseRecipient"} THEN {[ev |-> "call", m |-> "add_recipient", rcp |-> RcpIn]} ELSE {}
Calls(ty) ==
  Common \cup AddRcp(ty) \cup
  CASE ty = "CoseSign1" ->
         {[ev |-> "call", m |-> "payload", bytes |-> p] : p \in {P1, P2}} \cup {[ev |-> "call", m |-> "signature", bytes |-> <<9>>]}
         \cup {[ev |-> "call", m |-> "create_signature", aad |-> a, res |-> ROk(<<1, 1>>)] : a \in {A1, A2}}
         \cup {[ev |-> "call", m |-> "create_detached_signature", pl |-> P1, aad |-> A1, res |-> ROk(<<2, 2>>)]}
         \cup {[ev |-> "call", m |-> "try_create_signature", aad |-> A1, res |-> r] : r \in {ROk(<<3>>), RErr}}
         \cup {[ev |-> "call", m |-> "try_create_detached_signature", pl |-> P2, aad |-> A2, res |-> ROk(<<4>>)]}
    [] ty = "CoseSign" ->
         {[ev |-> "call", m |-> "payload", bytes |-> p] : p \in {P1, P2}} \cup {[ev |-> "call", m |-> "add_signature", sigv |-> [SigP EXCEPT !.sig = <<9>>]]}
         \cup {[ev |-> "call", m |-> "add_created_signature", sigv |-> s, aad |-> A1, res |-> ROk(<<1, 1>>)] : s \in {SigE, SigP}}
         \cup {[ev |-> "call", m |-> "add_detached_signature", sigv |-> SigP, pl |-> P1, aad |-> A2, res |-> ROk(<<2, 2>>)]}
         \cup {[ev |-> "call", m |-> "try_add_created_signature", sigv |-> SigE, aad |-> A2, res |-> r] : r \in {ROk(<<3>>), RErr}}
         \cup {[ev |-> "call", m |-> "try_add_detached_signature", sigv |-> SigE, pl |-> P2, aad |-> A1, res |-> ROk(<<4>>)]}
    [] ty \in {"CoseMac", "CoseMac0"} ->
         {[ev |-> "call", m |-> "payload", bytes |-> p] : p \in {P1, P2}} \cup {[ev |-> "call", m |-> "tag", bytes |-> <<9>>]}
         \cup {[ev |-> "call", m |-> "create_tag", aad |-> a, res |-> ROk(<<1, 1>>)] : a \in {A1, A2}}
         \cup {[ev |-> "call", m |-> "try_create_tag", aad |-> A1, res |-> r] : r \in {ROk(<<3>>), RErr}}
    [] ty \in {"CoseEncrypt", "CoseEncrypt0"} ->
         {[ev |-> "call", m |-> "ciphertext", bytes |-> <<9>>]}
         \cup {[ev |-> "call", m |-> "create_ciphertext", pt |-> P1, aad |-> a, res |-> ROk(<<1, 1>>)] : a \in {A1, A2}}
         \cup {[ev |-> "call", m |-> "try_create_ciphertext", pt |-> P2, aad |-> A1, res |-> r] : r \in {ROk(<<3>>), RErr}}
    [] ty = "CoseRecipient" ->
         {[ev |-> "call", m |-> "ciphertext", bytes |-> <<9>>]}
         \cup {[ev |-> "call", m |-> "create_ciphertext", ctx |-> c, pt |-> P1, aad |-> A1, res |-> ROk(<<1, 1>>)] : c \in {"EncRecipient", "MacRecipient"}}
         \cup {[ev |-> "call", m |-> "try_create_ciphertext", ctx |-> "RecRecipient", pt |-> P2, aad |-> A2, res |-> r] : r \in {ROk(<<3>>), RErr}}

Vr(ok) == [ok |-> ok, bytes |-> <<6, 6>>]
Verifies(ty, v) ==     \* the verification calls available on the decoded value v
  CASE ty = "CoseSign1" ->
         IF v.payload # <<>> THEN {[ev |-> "verify", m |-> "verify_signature", aad |-> a, res |-> Vr(o)] : a \in {A1, A2}, o \in BOOLEAN}
         ELSE {[ev |-> "verify", m |-> "verify_detached_signature", pl |-> p, aad |-> a, res |-> Vr(TRUE)] : p \in {P1, P2}, a \in {A1, A2}}
              \cup {[ev |-> "verify", m |-> "verify_signature", aad |-> A1, res |-> Vr(TRUE)]}
    [] ty = "CoseSign" ->
         IF v.payload # <<>> THEN {[ev |-> "verify", m |-> "verify_signature", which |-> w, aad |-> a, res |-> Vr(TRUE)] : w \in 0..Len(v.sigs), a \in {A1, A2}}
         ELSE {[ev |-> "verify", m |-> "verify_detached_signature", which |-> w, pl |-> p, aad |-> a, res |-> Vr(FALSE)] : w \in 0..(Len(v.sigs) - 1), p \in {P1, P2}, a \in {A1, A2}}
    [] ty \in {"CoseMac", "CoseMac0"} -> {[ev |-> "verify", m |-> "verify_tag", aad |-> a, res |-> Vr(o)] : a \in {A1, A2}, o \in BOOLEAN}
    [] ty \in {"CoseEncrypt", "CoseEncrypt0"} -> {[ev |-> "verify", m |-> "decrypt", aad |-> a, res |-> Vr(o)] : a \in {A1, A2}, o \in BOOLEAN}
    [] ty = "CoseRecipient" -> {[ev |-> "verify", m |-> "decrypt", ctx |-> c, aad |-> a, res |-> Vr(TRUE)] : c \in {"EncRecipient", "MacRecipient", "RecRecipient", "CoseEncrypt"}, a \in {A1, A2}}

VARIABLES ty, hist, phase
vars == <<ty, hist, phase>>
Init == ty \in Types /\ hist = <<[ev |-> "new", ty |-> ty]>> /\ phase = "b"
Cur == Run(InitState, hist)
NCalls == Len(hist) - 1
Next ==
  /\ UNCHANGED ty
  /\ \/ phase = "b" /\ Cur.mem.k = "builder" /\ NCalls < MaxCalls /\ \E e \in Calls(ty) : hist' = Append(hist, e) /\ phase' = "b"
     \/ phase = "b" /\ Cur.mem.k = "builder" /\ NCalls >= 1 /\ hist' = Append(hist, [ev |-> "build"]) /\ phase' = "e"
     \/ phase = "e" /\ \E api \in (IF ty \in TaggedTypes THEN {"vec", "tagged"} ELSE {"vec"}) :
          hist' = hist \o <<[ev |-> "encode", api |-> api], [ev |-> "decode", api |-> IF api = "vec" THEN "slice" ELSE "tagged", ty |-> ty, reg |-> ""]>>
          /\ phase' = "v"
     \/ phase = "v" /\ Cur.mem.k = "value" /\ \E e \in Verifies(ty, Cur.mem.val) : hist' = Append(hist, e) /\ phase' = "done"
Spec == Init /\ [][Next]_vars

Complete == phase = "done" \/ (phase = "b" /\ Cur.mem.k # "builder")
Observed == RunObs(InitState, hist, <<>>)

(* ---- the relational property on the Design ---- *)
IsCreate(e) == e.ev = "call" /\ e.m \in {"create_signature", "create_detached_signature", "try_create_signature", "try_create_detached_signature",
                                         "add_created_signature", "add_detached_signature", "try_add_created_signature", "try_add_detached_signature",
                                         "create_tag", "try_create_tag", "create_ciphertext", "try_create_ciphertext"}
CreateIdx == {i \in 1..Len(hist) : IsCreate(hist[i]) /\ Observed[i].kind = "ok"}
(* round trip: the decoded message equals the built one with the protected bytes assigned *)
BuiltIdx == CHOOSE i \in 1..Len(hist) : hist[i].ev = "build"
InvWireFaithful == phase \in {"v", "done"} =>
  LET b == Observed[BuiltIdx].val[1] d == Observed[BuiltIdx + 2] IN
  /\ d.kind = "ok"
  /\ LET v == d.val[1] IN
     /\ v.prot.hdr = b.prot.hdr /\ v.unprot = b.unprot /\ v.prot.orig = <<Prot_Bstr(b.prot).x.b>>
     /\ ty \in {"CoseSign1", "CoseSign", "CoseMac", "CoseMac0"} => v.payload = b.payload
     /\ ty \in {"CoseEncrypt", "CoseEncrypt0", "CoseRecipient"} => v.cipher = b.cipher
(* the helper hands over the stored signature/tag/ciphertext and returns the closure's result unchanged *)
InvVerify == phase = "done" =>
  LET o == Last(Observed) e == Last(hist) v == Observed[Len(hist) - 1].val[1] IN
  o.kind = "ok" =>
    /\ o.ret = <<e.res>>
    /\ o.cb[1] = CASE ty = "CoseSign1" -> v.sig [] ty = "CoseSign" -> v.sigs[e.which + 1].sig
                   [] ty \in {"CoseMac", "CoseMac0"} -> v.tag [] OTHER -> v.cipher[1]
(* what is verified is what was created: same bytes iff nothing the structure depends on changed since the create call *)
SigIndexOf(i) == Cardinality({j \in 1..i : hist[j].ev = "call" /\ hist[j].m \in {"add_signature", "add_created_signature", "add_detached_signature",
                                                                                "try_add_created_signature", "try_add_detached_signature"}
                                            /\ Observed[j].kind = "ok"}) - 1
StateAt(i) == Run(InitState, SubSeq(hist, 1, i)).mem.val
InvSameBytes == phase = "done" /\ Last(Observed).kind = "ok" =>
  \A i \in CreateIdx :
    LET c == hist[i] e == Last(hist) atc == StateAt(i) fin == Observed[BuiltIdx].val[1]
        created == Last(Observed[i].cb) verified == Last(Last(Observed).cb)
        relevant == ty # "CoseSign" \/ e.which = SigIndexOf(i)
        ctxSame == ty # "CoseRecipient" \/ c.ctx = e.ctx
        detachedC == c.m \in {"create_detached_signature", "try_create_detached_signature", "add_detached_signature", "try_add_detached_signature"}
        plC == IF detachedC THEN <<c.pl>> ELSE IF ty \in {"CoseEncrypt", "CoseEncrypt0", "CoseRecipient"} THEN <<>> ELSE atc.payload
        plV == IF e.m \in {"verify_detached_signature"} THEN <<e.pl>> ELSE IF ty \in {"CoseEncrypt", "CoseEncrypt0", "CoseRecipient"} THEN <<>> ELSE fin.payload
        norm(p) == IF p = <<>> THEN <<>> ELSE p[1]
    IN relevant /\ ctxSame =>
         ((created = verified) <=> (Prot_Bstr(atc.prot).x.b = Prot_Bstr(fin.prot).x.b /\ c.aad = e.aad /\ norm(plC) = norm(plV)))
(* a failing creator in a fallible variant yields its error and no message *)
InvTryErr == \A i \in 1..Len(hist) : (IsCreate(hist[i]) /\ ~hist[i].res.ok) => (Observed[i].kind \in {"err", "panic"} /\ Observed[i].val = <<>>)

Emit == Complete =>
  PrintT(ToJson([kind |-> "session", props |-> <<"C06">>, ty |-> ty, steps |-> hist, nt |-> CreateIdx # {}, relcb |-> TRUE,
                 expect |-> [i \in 1..Len(Observed) |-> [kind |-> Observed[i].kind, err |-> Observed[i].err, bytes |-> Observed[i].bytes, cb |-> Observed[i].cb, ret |-> Observed[i].ret,
                                                   val |-> Observed[i].val, judge |-> TRUE, slotfree |-> TRUE, pinerr |-> FALSE]]]))
=============================================================================

------------------------------ MODULE MC_Scale ------------------------------
(***************************************************************************)
(* Quantity.  The other instances enumerate SMALL structures exhaustively; *)
(* this one takes each repeatable part of the grammar to sizes where an    *)
(* implementation could plausibly change behaviour (a fixed-size buffer,   *)
(* a bitmask of seen labels, a capacity computation, a sort or dedup that  *)
(* switches algorithm, a head that grows from 1 to 2 or 3 bytes):          *)
(*   Sizes, e.g. {4, 9, 12, 17, 24, 25, 33, 65, 257}.                      *)
(* Family (CONSTANT Fam):                                                  *)
(*   "dup"    C12  a map of n distinct labels in which entry j repeats the *)
(*                 label of entry i, for pairs (i, j) around the ends and  *)
(*                 around 8/9 and 16/17; header (bare, protected,          *)
(*                 unprotected, in a recipient), key (bare, second key of  *)
(*                 a set), claims set                                      *)
(*   "header" C08  n extra parameters before / after a typed field, crit   *)
(*                 with n labels, n counter-signatures                     *)
(*   "msg"    C09  n signers, n recipients, recipient chains of depth n    *)
(*   "key"    C10  n key parameters, n key operations, n keys in a set     *)
(*   "cwtkdf" C18  n extra claims, n SuppPrivInfo slots                    *)
(*   "canon"  C20  n key parameters in descending order, both orderings    *)
(* Every well-formed item is also encoded from its in-memory value (C11:   *)
(* a `session` lit ; encode with the bytes the specification computes) and *)
(* run through the fixed point (C07).                                      *)
(***************************************************************************)
EXTENDS Palette, Json, TLC

CONSTANTS Fam, Sizes

Lbl(k) == Nat2I(99 + k)                                   \* 100, 101, ...: unassigned in every registry used below
Txt3(k) == Tx(<<97 + (k % 26), 97 + ((k \div 26) % 26), 97 + ((k \div 676) % 26)>>)      \* distinct 3-letter texts
Ext(n) == [k \in 1..n |-> <<Lbl(k), Nat2I(k % 24)>>]
ExtDesc(n) == [k \in 1..n |-> <<Lbl(n + 1 - k), Nat2I(k % 24)>>]
TxtPairs(n) == [k \in 1..n |-> <<Txt3(k), Nat2I(k % 24)>>]
SigK(k) == Arr(<<B0, EmptyMap, Bs(<<k % 256>>)>>)
RecipK(k) == Arr(<<B0, Map(<< <<Nat2I(4), Bs(<<k % 256, 1>>)>> >>), Nil>>)
RECURSIVE Chain(_)
Chain(d) == IF d <= 1 THEN Arr(<<B0, EmptyMap, Nil>>) ELSE Arr(<<B0, EmptyMap, Nil, Arr(<<Chain(d - 1)>>)>>)
KeyK(k) == Map(<< <<Nat2I(1), Nat2I(1)>>, <<Nat2I(2), Bs(<<k % 256, k \div 256>>)>> >>)
AllOps == [k \in 1..10 |-> Nat2I(k)]
Ops(n) == IF n <= 10 THEN SubSeq(AllOps, 1, n) ELSE AllOps \o [k \in 1..(n - 10) |-> Txt3(k)]

RECURSIVE NestArr(_)
NestArr(d) == IF d = 0 THEN Nat2I(1) ELSE Arr(<<NestArr(d - 1)>>)        \* d arrays around an integer
NestSizes == {m \in Sizes : m <= 100}                                   \* (ciborium stops at 256 levels)
RECURSIVE RecipChainV(_)
(* ---------- "dup" ---------- *)
DupAt(m, i, j) == [m EXCEPT ![j][1] = m[i][1]]
Idx(n) == {1, 2, 8, 9, 16, 17, n - 1, n} \cap (1..n)
Pairs(n) == {p \in Idx(n) \X Idx(n) : p[1] < p[2]}
KeyPairs(n) == << <<Nat2I(1), Nat2I(1)>> >> \o Ext(n - 1)
Wrap(pos, m) ==
  CASE pos = "bare" -> <<"Header", Map(m)>>
    [] pos = "prot" -> <<"CoseSign1", Arr(<<Bs(Enc(Map(m))), EmptyMap, Nil, B0>>)>>
    [] pos = "unprot" -> <<"CoseSign1", Arr(<<B0, Map(m), Nil, B0>>)>>
    [] pos = "recip" -> <<"CoseEncrypt", Arr(<<B0, EmptyMap, Nil, Arr(<<RecipK(1), Arr(<<B0, Map(m), Nil>>)>>)>>)>>
    [] pos = "key" -> <<"CoseKey", Map(m)>>
    [] pos = "keyset2" -> <<"CoseKeySet", Arr(<<KeyK(1), Map(m)>>)>>
    [] pos = "claims" -> <<"ClaimsSet", Map(m)>>
DupCases ==
  UNION {{[k |-> "dup", pos |-> pos, n |-> n, i |-> p[1], j |-> p[2]] :
            pos \in {"bare", "prot", "unprot", "recip", "key", "keyset2", "claims"}, p \in Pairs(n)} : n \in Sizes}
DupItem(c) ==
  LET base == CASE c.pos \in {"bare", "prot", "unprot", "recip"} -> Ext(c.n)
                [] c.pos \in {"key", "keyset2"} -> KeyPairs(c.n)
                [] c.pos = "claims" -> TxtPairs(c.n) IN
  Wrap(c.pos, DupAt(base, c.i, c.j))

(* ---------- well-formed big items: <<type, item>> ---------- *)
Big(fam, n) ==
  CASE fam = "header" ->
         { <<"Header", Map(Ext(n) \o << <<Nat2I(1), Neg2I(7)>> >>)>>,                       \* typed field after n extras
           <<"Header", Map(<< <<Nat2I(4), B1>> >> \o ExtDesc(n))>>,                         \* before n extras in descending order
           <<"Header", Map(<< <<Nat2I(2), Arr([k \in 1..n |-> Txt3(k)])>> >>)>>,            \* crit with n labels
           <<"Header", Map(<< <<Nat2I(7), Arr([k \in 1..(IF n = 1 THEN 2 ELSE n) |-> SigK(k)])>> >>)>>,   \* n counter-signatures
           <<"CoseSign1", Arr(<<Bs(Enc(Map(Ext(n)))), Map(ExtDesc(n)), Nil, B0>>)>> }
         \cup (IF n \in NestSizes THEN { <<"Header", Map(<< <<Lbl(1), NestArr(n)>> >>)>> } ELSE {})       \* an extra value nested n deep
    [] fam = "msg" ->
         { <<"CoseSign", Arr(<<B0, EmptyMap, B1, Arr([k \in 1..n |-> SigK(k)])>>)>>,
           <<"CoseMac", Arr(<<B0, EmptyMap, B1, B1, Arr([k \in 1..n |-> RecipK(k)])>>)>>,
           <<"CoseEncrypt", Arr(<<B0, EmptyMap, Nil, Arr([k \in 1..n |-> RecipK(k)])>>)>>,
           <<"CoseRecipient", Arr(<<B0, EmptyMap, Nil, Arr([k \in 1..n |-> RecipK(k)])>>)>> }
         \cup (IF n <= 40 THEN { <<"CoseRecipient", Chain(n)>>, <<"CoseEncrypt", Arr(<<B0, EmptyMap, Nil, Arr(<<Chain(n)>>)>>)>> } ELSE {})
         \cup (IF n \in NestSizes THEN { <<"CoseSign1", Arr(<<Bs(Enc(Map(<< <<Lbl(1), NestArr(n)>> >>))), Map(<< <<Lbl(2), NestArr(n)>> >>), Nil, B0>>)>> } ELSE {})
    [] fam = "key" ->
         { <<"CoseKey", Map(KeyPairs(n))>>,
           <<"CoseKey", Map(<< <<Nat2I(1), Nat2I(2)>>, <<Nat2I(4), Arr(Ops(n))>> >>)>>,
           <<"CoseKeySet", Arr([k \in 1..n |-> KeyK(k)])>> }
         \cup (IF n \in NestSizes THEN { <<"CoseKey", Map(<< <<Nat2I(1), Nat2I(1)>>, <<Lbl(1), NestArr(n)>> >>)>>,
                                          <<"CoseKeySet", Arr(<<KeyK(1), Map(<< <<Nat2I(1), Nat2I(1)>>, <<Lbl(1), NestArr(n)>> >>)>>)>> } ELSE {})
    [] fam = "cwtkdf" ->
         { <<"ClaimsSet", Map(TxtPairs(n))>>,
           <<"ClaimsSet", Map(<< <<Nat2I(1), Ta>> >> \o TxtPairs(n))>>,
           <<"CoseKdfContext", Arr(<<Nat2I(1), Arr(<<Nil, Nil, Nil>>), Arr(<<Nil, Nil, Nil>>), Arr(<<Nat2I(128), B0>>)>> \o [k \in 1..n |-> Bs(<<k % 256>>)])>> }
         \cup (IF n \in NestSizes THEN { <<"ClaimsSet", Map(<< <<Txt3(1), NestArr(n)>> >>)>> } ELSE {})
    [] OTHER -> {}
(* ---------- "roundtrip" (C06) and "builder" (C19): n calls on one builder ---------- *)
RtSigE == [prot |-> EmptyProt, unprot |-> EmptyHeader, sig |-> <<>>]
RtOk(b) == [ok |-> TRUE, bytes |-> b]
RtAad == <<161>>
RecipChainV(d) == [prot |-> EmptyProt, unprot |-> EmptyHeader, cipher |-> <<>>, recips |-> IF d <= 1 THEN <<>> ELSE <<RecipChainV(d - 1)>>]
RtRecip(k) == [prot |-> EmptyProt, unprot |-> [EmptyHeader EXCEPT !.kid = <<k % 256, 1>>], cipher |-> <<>>, recips |-> <<>>]
Tail2(ty) == <<[ev |-> "build"], [ev |-> "encode", api |-> "vec"], [ev |-> "decode", api |-> "slice", ty |-> ty, reg |-> ""]>>
RtSteps(kind, n) ==
  CASE kind = "sign" ->
         <<[ev |-> "new", ty |-> "CoseSign"], [ev |-> "call", m |-> "payload", bytes |-> <<80>>]>>
         \o [k \in 1..n |-> [ev |-> "call", m |-> "add_created_signature", sigv |-> RtSigE, aad |-> RtAad, res |-> RtOk(<<k % 256, k \div 256>>)]]
         \o Tail2("CoseSign")
         \o <<[ev |-> "verify", m |-> "verify_signature", which |-> n - 1, aad |-> RtAad, res |-> [ok |-> TRUE, bytes |-> <<6>>]]>>
    [] kind = "encrypt" ->
         <<[ev |-> "new", ty |-> "CoseEncrypt"]>>
         \o [k \in 1..n |-> [ev |-> "call", m |-> "add_recipient", rcp |-> RtRecip(k)]]
         \o <<[ev |-> "call", m |-> "create_ciphertext", pt |-> <<80>>, aad |-> RtAad, res |-> RtOk(<<1, 1>>)]>>
         \o Tail2("CoseEncrypt")
         \o <<[ev |-> "verify", m |-> "decrypt", aad |-> RtAad, res |-> [ok |-> TRUE, bytes |-> <<6>>]]>>
    [] kind = "chain" ->         \* one recipient that nests n levels of recipients
         <<[ev |-> "new", ty |-> "CoseEncrypt"], [ev |-> "call", m |-> "add_recipient", rcp |-> RecipChainV(n)],
           [ev |-> "call", m |-> "create_ciphertext", pt |-> <<80>>, aad |-> RtAad, res |-> RtOk(<<1, 1>>)]>>
         \o Tail2("CoseEncrypt")
         \o <<[ev |-> "verify", m |-> "decrypt", aad |-> RtAad, res |-> [ok |-> TRUE, bytes |-> <<6>>]]>>
    [] kind = "mac" ->
         <<[ev |-> "new", ty |-> "CoseMac"], [ev |-> "call", m |-> "payload", bytes |-> <<80>>]>>
         \o [k \in 1..n |-> [ev |-> "call", m |-> "add_recipient", rcp |-> RtRecip(k)]]
         \o <<[ev |-> "call", m |-> "create_tag", aad |-> RtAad, res |-> RtOk(<<1, 1>>)]>>
         \o Tail2("CoseMac")
         \o <<[ev |-> "verify", m |-> "verify_tag", aad |-> RtAad, res |-> [ok |-> TRUE, bytes |-> <<6>>]]>>
    [] kind = "header" ->          \* n extras set through the builder, then used as a protected header that is signed
         <<[ev |-> "new", ty |-> "Header"]>>
         \o [k \in 1..n |-> [ev |-> "call", m |-> "value", z |-> Lbl(n + 1 - k), val |-> Nat2I(k % 24)]]
         \o <<[ev |-> "build"], [ev |-> "encode", api |-> "vec"], [ev |-> "decode", api |-> "slice", ty |-> "Header", reg |-> ""]>>
    [] kind = "key" ->
         <<[ev |-> "ctor", m |-> "new_okp_key"]>>      \* completed below
         \o [k \in 1..n |-> [ev |-> "call", m |-> "param", z |-> Lbl(n + 1 - k), val |-> Nat2I(k % 24)]]
         \o <<[ev |-> "build"], [ev |-> "encode", api |-> "vec"], [ev |-> "decode", api |-> "slice", ty |-> "CoseKey", reg |-> ""]>>
    [] kind = "claims" ->
         <<[ev |-> "new", ty |-> "ClaimsSet"]>>
         \o [k \in 1..n |-> [ev |-> "call", m |-> "text_claim", txt |-> Txt3(k).s, val |-> Nat2I(k % 24)]]
         \o <<[ev |-> "build"], [ev |-> "encode", api |-> "vec"], [ev |-> "decode", api |-> "slice", ty |-> "ClaimsSet", reg |-> ""]>>
RtCases == {[k |-> "rt", kind |-> kd, n |-> n] : kd \in (IF Fam = "roundtrip" THEN {"sign", "encrypt", "mac", "chain"} ELSE {"header", "key", "claims"}),
                                                     n \in {m \in Sizes : m <= 40}}      \* sessions are quadratic in n for TLC
CanonCases == {[k |-> "canon", n |-> n, ord |-> o] : n \in Sizes, o \in {"Lexicographic", "LengthFirstLexicographic"}}

Cases == IF Fam = "dup" THEN DupCases ELSE IF Fam = "canon" THEN CanonCases ELSE IF Fam \in {"roundtrip", "builder"} THEN RtCases ELSE {[k |-> "big", n |-> 0, c |-> x] : x \in UNION {Big(Fam, m) : m \in Sizes}}

(* judged in a successor state: TLC evaluates initial states on its small main-thread stack *)
(* the case itself is the state (no detour through a sequence of the cases) *)
VARIABLES cs, go
Init == cs \in Cases /\ go = FALSE
Next == ~go /\ go' = TRUE /\ UNCHANGED cs
Spec == Init /\ [][Next]_<<cs, go>>
C == cs

(* ---------- invariants (Design |= Prop at scale) ---------- *)
DupTI == DupItem(C)
InvDup == go /\ C.k = "dup" =>
  LET r == FromCbor(DupTI[1], "", DupTI[2]) IN ~r.ok /\ r.err = "DuplicateMapKey" /\ ~WF(DupTI[1], "", DupTI[2])
InvBig == go /\ C.k = "big" =>
  LET ty == C.c[1] item == C.c[2] r == FromCbor(ty, "", item) IN
  /\ WF(ty, "", item) /\ r.ok
  /\ (ty \notin {"CoseKey", "CoseKeySet"} => r.x = ValueOf(ty, "", item))
  /\ LET e == ToCbor(ty, r.x) IN e.ok /\ FromCbor(ty, "", e.x).ok /\ FromCbor(ty, "", e.x).x = r.x /\ ToCbor(ty, FromCbor(ty, "", e.x).x).x = e.x
CanonKey == [EmptyKey EXCEPT !.kty = Assigned("KeyType", "OKP"), !.params = ExtDesc(C.n)]
InvCanon == go /\ C.k = "canon" =>
  LET k2 == Key_Canonicalize(CanonKey, C.ord) IN
  /\ Canon_Sorted(Key_ToCbor(k2).x, C.ord)
  /\ {k2.params[i] : i \in 1..Len(k2.params)} = {CanonKey.params[i] : i \in 1..Len(CanonKey.params)}
  /\ Key_Canonicalize(k2, C.ord) = k2

(* n calls: the session runs to its end, the decoded message has n entries, what is verified is what was created last *)
RtObs == RunObs(InitState, RtSteps(C.kind, C.n), <<>>)
InvRt == go /\ C.k = "rt" =>
  LET o == RtObs IN
  /\ \A i \in 1..Len(o) : o[i].kind = "ok"
  /\ C.kind = "sign" => (Len(o[Len(o) - 1].val[1].sigs) = C.n /\ Last(o).cb[1] = <<(C.n) % 256, (C.n) \div 256>> /\ Last(o).cb[2] = Last(o[C.n + 2].cb))
  /\ C.kind = "chain" => Len(o[Len(o) - 1].val[1].recips) = 1
  /\ C.kind \in {"encrypt", "mac"} => (Len(o[Len(o) - 1].val[1].recips) = C.n /\ Last(o).cb[2] = Last(o[C.n + (IF C.kind = "mac" THEN 3 ELSE 2)].cb))
  /\ C.kind = "header" => Len(Last(o).val[1].rest) = C.n
  /\ C.kind = "key" => Len(Last(o).val[1].params) = C.n
  /\ C.kind = "claims" => Len(Last(o).val[1].rest) = C.n

(* ---------- vectors ---------- *)
RECURSIVE Depth(_)
RECURSIVE DepthSeq(_)
DepthSeq(a) == IF a = <<>> THEN 0 ELSE LET d == Depth(a[1]) r == DepthSeq(Tail(a)) IN IF d > r THEN d ELSE r
Depth(v) == CASE v.t = "array" -> 1 + DepthSeq(v.a)
              [] v.t = "map" -> 1 + DepthSeq([i \in 1..Len(v.m) |-> v.m[i][2]])
              [] v.t = "tag" -> 1 + Depth(v.x)
              [] OTHER -> 0
PropOf(ty) == CASE ty \in {"Header"} -> "C08" [] ty \in MsgTypes -> "C09" [] ty \in {"CoseKey", "CoseKeySet"} -> "C10" [] OTHER -> "C18"
Strat2(item) == LET S == <<"w1", "w2", "w4", "w8", "indef", "indef2">> IN S[(Len(Enc(item)) % 6) + 1]
Session(ty, x) ==
  LET steps == <<[ev |-> "lit", ty |-> ty, reg |-> "", x |-> x], [ev |-> "encode", api |-> "vec"],
                 [ev |-> "decode", api |-> "slice", ty |-> ty, reg |-> ""], [ev |-> "encode", api |-> "vec"]>>
      obs == RunObs(InitState, steps, <<>>) IN
  PrintT(ToJson([kind |-> "session", props |-> <<"C11", "C07">>, steps |-> steps, nt |-> TRUE,
                 expect |-> [k \in 1..Len(obs) |-> [kind |-> obs[k].kind, err |-> obs[k].err, bytes |-> obs[k].bytes, cb |-> obs[k].cb,
                                                    ret |-> obs[k].ret, val |-> obs[k].val, judge |-> TRUE, slotfree |-> FALSE, pinerr |-> FALSE,
                                                    noval |-> (ty \in {"CoseKey", "CoseKeySet"})]]]))
Emit == go =>
  CASE C.k = "dup" ->
         PrintT(ToJson([kind |-> "decode", props |-> <<"C12">>, ty |-> DupTI[1], reg |-> "", item |-> DupTI[2], nt |-> TRUE,
                        wires |-> <<Enc(DupTI[2]), EncS(DupTI[2], Strat2(DupTI[2]))>>,
                        expect |-> [accept |-> FALSE, val |-> <<>>, err |-> "DuplicateMapKey", pinerr |-> TRUE, errprop |-> "C12", judge |-> TRUE]]))
    [] C.k = "big" ->
         LET ty == C.c[1] item == C.c[2]
             deep == Depth(item) > 150 IN          \* beyond what the JSON reader of the harness nests: bytes and acceptance only
         /\ IF deep
            THEN PrintT(ToJson([kind |-> "decode", props |-> <<PropOf(ty), "C01">>, ty |-> ty, reg |-> "", novalue |-> TRUE, nt |-> TRUE,
                                wires |-> <<Enc(item), EncS(item, Strat2(item))>>,
                                expect |-> [accept |-> TRUE, val |-> <<>>, err |-> "", pinerr |-> FALSE, judge |-> TRUE]]))
            ELSE PrintT(ToJson([kind |-> "decode", props |-> <<PropOf(ty), "C01">>, ty |-> ty, reg |-> "", item |-> item, nt |-> TRUE,
                                wires |-> <<Enc(item), EncS(item, Strat2(item))>>,
                                expect |-> [accept |-> TRUE, val |-> <<ValueOf(ty, "", item)>>, err |-> "", pinerr |-> FALSE, judge |-> TRUE]]))
         /\ (deep \/ Session(ty, FromCbor(ty, "", item).x))
         /\ PrintT(ToJson([kind |-> "fixpoint", props |-> <<"C07">>, ty |-> ty, reg |-> "", tagged |-> FALSE, wires |-> <<Enc(item), EncS(item, Strat2(item))>>,
                           tags |-> <<>>, nt |-> TRUE]))
    [] C.k = "rt" ->
         PrintT(ToJson([kind |-> "session", props |-> <<(IF Fam = "roundtrip" THEN "C06" ELSE "C19"), "C11">>, steps |-> RtSteps(C.kind, C.n), nt |-> TRUE,
                        relcb |-> (Fam = "roundtrip"),
                        expect |-> [i \in 1..Len(RtObs) |-> [kind |-> RtObs[i].kind, err |-> RtObs[i].err, bytes |-> RtObs[i].bytes, cb |-> RtObs[i].cb,
                                                            ret |-> RtObs[i].ret, val |-> (IF i + 4 > Len(RtObs) THEN RtObs[i].val ELSE <<>>),
                                                            noval |-> (i + 4 <= Len(RtObs)), judge |-> TRUE, slotfree |-> TRUE, pinerr |-> FALSE]]]))
    [] C.k = "canon" ->
         LET k2 == Key_Canonicalize(CanonKey, C.ord) IN
         PrintT(ToJson([kind |-> "canon", props |-> <<"C20">>, key |-> CanonKey, ord |-> C.ord, nt |-> TRUE, tags |-> <<>>,
                        expect |-> [canon |-> k2, bytes |-> Enc(Key_ToCbor(k2).x)]]))
=============================================================================

------------------------------ MODULE MC_Struct ------------------------------
(***************************************************************************)
(* C03 / C04 / C05: (context, body protected, signer protected, AAD,       *)
(* payload) tuples through EVERY API route that reaches the structure:     *)
(* the free function, tbs_*, and the argument captured by the closure of   *)
(* each create / try_create / add_created / verify / decrypt helper.       *)
(* CONSTANT Fam selects the family ("sig" | "mac" | "enc").                *)
(***************************************************************************)
EXTENDS Palette, Json

CONSTANT Fam, Lens, BigLens

H1 == [EmptyHeader EXCEPT !.alg = <<Assigned("Algorithm", "ES256")>>]
(* extras only: twelve of them, labels in DESCENDING order (a header is signed with its extras in the order they were given) *)
HX == [EmptyHeader EXCEPT !.rest = << <<Z2I(99), Nat2I(1)>>, <<Ta, B1>> >> \o [k \in 1..10 |-> <<Z2I(98 - k), Nat2I(k)>>]]
SigV == [prot |-> EmptyProt, unprot |-> EmptyHeader, sig |-> <<7>>]
HC == [EmptyHeader EXCEPT !.cs = <<SigV>>]                                                      \* counter-signature only
HK == [EmptyHeader EXCEPT !.alg = <<Assigned("Algorithm", "ES256")>>, !.kid = <<49, 49>>]
Decoded(b) == Prot_FromBstr(Bs(b)).x
(* the protected-header palette: built (no retained bytes) and decoded (retained bytes) *)
Prots == << [orig |-> <<>>, hdr |-> EmptyHeader],                 \* 1 built empty
            [orig |-> <<>>, hdr |-> H1],                          \* 2 built {1:-7}
            [orig |-> <<>>, hdr |-> HX],                          \* 3 built, extras only
            [orig |-> <<>>, hdr |-> HC],                          \* 4 built, counter-signature only
            [orig |-> <<>>, hdr |-> HK],                          \* 5 built alg + kid
            Decoded(<<>>),                                        \* 6 decoded zero-length
            Decoded(<<160>>),                                     \* 7 decoded a0
            Decoded(<<161, 1, 38>>),                              \* 8 decoded canonical {1:-7}
            Decoded(<<191, 27,0,0,0,0,0,0,0,1, 56, 6, 255>>),      \* 9 decoded non-canonical {1:-7}
            Decoded(<<162, 4, 66, 49, 49, 1, 38>>),              \* 10 decoded, unsorted keys
            (* built headers holding exactly ONE typed field each (the emptiness test must know every field) *)
            [orig |-> <<>>, hdr |-> [EmptyHeader EXCEPT !.crit = <<Assigned("HeaderParameter", "Alg")>>]],      \* 11
            [orig |-> <<>>, hdr |-> [EmptyHeader EXCEPT !.ct = <<TextL(<<65, 47, 98, 59, 32, 81, 61, 90>>)>>]],    \* 12  "A/b; Q=Z": upper case, interior space
            [orig |-> <<>>, hdr |-> [EmptyHeader EXCEPT !.kid = <<49>>]],                                       \* 13
            [orig |-> <<>>, hdr |-> [EmptyHeader EXCEPT !.iv = <<1, 2>>]],                                      \* 14
            [orig |-> <<>>, hdr |-> [EmptyHeader EXCEPT !.piv = <<1, 2>>]],                                     \* 15
            Decoded(<<161, 24, 99, 250, 127, 192, 0, 0>>),        \* 16 decoded {99: NaN as f32}: the parsed view is not equal to itself
            (* the only field holds the registry's value 0 (round 6: an emptiness test that reads "Reserved" as "unset") *)
            [orig |-> <<>>, hdr |-> [EmptyHeader EXCEPT !.alg = <<Assigned("Algorithm", "Reserved")>>]],                  \* 17 {1: 0}
            [orig |-> <<>>, hdr |-> [EmptyHeader EXCEPT !.ct = <<Assigned("CoapContentFormat", "TextPlainUtf8")>>]] >>    \* 18 {3: 0}
NP == Len(Prots)
SignIdx == IF Fam = "sig" THEN {1, 2, 3, 4, 6, 7, 9, 10, 13, 15} ELSE {1}     \* the signer header matters to the sig family only
BuiltNonEmpty(p) == p.orig = <<>> /\ ~Header_IsEmpty(p.hdr)
Slot(p) == Prot_Bstr(p).x.b

Rep(n, x) == SeqOf(n, x)
AllLens == Lens \cup BigLens

SigRoutes == {"free-sign1", "free-sign", "free-counter", "free-counter-nosign", "free-sign1-withsign", "free-sign-nosign", "sign1-lit", "sign1-lit-detached", "sign-lit", "sign-lit-detached",
              "sign1-builder", "sign1-builder-detached", "sign1-builder-try", "sign-builder", "sign-builder-detached", "sign-builder-try",
              "sign1-builder-try-detached", "sign-builder-try-detached"}
MacRoutes == {"free-mac", "free-mac0", "mac-lit", "mac0-lit", "mac-builder", "mac0-builder", "mac-builder-try", "mac0-builder-try"}
RbxRoutes == {"rbx-c-mac", "rbx-c-rec", "rbx-c-encrypt0", "rbx-t-enc", "rbx-t-rec", "rbx-t-encrypt", "rbx-t-encrypt0"}
EncRoutes == {"free-encrypt", "free-encrypt0", "free-enc-rec", "free-mac-rec", "free-rec-rec", "encrypt-lit", "encrypt0-lit",
              "recipient-lit-enc", "recipient-lit-mac", "recipient-lit-rec", "recipient-lit-badctx", "recipient-lit-badctx0",
              "encrypt-builder", "encrypt0-builder", "recipient-builder", "recipient-builder-badctx", "encrypt-builder-try", "recipient-builder-try", "encrypt0-builder-try"}
             \cup RbxRoutes \cup {"recipient-lit-enc-nested", "recipient-lit-mac-nested"}
Routes == CASE Fam = "sig" -> SigRoutes [] Fam = "mac" -> MacRoutes [] Fam = "enc" -> EncRoutes

(* the rest of the matrix {create_ciphertext, try_create_ciphertext} x five contexts on the recipient builder (round 5 of the
   seeded changes: the context check dropped from the fallible twin only); the three routes above are the other cells *)
RbxTab == [r \in {"rbx-c-mac", "rbx-c-rec", "rbx-c-encrypt0", "rbx-t-enc", "rbx-t-rec", "rbx-t-encrypt", "rbx-t-encrypt0"} |->
   CASE r = "rbx-c-mac" -> <<"create_ciphertext", "MacRecipient">> [] r = "rbx-c-rec" -> <<"create_ciphertext", "RecRecipient">>
     [] r = "rbx-c-encrypt0" -> <<"create_ciphertext", "CoseEncrypt0">> [] r = "rbx-t-enc" -> <<"try_create_ciphertext", "EncRecipient">>
     [] r = "rbx-t-rec" -> <<"try_create_ciphertext", "RecRecipient">> [] r = "rbx-t-encrypt" -> <<"try_create_ciphertext", "CoseEncrypt">>
     [] r = "rbx-t-encrypt0" -> <<"try_create_ciphertext", "CoseEncrypt0">>]

VARIABLE st
(* one initial state per route, so that TLC's workers share the fan-out *)
Init == st \in {[mode |-> "route", r |-> r] : r \in Routes}
Next == st.mode = "route" /\
  \/ \E b \in 1..NP : \E s \in SignIdx : \E la \in Lens : \E pl \in Lens \cup {-1} :
       st' = [mode |-> "go", r |-> st.r, b |-> b, s |-> s, la |-> la, pl |-> pl]
  \/ \E b \in {1, 2, 8} : \E la \in BigLens : \E pl \in BigLens :      \* the large length classes with fewer headers
       st' = [mode |-> "go", r |-> st.r, b |-> b, s |-> 2, la |-> la, pl |-> pl]
  \/ st.r \in {"free-sign1", "free-mac", "free-encrypt"} /\ st' = [mode |-> "laws"]
Spec == Init /\ [][Next]_st
Go == st.mode = "go"

Aad == Rep(st.la, 170)
HasPl == st.pl >= 0
Pl == IF HasPl THEN Rep(st.pl, 85) ELSE <<>>
PlOpt == IF HasPl THEN <<Pl>> ELSE <<>>
Body == Prots[st.b]
Sgn == Prots[st.s]
ROk == [ok |-> TRUE, bytes |-> <<8, 8>>]
RErr == [ok |-> FALSE, bytes |-> <<>>]
Vr == [ok |-> TRUE, bytes |-> <<>>]
SigOf(p) == [prot |-> p, unprot |-> EmptyHeader, sig |-> <<7>>]
Sign1Val == [prot |-> Body, unprot |-> EmptyHeader, payload |-> PlOpt, sig |-> <<7>>]
Sign1ValNoPl == [Sign1Val EXCEPT !.payload = <<>>]
SignVal == [prot |-> Body, unprot |-> EmptyHeader, payload |-> PlOpt, sigs |-> <<SigOf(EmptyProt), SigOf(Sgn)>>]
SignValNoPl == [SignVal EXCEPT !.payload = <<>>]
MacVal(ty) == IF ty = "CoseMac" THEN [prot |-> Body, unprot |-> EmptyHeader, payload |-> PlOpt, tag |-> <<7>>, recips |-> <<>>]
              ELSE [prot |-> Body, unprot |-> EmptyHeader, payload |-> PlOpt, tag |-> <<7>>]
(* for the encryption family the "payload" dimension is: ciphertext present (any bytes) or absent *)
EncVal(ty) == IF ty = "CoseEncrypt0" THEN [prot |-> Body, unprot |-> EmptyHeader, cipher |-> PlOpt]
              ELSE [prot |-> Body, unprot |-> EmptyHeader, cipher |-> PlOpt, recips |-> <<>>]
Lit(ty, x) == [ev |-> "lit", ty |-> ty, reg |-> "", x |-> x]
New(ty) == [ev |-> "new", ty |-> ty]
SetProt == [ev |-> "call", m |-> "protected", hdr |-> Body.hdr]
SetPl == [ev |-> "call", m |-> "payload", bytes |-> Pl]

Steps ==
  CASE st.r = "free-sign1" -> <<[ev |-> "struct", fn |-> "sig", ctx |-> "CoseSign1", body |-> Body, signp |-> <<>>, aad |-> Aad, pl |-> Pl]>>
    [] st.r = "free-sign" -> <<[ev |-> "struct", fn |-> "sig", ctx |-> "CoseSignature", body |-> Body, signp |-> <<Sgn>>, aad |-> Aad, pl |-> Pl]>>
    [] st.r = "free-sign1-withsign" -> <<[ev |-> "struct", fn |-> "sig", ctx |-> "CoseSign1", body |-> Body, signp |-> <<Sgn>>, aad |-> Aad, pl |-> Pl]>>
    [] st.r = "free-sign-nosign" -> <<[ev |-> "struct", fn |-> "sig", ctx |-> "CoseSignature", body |-> Body, signp |-> <<>>, aad |-> Aad, pl |-> Pl]>>
    [] st.r = "free-counter" -> <<[ev |-> "struct", fn |-> "sig", ctx |-> "CounterSignature", body |-> Body, signp |-> <<Sgn>>, aad |-> Aad, pl |-> Pl]>>
    [] st.r = "free-counter-nosign" -> <<[ev |-> "struct", fn |-> "sig", ctx |-> "CounterSignature", body |-> Body, signp |-> <<>>, aad |-> Aad, pl |-> Pl]>>
    [] st.r = "sign1-lit" -> <<Lit("CoseSign1", Sign1Val), [ev |-> "tbs", m |-> "tbs_data", aad |-> Aad],
                               [ev |-> "verify", m |-> "verify_signature", aad |-> Aad, res |-> Vr]>>
    [] st.r = "sign1-lit-detached" -> <<Lit("CoseSign1", Sign1ValNoPl), [ev |-> "tbs", m |-> "tbs_detached_data", pl |-> Pl, aad |-> Aad],
                               [ev |-> "verify", m |-> "verify_detached_signature", pl |-> Pl, aad |-> Aad, res |-> Vr]>>
    [] st.r = "sign-lit" -> <<Lit("CoseSign", SignVal), [ev |-> "tbs", m |-> "tbs_data", aad |-> Aad, which |-> 1],
                               [ev |-> "verify", m |-> "verify_signature", aad |-> Aad, which |-> 1, res |-> Vr]>>
    [] st.r = "sign-lit-detached" -> <<Lit("CoseSign", SignValNoPl), [ev |-> "tbs", m |-> "tbs_detached_data", pl |-> Pl, aad |-> Aad, which |-> 1],
                               [ev |-> "verify", m |-> "verify_detached_signature", pl |-> Pl, aad |-> Aad, which |-> 1, res |-> Vr]>>
    [] st.r = "sign1-builder" -> <<New("CoseSign1"), SetProt>> \o (IF HasPl THEN <<SetPl>> ELSE <<>>) \o
                               <<[ev |-> "call", m |-> "create_signature", aad |-> Aad, res |-> ROk], [ev |-> "build"]>>
    [] st.r = "sign1-builder-detached" -> <<New("CoseSign1"), SetProt,
                               [ev |-> "call", m |-> "create_detached_signature", pl |-> Pl, aad |-> Aad, res |-> ROk], [ev |-> "build"]>>
    [] st.r = "sign1-builder-try-detached" -> <<New("CoseSign1"), SetProt,
                               [ev |-> "call", m |-> "try_create_detached_signature", pl |-> Pl, aad |-> Aad, res |-> ROk], [ev |-> "build"]>>
    [] st.r = "sign-builder-try-detached" -> <<New("CoseSign"), SetProt,
                               [ev |-> "call", m |-> "try_add_detached_signature", sigv |-> SigOf(Sgn), pl |-> Pl, aad |-> Aad, res |-> ROk], [ev |-> "build"]>>
    [] st.r = "sign1-builder-try" -> <<New("CoseSign1"), SetProt>> \o (IF HasPl THEN <<SetPl>> ELSE <<>>) \o
                               <<[ev |-> "call", m |-> "try_create_signature", aad |-> Aad, res |-> RErr]>>
    [] st.r = "sign-builder" -> <<New("CoseSign"), SetProt>> \o (IF HasPl THEN <<SetPl>> ELSE <<>>) \o
                               <<[ev |-> "call", m |-> "add_created_signature", sigv |-> SigOf(Sgn), aad |-> Aad, res |-> ROk], [ev |-> "build"]>>
    [] st.r = "sign-builder-detached" -> <<New("CoseSign"), SetProt,
                               [ev |-> "call", m |-> "add_detached_signature", sigv |-> SigOf(Sgn), pl |-> Pl, aad |-> Aad, res |-> ROk], [ev |-> "build"]>>
    [] st.r = "sign-builder-try" -> <<New("CoseSign"), SetProt>> \o (IF HasPl THEN <<SetPl>> ELSE <<>>) \o
                               <<[ev |-> "call", m |-> "try_add_created_signature", sigv |-> SigOf(Sgn), aad |-> Aad, res |-> ROk], [ev |-> "build"]>>
    [] st.r = "free-mac" -> <<[ev |-> "struct", fn |-> "mac", ctx |-> "CoseMac", body |-> Body, aad |-> Aad, pl |-> Pl]>>
    [] st.r = "free-mac0" -> <<[ev |-> "struct", fn |-> "mac", ctx |-> "CoseMac0", body |-> Body, aad |-> Aad, pl |-> Pl]>>
    [] st.r = "mac-lit" -> <<Lit("CoseMac", MacVal("CoseMac")), [ev |-> "verify", m |-> "verify_tag", aad |-> Aad, res |-> Vr]>>
    [] st.r = "mac0-lit" -> <<Lit("CoseMac0", MacVal("CoseMac0")), [ev |-> "verify", m |-> "verify_tag", aad |-> Aad, res |-> [ok |-> FALSE, bytes |-> <<3>>]]>>
    [] st.r \in {"mac-builder", "mac0-builder", "mac-builder-try", "mac0-builder-try"} ->
         <<New(IF st.r \in {"mac-builder", "mac-builder-try"} THEN "CoseMac" ELSE "CoseMac0"), SetProt>> \o (IF HasPl THEN <<SetPl>> ELSE <<>>) \o
         <<[ev |-> "call", m |-> IF st.r \in {"mac-builder", "mac0-builder"} THEN "create_tag" ELSE "try_create_tag", aad |-> Aad,
            res |-> IF st.r = "mac0-builder-try" THEN RErr ELSE ROk]>>
    [] st.r = "free-encrypt" -> <<[ev |-> "struct", fn |-> "enc", ctx |-> "CoseEncrypt", body |-> Body, aad |-> Aad]>>
    [] st.r = "free-encrypt0" -> <<[ev |-> "struct", fn |-> "enc", ctx |-> "CoseEncrypt0", body |-> Body, aad |-> Aad]>>
    [] st.r = "free-enc-rec" -> <<[ev |-> "struct", fn |-> "enc", ctx |-> "EncRecipient", body |-> Body, aad |-> Aad]>>
    [] st.r = "free-mac-rec" -> <<[ev |-> "struct", fn |-> "enc", ctx |-> "MacRecipient", body |-> Body, aad |-> Aad]>>
    [] st.r = "free-rec-rec" -> <<[ev |-> "struct", fn |-> "enc", ctx |-> "RecRecipient", body |-> Body, aad |-> Aad]>>
    [] st.r = "encrypt-lit" -> <<Lit("CoseEncrypt", EncVal("CoseEncrypt")), [ev |-> "verify", m |-> "decrypt", aad |-> Aad, res |-> ROk]>>
    [] st.r = "encrypt0-lit" -> <<Lit("CoseEncrypt0", EncVal("CoseEncrypt0")), [ev |-> "verify", m |-> "decrypt", aad |-> Aad, res |-> [ok |-> FALSE, bytes |-> <<3>>]]>>
    [] st.r \in {"recipient-lit-enc", "recipient-lit-mac", "recipient-lit-rec", "recipient-lit-badctx", "recipient-lit-badctx0"} ->
         <<Lit("CoseRecipient", EncVal("CoseRecipient")),
           [ev |-> "verify", m |-> "decrypt", aad |-> Aad, res |-> ROk,
            ctx |-> CASE st.r = "recipient-lit-enc" -> "EncRecipient" [] st.r = "recipient-lit-mac" -> "MacRecipient"
                      [] st.r = "recipient-lit-rec" -> "RecRecipient" [] st.r = "recipient-lit-badctx" -> "CoseEncrypt" [] OTHER -> "CoseEncrypt0"]>>
    (* a recipient that itself carries a layer of recipients: the context stays the caller's (round 6) *)
    [] st.r \in {"recipient-lit-enc-nested", "recipient-lit-mac-nested"} ->
         <<Lit("CoseRecipient", [EncVal("CoseRecipient") EXCEPT !.recips = <<[prot |-> EmptyProt, unprot |-> EmptyHeader, cipher |-> <<<<9>>>>, recips |-> <<>>]>>]),
           [ev |-> "verify", m |-> "decrypt", aad |-> Aad, res |-> ROk, ctx |-> IF st.r = "recipient-lit-enc-nested" THEN "EncRecipient" ELSE "MacRecipient"]>>
    [] st.r \in {"encrypt-builder", "encrypt0-builder", "encrypt-builder-try"} ->
         <<New(IF st.r = "encrypt0-builder" THEN "CoseEncrypt0" ELSE "CoseEncrypt"), SetProt,
           [ev |-> "call", m |-> IF st.r = "encrypt-builder-try" THEN "try_create_ciphertext" ELSE "create_ciphertext", pt |-> Pl, aad |-> Aad,
            res |-> IF st.r = "encrypt-builder-try" THEN RErr ELSE ROk]>>
    [] st.r \in {"recipient-builder", "recipient-builder-badctx", "recipient-builder-try"} ->
         <<New("CoseRecipient"), SetProt,
           [ev |-> "call", m |-> IF st.r = "recipient-builder-try" THEN "try_create_ciphertext" ELSE "create_ciphertext", pt |-> Pl, aad |-> Aad, res |-> ROk,
            ctx |-> IF st.r = "recipient-builder-badctx" THEN "CoseEncrypt" ELSE IF st.r = "recipient-builder-try" THEN "MacRecipient" ELSE "EncRecipient"]>>
    [] st.r = "encrypt0-builder-try" ->
         <<New("CoseEncrypt0"), SetProt, [ev |-> "call", m |-> "try_create_ciphertext", pt |-> Pl, aad |-> Aad, res |-> ROk], [ev |-> "build"]>>
    [] st.r \in RbxRoutes ->
         <<New("CoseRecipient"), SetProt,
           [ev |-> "call", m |-> RbxTab[st.r][1], pt |-> Pl, aad |-> Aad, res |-> IF st.r = "rbx-t-rec" THEN RErr ELSE ROk, ctx |-> RbxTab[st.r][2]]>>

(* builder routes only make sense for bodies built in memory *)
Applicable == IF st.r \in {"sign1-builder", "sign1-builder-detached", "sign1-builder-try", "sign-builder", "sign-builder-detached", "sign-builder-try",
                           "sign1-builder-try-detached", "sign-builder-try-detached",
                           "mac-builder", "mac0-builder", "mac-builder-try", "mac0-builder-try", "encrypt-builder", "encrypt0-builder",
                           "encrypt-builder-try", "recipient-builder", "recipient-builder-badctx", "recipient-builder-try", "encrypt0-builder-try"} \cup RbxRoutes
              THEN Body.orig = <<>> ELSE TRUE

Observed == RunObs(InitState, Steps, <<>>)

(* ---- Prop: the RFC structure for this tuple, computed independently of the wrappers ---- *)
CtxText == CASE st.r \in {"free-sign1", "free-sign1-withsign", "sign1-lit", "sign1-lit-detached", "sign1-builder", "sign1-builder-detached", "sign1-builder-try", "sign1-builder-try-detached"} -> "Signature1"
             [] st.r \in {"free-sign", "free-sign-nosign", "sign-lit", "sign-lit-detached", "sign-builder", "sign-builder-detached", "sign-builder-try", "sign-builder-try-detached"} -> "Signature"
             [] st.r \in {"free-counter", "free-counter-nosign"} -> "CounterSignature"
             [] st.r \in {"free-mac", "mac-lit", "mac-builder", "mac-builder-try"} -> "MAC"
             [] st.r \in {"free-mac0", "mac0-lit", "mac0-builder", "mac0-builder-try"} -> "MAC0"
             [] st.r \in {"free-encrypt", "encrypt-lit", "encrypt-builder", "encrypt-builder-try"} -> "Encrypt"
             [] st.r \in {"free-encrypt0", "encrypt0-lit", "encrypt0-builder", "encrypt0-builder-try"} -> "Encrypt0"
             [] st.r \in {"free-enc-rec", "recipient-lit-enc", "recipient-builder", "rbx-t-enc", "recipient-lit-enc-nested"} -> "Enc_Recipient"
             [] st.r \in {"free-mac-rec", "recipient-lit-mac", "recipient-builder-try", "rbx-c-mac", "recipient-lit-mac-nested"} -> "Mac_Recipient"
             [] st.r \in {"free-rec-rec", "recipient-lit-rec", "rbx-c-rec", "rbx-t-rec"} -> "Rec_Recipient"
             [] OTHER -> "none"
HasSignSlot == st.r \in {"free-sign", "free-sign1-withsign", "free-counter", "sign-lit", "sign-lit-detached", "sign-builder", "sign-builder-detached", "sign-builder-try",
                         "sign-builder-try-detached"}
RfcBytes ==
  CASE Fam = "sig" -> RfcSig(Ascii[CtxText], Slot(Body), IF HasSignSlot THEN <<Slot(Sgn)>> ELSE <<>>, Aad, Pl)
    [] Fam = "mac" -> RfcMac(Ascii[CtxText], Slot(Body), Aad, Pl)
    [] Fam = "enc" -> RfcEnc(Ascii[CtxText], Slot(Body), Aad)
(* documented refusals *)
MustPanic ==
  \/ st.r \in {"sign1-lit-detached", "sign-lit-detached"} /\ FALSE              \* lit values of the detached routes carry no payload
  \/ st.r \in {"sign1-builder-detached", "sign-builder-detached"} /\ FALSE
  \/ Fam = "mac" /\ st.r \notin {"free-mac", "free-mac0"} /\ ~HasPl
  \/ st.r \in {"encrypt-lit", "encrypt0-lit", "recipient-lit-enc", "recipient-lit-mac", "recipient-lit-rec", "recipient-lit-badctx", "recipient-lit-badctx0",
               "recipient-lit-enc-nested", "recipient-lit-mac-nested"} /\ ~HasPl
  \/ st.r \in {"recipient-lit-badctx", "recipient-lit-badctx0", "recipient-builder-badctx", "rbx-c-encrypt0", "rbx-t-encrypt", "rbx-t-encrypt0"}
(* every observation that carries a structure carries exactly the RFC bytes; refusals are exactly the documented ones *)
StructOf(o) == IF o.bytes # <<>> THEN <<o.bytes[1]>> ELSE IF o.cb # <<>> THEN <<Last(o.cb)>> ELSE <<>>
Prop == CASE Fam = "sig" -> "C03" [] Fam = "mac" -> "C04" [] Fam = "enc" -> "C05"
SlotFree == BuiltNonEmpty(Body) \/ (HasSignSlot /\ BuiltNonEmpty(Sgn))
InjKey == <<CtxText, Slot(Body), IF HasSignSlot THEN <<Slot(Sgn)>> ELSE <<>>, Aad, IF Fam = "enc" THEN <<>> ELSE Pl>>
Annot(o) == [kind |-> o.kind, err |-> o.err, bytes |-> o.bytes, cb |-> o.cb, ret |-> o.ret, val |-> o.val,
             judge |-> TRUE, slotfree |-> SlotFree, pinerr |-> FALSE, noval |-> TRUE,
             inj |-> IF StructOf(o) # <<>> /\ ~SlotFree THEN <<InjKey>> ELSE <<>>]

InvStruct == Go /\ Applicable =>
  LET obs == Observed rfc == RfcBytes IN
  /\ \A i \in 1..Len(obs) : StructOf(obs[i]) # <<>> => StructOf(obs[i])[1] = rfc                 \* exactly the RFC bytes
  /\ (MustPanic <=> \E i \in 1..Len(obs) : obs[i].kind = "panic")                                \* exactly the documented refusals
  /\ \A i \in 1..Len(Steps) : Steps[i].ev = "verify" /\ obs[i].kind = "ok" =>                     \* stored value first, result unchanged
        /\ obs[i].cb[1] = (IF Fam = "enc" THEN Pl ELSE <<7>>)
        /\ obs[i].ret = <<Steps[i].res>>
  /\ PrintT(ToJson([kind |-> "session", props |-> <<Prop>>, steps |-> Steps, nt |-> TRUE,
                    expect |-> [i \in 1..Len(obs) |-> Annot(obs[i])]]))

(* injectivity over the palette: distinct (context, slots, aad, payload) never share bytes (small sets; state "laws") *)
LawLens == {0, 1, 24}
SigTuples == {<<c, b, s, a, p>> : c \in {"Signature1", "Signature", "CounterSignature"}, b \in {1, 2, 7, 9}, s \in {0, 1, 2, 9}, a \in LawLens, p \in LawLens}
SigBytesOf(t) == RfcSig(Ascii[t[1]], Slot(Prots[t[2]]), IF t[3] = 0 THEN <<>> ELSE <<Slot(Prots[t[3]])>>, Rep(t[4], 170), Rep(t[5], 85))
SigKeyOf(t) == <<t[1], Slot(Prots[t[2]]), IF t[3] = 0 THEN <<>> ELSE <<Slot(Prots[t[3]])>>, t[4], t[5]>>
InvInjective == st.mode = "laws" /\ Fam = "sig" =>
  \* bytes are a function of the key by construction; injective <=> as many distinct outputs as distinct keys
  Cardinality({SigBytesOf(t) : t \in SigTuples}) = Cardinality({SigKeyOf(t) : t \in SigTuples})
MacTuples == {<<c, b, a, p>> : c \in {"MAC", "MAC0", "Signature1", "Encrypt0"}, b \in {1, 2, 7, 9}, a \in LawLens, p \in LawLens \cup {-1}}
XBytesOf(t) == IF t[1] \in {"MAC", "MAC0"} /\ t[4] >= 0 THEN RfcMac(Ascii[t[1]], Slot(Prots[t[2]]), Rep(t[3], 170), Rep(t[4], 85))
               ELSE IF t[1] = "Signature1" /\ t[4] >= 0 THEN RfcSig(Ascii[t[1]], Slot(Prots[t[2]]), <<>>, Rep(t[3], 170), Rep(t[4], 85))
               ELSE RfcEnc(Ascii[IF t[1] \in {"MAC", "MAC0", "Signature1"} THEN "Encrypt" ELSE t[1]], Slot(Prots[t[2]]), Rep(t[3], 170))
XKeyOf(t) == <<IF t[4] < 0 /\ t[1] \in {"MAC", "MAC0", "Signature1"} THEN "Encrypt" ELSE t[1], Slot(Prots[t[2]]), t[3], IF t[1] = "Encrypt0" THEN -1 ELSE t[4]>>
InvInjectiveX == st.mode = "laws" /\ Fam # "sig" =>
  Cardinality({XBytesOf(t) : t \in MacTuples}) = Cardinality({XKeyOf(t) : t \in MacTuples})

=============================================================================

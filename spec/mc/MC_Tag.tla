------------------------------- MODULE MC_Tag -------------------------------
(***************************************************************************)
(* C14: six taggable types x tag numbers (registered, neighbours, 0,       *)
(* 55799, 2^64-1) x tag-head widths x {no tag, one tag, two tags} x bodies *)
(* accepted by the type / by another type of the same shape / by none.     *)
(***************************************************************************)
EXTENDS Palette, Json

TagTypes == <<"CoseSign", "CoseSign1", "CoseMac", "CoseMac0", "CoseEncrypt", "CoseEncrypt0">>
RegTags == {<<16>>, <<17>>, <<18>>, <<96>>, <<97>>, <<98>>}
(* the registered numbers plus 2^8, 2^16, 2^32 and 2^63: what a truncating comparison would confuse with them *)
Aliases == UNION {{<<1>> \o t, <<1, 0>> \o t, <<1, 0, 0, 0>> \o t, <<128, 0, 0, 0, 0, 0, 0>> \o t} : t \in RegTags}
TagNums == RegTags \cup {<<15>>, <<19>>, <<95>>, <<99>>, <<61>>, <<>>, <<217, 247>>, <<255,255,255,255,255,255,255,255>>} \cup Aliases
RecipMin == Arr(<<B0, EmptyMap, Nil>>)
Bodies == { Arr(<<B0, EmptyMap, Nil, B0>>),                               \* Sign1 / Mac0
            Arr(<<Bs(<<161,1,38>>), Map(<< <<Nat2I(4), B1>> >>), B12, B1>>), \* Sign1 / Mac0 with content
            Arr(<<B0, EmptyMap, Nil, Arr(<<SigMin>>)>>),                  \* Sign / Encrypt
            Arr(<<B0, EmptyMap, B1, Arr(<<SigAlg>>)>>),                   \* Sign (SigAlg is a valid recipient too -> Encrypt)
            Arr(<<B0, EmptyMap, B1, B1, Arr(<<RecipMin>>)>>),              \* Mac
            Arr(<<B0, EmptyMap, Nil>>),                                   \* Encrypt0
            Arr(<<B0, EmptyMap, B1>>),                                    \* Encrypt0 / Signature
            Arr(<<Nat2I(1)>>), Nat2I(1), EmptyMap }

(* a COSE_Encrypt0 whose unprotected header holds an array nested d deep: total nesting d + 2 *)
RECURSIVE NestArr(_)
NestArr(d) == IF d = 0 THEN Nat2I(0) ELSE Arr(<<NestArr(d - 1)>>)
DeepBody(d) == Arr(<<B0, Map(<< <<Z2I(99), NestArr(d)>> >>), Nil>>)

VARIABLE st
Init == st = [mode |-> "init"]
Next == st.mode = "init" /\
  \/ \E b \in Bodies : st' = [mode |-> "t0", body |-> b]
  \/ \E b \in Bodies : \E t \in TagNums : \E w \in WidthsFor(t) : st' = [mode |-> "t1", body |-> b, t1 |-> t, w1 |-> w]
  \/ \E b \in Bodies : \E t \in RegTags \cup {<<217, 247>>} : \E u \in {<<16>>, <<17>>, <<18>>, <<96>>, <<97>>, <<98>>, <<217, 247>>} :
        st' = [mode |-> "t2", body |-> b, t1 |-> t, w1 |-> MinWidth(t), t2 |-> u]
  \/ \E d \in {253, 254} : st' = [mode |-> "t1", body |-> DeepBody(d), t1 |-> <<16>>, w1 |-> 0, deep |-> d]
Spec == Init /\ [][Next]_st
Go == st.mode # "init"
Deep == "deep" \in DOMAIN st

Item == CASE st.mode = "t0" -> st.body
          [] st.mode = "t1" -> Tag(st.t1, st.body)
          [] st.mode = "t2" -> Tag(st.t1, Tag(st.t2, st.body))
Wire == CASE st.mode = "t0" -> Enc(st.body)
          [] st.mode = "t1" -> HdW(6, st.t1, st.w1) \o Enc(st.body)
          [] st.mode = "t2" -> HdW(6, st.t1, st.w1) \o Hd(6, st.t2) \o Enc(st.body)

(* Prop *)
Tagged_WF(ty, item) == item.t = "tag" /\ item.tag = MagOfNat(ValueOfName("CborTag", ty)) /\ Msg_WF(ty, item.x)
InvParse == Go /\ ~("deep" \in DOMAIN st) => LET r == ReadToValue(Wire) IN r.ok /\ r.v = Item
(* finding F8 (dependency behaviour): the tag itself costs one level of ciborium's recursion budget, so a body nested to *)
(* exactly the limit is accepted untagged but rejected once its registered tag is applied                                  *)
InvF8 == Go /\ Deep => LET u == FromSlice("CoseEncrypt0", "", Enc(st.body)).ok t == FromTaggedSlice("CoseEncrypt0", Wire).ok IN
           u /\ (t <=> st.deep = 253)
InvTagged == Go /\ ~(Deep /\ st.deep = 254) => \A i \in 1..Len(TagTypes) : LET ty == TagTypes[i] r == FromTaggedSlice(ty, Wire) IN
                     (r.ok <=> Tagged_WF(ty, Item)) /\ (r.ok => r.x = Msg_ValueOf(ty, Item.x))
InvUntagged == Go /\ Item.t = "tag" => \A i \in 1..Len(TagTypes) : ~FromSlice(TagTypes[i], "", Wire).ok
(* bytes tagged for one type are never accepted as another *)
InvExclusive == Go => \A i, j \in 1..Len(TagTypes) : i # j => ~(FromTaggedSlice(TagTypes[i], Wire).ok /\ FromTaggedSlice(TagTypes[j], Wire).ok)
InvToTagged == Go /\ st.mode = "t0" => \A i \in 1..Len(TagTypes) : LET ty == TagTypes[i] d == Msg_FromCbor(ty, st.body) IN
                 d.ok => ToTaggedVec(ty, d.x).x = Hd(6, MagOfNat(ValueOfName("CborTag", ty))) \o ToVec(ty, d.x).x

ExpT(ty) == IF Tagged_WF(ty, Item) THEN [accept |-> TRUE, val |-> IF "deep" \in DOMAIN st THEN <<>> ELSE <<Msg_ValueOf(ty, Item.x)>>, err |-> "", pinerr |-> FALSE, judge |-> TRUE]
            ELSE [accept |-> FALSE, val |-> <<>>, err |-> FromTaggedSlice(ty, Wire).err, pinerr |-> FALSE, judge |-> TRUE]
ExpU(ty) == IF Msg_WF(ty, Item) THEN [accept |-> TRUE, val |-> <<Msg_ValueOf(ty, Item)>>, err |-> "", pinerr |-> FALSE, judge |-> TRUE]
            ELSE [accept |-> FALSE, val |-> <<>>, err |-> FromSlice(ty, "", Wire).err, pinerr |-> FALSE, judge |-> TRUE]
Emit == Go =>
  /\ PrintT(ToJson([kind |-> "decode", props |-> <<"C14">>, api |-> "tagged", reg |-> "", wires |-> <<Wire>>, nt |-> TRUE,
                    tags |-> IF Deep /\ st.deep = 254 THEN <<"tagged-body-at-recursion-limit">> ELSE <<>>,
                    multi |-> [i \in 1..Len(TagTypes) |-> [ty |-> TagTypes[i], expect |-> ExpT(TagTypes[i])]]]))
  /\ Deep \/ PrintT(ToJson([kind |-> "decode", props |-> <<"C14">>, api |-> "slice", reg |-> "", item |-> Item, wires |-> <<Wire>>, nt |-> TRUE,
                    multi |-> [i \in 1..Len(TagTypes) |-> [ty |-> TagTypes[i], expect |-> ExpU(TagTypes[i])]]]))
  /\ st.mode = "t0" => \A i \in 1..Len(TagTypes) : LET ty == TagTypes[i] d == Msg_FromCbor(ty, st.body) IN
       d.ok => PrintT(ToJson([kind |-> "encode", props |-> <<"C14">>, ty |-> ty, reg |-> "", x |-> d.x, api |-> "tagged", nt |-> TRUE,
                              expect |-> [ok |-> TRUE, err |-> "", pinerr |-> FALSE, item |-> <<>>, bytes |-> <<ToTaggedVec(ty, d.x).x>>,
                                          back |-> <<d.x>>, judge |-> TRUE]]))
=============================================================================

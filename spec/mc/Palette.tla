-------------------------------- MODULE Palette --------------------------------
(***************************************************************************)
(* Shared value palettes of the bounded instances.                         *)
(***************************************************************************)
EXTENDS Cose

I63max == I(FALSE, <<127,255,255,255,255,255,255,255>>)    \*  2^63-1
I63    == I(FALSE, <<128,0,0,0,0,0,0,0>>)                  \*  2^63      (not an i64)
U64max == I(FALSE, <<255,255,255,255,255,255,255,255>>)    \*  2^64-1
N63    == I(TRUE,  <<127,255,255,255,255,255,255,255>>)    \* -2^63
N63m1  == I(TRUE,  <<128,0,0,0,0,0,0,0>>)                  \* -2^63-1    (not an i64)
N64    == I(TRUE,  <<255,255,255,255,255,255,255,255>>)    \* -2^64

Ta == Tx(<<97>>)                    \* "a"
Te == Tx(<<>>)                      \* ""
Tt == Tx(<<116>>)                   \* "t"
B0 == Bs(<<>>)
B1 == Bs(<<1>>)
B12 == Bs(<<1, 2>>)
F15 == Flt(<<63,248,0,0,0,0,0,0>>)  \* 1.5
Tag1 == Tag(<<1>>, Nat2I(5))
EmptyMap == Map(<<>>)
EmptyArr == Arr(<<>>)

(* COSE_Signature items *)
SigMin   == Arr(<<B0, EmptyMap, B0>>)
SigA0    == Arr(<<Bs(<<160>>), EmptyMap, B1>>)                       \* protected = h'a0' (wrapped empty map)
SigAlg   == Arr(<<Bs(<<161, 1, 38>>), Map(<< <<Nat2I(4), B1>> >>), B12>>)  \* protected {1:-7}, unprotected {4:h'01'}
SigBadSlot == Arr(<<B0, EmptyMap, Nat2I(1)>>)
SigBadProt == Arr(<<Bs(<<255>>), EmptyMap, B0>>)
SigProtTrail == Arr(<<Bs(<<160, 0>>), EmptyMap, B0>>)                \* protected with a trailing byte
SigArity2 == Arr(<<B0, EmptyMap>>)
SigNested == Arr(<<B0, Map(<< <<Nat2I(7), SigMin>> >>), B0>>)
SigNilFirst == Arr(<<Nil, EmptyMap, B0>>)

GenericVals == {Nat2I(1), B0, Tt, EmptyArr, EmptyMap, Nil, Bool(TRUE), F15, Tag1, U64max, N64}
=============================================================================

-------------------------------- MODULE Trace --------------------------------
(***************************************************************************)
(* Trace validation (implementation -> specification).                     *)
(*                                                                         *)
(* The harness drives the real crate with seeded generators and logs one   *)
(* ndjson line per API call: the event (name + all arguments) and what the *)
(* crate did (outcome kind, error kind, bytes, closure arguments, returned *)
(* result, projected value).  TLC replays every event through the SAME     *)
(* transition function Step of spec/Cose.tla that the bounded instances    *)
(* explore, and compares the observation with what the specification       *)
(* computes.  All arguments are logged, so the search is linear.           *)
(*                                                                         *)
(* The trace spec is TOTAL: an event that does not match is consumed       *)
(* anyway and reported (MISMATCH line), so one rejection does not hide the *)
(* rest of the trace.  Acceptance = every line consumed (POSTCONDITION)    *)
(* and no MISMATCH line.                                                   *)
(***************************************************************************)
EXTENDS Cose, Json, IOUtils

Rec == ndJsonDeserialize(IOEnv.TRACE)

VARIABLES l,      \* next line of the trace to consume
          s,      \* the machine state of Cose.tla
          open,   \* TRUE while the current session is in the zone the model leaves open (parser gap): not judged until reset
          fp      \* fixed-point tracking (C07): [on, f7, val, bytes]: value/bytes of the last decode / encode since the wire was last touched
tvars == <<l, s, open, fp>>

FpNone == [on |-> FALSE, f7 |-> FALSE, val |-> <<>>, bytes |-> <<>>]
TraceInit == l = 1 /\ s = InitState /\ open = FALSE /\ fp = FpNone

(* events of the trace that are not actions of the machine *)
IsReset(e) == e.ev = "reset"

(* label comparison events (C16): evaluated by the specification's order *)
SignOf(z) == IF z < 0 THEN -1 ELSE IF z > 0 THEN 1 ELSE 0
CmpExpect(e) == [cmp |-> SignOf(LabelCmpProp(e.a, e.b)), canon |-> SignOf(CanonCmpProp(e.a, e.b)), eq |-> e.a = e.b]

(* ---- attribution: a trace recorded for the check of property Prop is judged only on the aspects that property ----
   ---- talks about (a change that breaks another property must not raise an alarm here)                        ---- *)
Prop == IF "PROP" \in DOMAIN IOEnv THEN IOEnv.PROP ELSE ""
AllAspects == {"kind", "err", "bytes", "cb", "ret", "val"}
DecodeProps == {"C08", "C09", "C10", "C14", "C15", "C18"}
Aspects(e) ==
  IF Prop = "" THEN AllAspects
  ELSE IF e.ev = "decode" \/ e.ev = "decode_value" THEN
    (CASE Prop \in DecodeProps \cup {"C02", "C06", "C07", "C11", "C20"} -> {"kind", "val"}
       [] Prop \in {"C12", "C13", "C01"} -> {"kind"}
       [] OTHER -> {})
  ELSE IF e.ev = "encode" THEN
    (CASE Prop \in {"C02", "C06", "C07", "C20", "C14"} -> {"kind", "bytes"}
       [] Prop \in {"C11", "C18"} -> {"kind", "bytes"}
       [] Prop \in {"C12", "C01"} -> {"kind"}
       [] OTHER -> {})
  ELSE IF e.ev \in {"tbs", "verify", "struct"} THEN
    (CASE Prop \in {"C02", "C03", "C04", "C05", "C06"} -> {"kind", "bytes", "cb", "ret"}
       [] Prop = "C01" -> {"kind"}
       [] OTHER -> {})
  ELSE IF e.ev \in {"call", "new", "ctor", "build", "lit"} THEN
    (CASE Prop = "C19" -> {"kind", "val"}
       [] Prop \in {"C06", "C03", "C04", "C05"} -> {"kind", "cb"}
       [] Prop = "C11" -> {"kind", "val"}
       [] OTHER -> {})
  ELSE IF e.ev = "canonicalize" THEN (IF Prop = "C20" THEN {"kind", "val"} ELSE {})
  ELSE {}

MatchObs(exp, o, asp) ==
  /\ "kind" \in asp => exp.kind = o.kind
  /\ ("bytes" \in asp /\ o.kind = "ok" /\ exp.kind = "ok") => exp.bytes = o.bytes
  /\ ("ret" \in asp /\ o.kind = "ok" /\ exp.kind = "ok") => exp.ret = o.ret
  /\ ("cb" \in asp /\ o.kind \in {"ok", "err"} /\ exp.kind = o.kind) => exp.cb = o.cb
  /\ ("val" \in asp /\ o.cmpval /\ o.kind \in {"ok", "err"} /\ exp.kind = o.kind) => exp.val = o.val

(* ---- the Prop layer evaluated on the recorded execution (Design |= Prop outside the palettes) ---- *)
SameModOps(ty, a, b) ==
  IF ty = "CoseKey" THEN [a EXCEPT !.ops = <<>>] = [b EXCEPT !.ops = <<>>] /\ {a.ops[i] : i \in 1..Len(a.ops)} = {b.ops[i] : i \in 1..Len(b.ops)}
  ELSE IF ty = "CoseKeySet" THEN Len(a) = Len(b) /\ \A k \in 1..Len(a) :
         [a[k] EXCEPT !.ops = <<>>] = [b[k] EXCEPT !.ops = <<>>] /\ {a[k].ops[i] : i \in 1..Len(a[k].ops)} = {b[k].ops[i] : i \in 1..Len(b[k].ops)}
  ELSE a = b
(* decoding (C08/C09/C10/C18/C14/C15): accepted iff well-formed, value = ValueOf; a tagged item is rejected by the untagged decoder *)
PropDecode(st, e, n) ==
  LET r == ReadToValue(st.wire[1]) IN
  IF ~r.ok THEN n.out.kind = "err"                                              \* not exactly one item: rejected (C13)
  ELSE IF e.api = "slice" THEN
    (IF e.ty \in MsgTypes /\ HasEmptyNested(e.ty, r.v) THEN TRUE
     ELSE LET wf == WF(e.ty, e.reg, r.v) IN
          ((n.out.kind = "ok") <=> wf) /\ (wf => SameModOps(e.ty, n.mem.val, ValueOf(e.ty, e.reg, r.v))))
  ELSE IF e.api = "tagged" THEN
    (IF r.v.t = "tag" /\ HasEmptyNested(e.ty, r.v.x) THEN TRUE
     ELSE LET wf == r.v.t = "tag" /\ r.v.tag = MagOfNat(ValueOfName("CborTag", e.ty)) /\ Msg_WF(e.ty, r.v.x) IN
          ((n.out.kind = "ok") <=> wf) /\ (wf => n.mem.val = Msg_ValueOf(e.ty, r.v.x)))
  ELSE TRUE
(* fixed point (C07): decoding what the crate's own encoder wrote gives the same value; encoding that gives the same bytes *)
PropFixedPointEnc(e, n) ==
  ~fp.on \/ fp.f7 \/ fp.bytes = <<>> \/ (n.out.kind = "ok" /\ n.out.bytes = fp.bytes)

NextFp(st, e, n) ==
  IF e.ev \in {"inject", "truncate", "append", "lit", "new", "call", "build", "canonicalize", "focus"} THEN FpNone
  ELSE IF e.ev = "decode" /\ n.out.kind = "ok" THEN
    (IF fp.on THEN fp
     ELSE LET r == ReadToValue(st.wire[1]) IN
          [on |-> TRUE, f7 |-> (r.ok /\ HasSmallBignumTag(r.v)), val |-> <<n.mem.val>>, bytes |-> <<>>])
  ELSE IF e.ev = "decode" THEN FpNone
  ELSE IF e.ev = "encode" /\ fp.on /\ n.out.kind = "ok" /\ e.api \in {"vec", "tagged"} THEN [fp EXCEPT !.bytes = n.out.bytes]
  ELSE fp

Consume ==
  /\ l <= Len(Rec)
  /\ l' = l + 1
  /\ LET e == Rec[l].e o == Rec[l].o IN
     IF IsReset(e) THEN s' = InitState /\ open' = FALSE /\ fp' = FpNone
     ELSE IF e.ev = "cmp" THEN
       /\ UNCHANGED <<s, open, fp>>
       /\ (CmpExpect(e) = [cmp |-> o.cmp, canon |-> o.canon, eq |-> o.eq]
           \/ PrintT(<<"MISMATCH", l, "cmp", ToJson([expect |-> CmpExpect(e), event |-> e])>>))
     ELSE
       LET n == Step(s, e) gap == n.out.err = "GAP" IN
       /\ s' = n
       /\ open' = (open \/ gap)
       /\ fp' = IF open \/ gap THEN FpNone ELSE NextFp(s, e, n)
       /\ \/ open \/ gap                                       \* unjudged
          \/ MatchObs(Obs(n), o, Aspects(e))
          \/ PrintT(<<"MISMATCH", l, e.ev, ToJson([expect |-> Obs(n), event |-> e])>>)
       /\ (open \/ gap \/ n.out.kind # "err" \/ o.kind # "err" \/ n.out.err = o.err
           \/ PrintT(<<"DEVIATION", l, n.out.err, o.err>>))
       (* the property predicates themselves, on the execution the crate really performed *)
       /\ (open \/ gap \/ e.ev # "decode" \/ e.api = "bstr" \/ Prop \notin DecodeProps \cup {"C12", "C13", ""} \/ PropDecode(s, e, n)
           \/ PrintT(<<"PROPFAIL", l, "decode", ToJson([event |-> e, design |-> Obs(n)])>>))
       /\ (open \/ gap \/ e.ev # "decode" \/ Prop \notin {"C07", ""} \/ ~fp.on \/ fp.f7 \/ fp.bytes = <<>>
           \/ (n.out.kind = "ok" /\ n.mem.val = fp.val[1])
           \/ PrintT(<<"PROPFAIL", l, "fixedpoint-value", ToJson([event |-> e, design |-> Obs(n)])>>))
       /\ (open \/ gap \/ e.ev # "encode" \/ e.api = "bstr" \/ Prop \notin {"C07", ""} \/ PropFixedPointEnc(e, n)
           \/ PrintT(<<"PROPFAIL", l, "fixedpoint-bytes", ToJson([event |-> e, design |-> Obs(n)])>>))

TraceNext == Consume
TraceSpec == TraceInit /\ [][TraceNext]_tvars

TraceAccepted ==
  IF TLCGet("stats").diameter - 1 = Len(Rec) THEN PrintT(<<"TRACE-ACCEPTED", Len(Rec)>>)
  ELSE PrintT(<<"TRACE-REJECTED", TLCGet("stats").diameter - 1, Len(Rec)>>) /\ FALSE
=============================================================================

-------------------------------- MODULE Trace --------------------------------
(***************************************************************************)
(* Trace validation (implementation -> specification).                     *)
(*                                                                         *)
(* The harness drives the real crate with seeded generators and logs one   *)
(* ndjson line per API call: the event (name + all arguments) and what the *)
(* crate did (outcome kind, error kind, bytes, closure arguments, returned *)
(* result, projected value).  TLC replays every event through the SAME     *)
(* transition function Step of spec/Cose.tla that the bounded instances    *)
(* explore, and compares the observation with what the specification       *)
(* computes.  All arguments are logged, so the search is linear.           *)
(*                                                                         *)
(* The trace spec is TOTAL: an event that does not match is consumed       *)
(* anyway and reported (MISMATCH line), so one rejection does not hide the *)
(* rest of the trace.  Acceptance = every line consumed (POSTCONDITION)    *)
(* and no MISMATCH line.                                                   *)
(***************************************************************************)
EXTENDS Cose, Json, IOUtils

Rec == ndJsonDeserialize(IOEnv.TRACE)

VARIABLES l,      \* next line of the trace to consume
          s,      \* the machine state of Cose.tla
          open,   \* TRUE while the current session is not followed: parser gap, or outcome kinds diverged; until reset
          rel,    \* C06: the structure bytes handed to closures so far in this trace, as pairs <<specification's, crate's>>
          fp      \* fixed-point tracking (C07): [on, f7, val, bytes]: value/bytes of the last decode / encode since the wire was last touched
tvars == <<l, s, open, fp, rel>>

FpNone == [on |-> FALSE, f7 |-> FALSE, val |-> <<>>, bytes |-> <<>>]
TraceInit == l = 1 /\ s = InitState /\ open = FALSE /\ fp = FpNone /\ rel = <<>>

(* events of the trace that are not actions of the machine *)
IsReset(e) == e.ev = "reset"

(* label comparison events (C16): evaluated by the specification's order *)
SignOf(z) == IF z < 0 THEN -1 ELSE IF z > 0 THEN 1 ELSE 0
CmpExpect(e) == [cmp |-> SignOf(LabelCmpProp(e.a, e.b)), canon |-> SignOf(CanonCmpProp(e.a, e.b)), eq |-> e.a = e.b]

(* ---- attribution: a trace recorded for the check of property Prop is judged only on the aspects that property ----
   ---- talks about (a change that breaks another property must not raise an alarm here)                        ---- *)
Prop == IF "PROP" \in DOMAIN IOEnv THEN IOEnv.PROP ELSE ""
AllAspects == {"kind", "err", "bytes", "cb", "ret", "val"}
DecodeProps == {"C08", "C09", "C10", "C18"}
(* Aspects:  kind / bytes / cb / ret / val = that field of the observation equals the specification's;                      *)
(*           nopanic = the call returned;  orig = the retained protected-header byte strings (at every nesting level) equal *)
(* Properties that are not about "the outcome is what the specification computes" are judged by their own predicates in   *)
(* Consume (PROPFAIL) rather than by comparing observations: C07 (fixed point of the crate's own outputs), C12 (duplicate  *)
(* labels), C13 (exactly one item), C14 (tags), C15 (integer range).                                                      *)
Aspects(e) ==
  IF Prop = "" THEN AllAspects
  ELSE IF Prop = "C01" THEN {"nopanic"}
  ELSE IF e.ev = "decode" \/ e.ev = "decode_value" THEN
    (CASE Prop \in DecodeProps \cup {"C11", "C20"} -> {"kind", "val"}
       [] Prop = "C06" -> {"kind"}
       [] Prop = "C02" -> {"orig"}
       [] Prop = "C14" -> (IF e.ev = "decode" /\ e.api = "tagged" THEN {"kind", "val"} ELSE {})
       [] OTHER -> {})
  ELSE IF e.ev = "encode" THEN
    (CASE Prop \in {"C02", "C20"} -> {"kind", "bytes"}
       [] Prop = "C06" -> {"kind"}
       [] Prop = "C14" -> (IF e.api = "tagged" THEN {"kind", "bytes"} ELSE {})
       [] Prop \in {"C11", "C18"} -> {"kind", "bytes"}
       [] OTHER -> {})
  ELSE IF e.ev \in {"tbs", "verify", "struct"} THEN
    (CASE Prop \in {"C03", "C04", "C05"} -> {"kind", "bytes", "cb", "ret"}
       [] Prop = "C02" -> {"kind", "protslots"}          \* of a structure, C02 owns the protected slots only (the rest is C03-C05's)
       [] Prop = "C06" -> {"kind", "ret", "cbhead"}        \* the bytes themselves belong to C03-C05; C06 is the RELATION (PropRel below)
       [] OTHER -> {})
  ELSE IF e.ev \in {"call", "new", "ctor", "build", "lit"} THEN
    (CASE Prop = "C19" -> {"kind", "val"}
       [] Prop \in {"C03", "C04", "C05"} -> {"kind", "cb"}
       [] Prop = "C06" -> {"kind", "cbhead"}
       [] OTHER -> {})            \* (C11: the builder calls only produce the value that is encoded; what they do is C19's business)
  ELSE IF e.ev = "canonicalize" THEN (IF Prop = "C20" THEN {"kind", "val"} ELSE {})
  ELSE {}

(* a byte-level decode of bytes that are NOT exactly one CBOR item (cut short, or followed by more bytes) is judged by C13 *)
(* alone: the other properties speak about items                                                                        *)
ProtTypes == MsgTypes \cup {"ProtectedHeader", "Header", "SuppPubInfo", "CoseKdfContext"}      \* the types that can hold a protected header
AspectsAt(st, e) ==
  IF Prop = "C02" /\ e.ev = "encode" /\ st.mem.ty \notin ProtTypes THEN {}      \* C02 has nothing to say about a key or a claims set
  ELSE IF e.ev = "decode" /\ e.api # "bstr" /\ Prop \notin {"", "C01", "C13"} /\ st.wire # <<>> /\ ~ReadToValue(st.wire[1]).ok /\ ~ReadToValue(st.wire[1]).gap
  THEN {} ELSE Aspects(e)

(* the retained protected-header byte strings of a value, in a fixed traversal order *)
RECURSIVE OrigsHdr(_)
RECURSIVE OrigsSigs(_)
RECURSIVE OrigsRecips(_)
OrigsProt(p) == <<p.orig>> \o OrigsHdr(p.hdr)
OrigsSig(x) == OrigsProt(x.prot) \o OrigsHdr(x.unprot)
OrigsHdr(h) == OrigsSigs(h.cs)
OrigsSigs(a) == IF a = <<>> THEN <<>> ELSE OrigsSig(a[1]) \o OrigsSigs(Tail(a))
OrigsRecips(a) == IF a = <<>> THEN <<>> ELSE OrigsSig(a[1]) \o OrigsRecips(a[1].recips) \o OrigsRecips(Tail(a))
Origs(ty, v) ==
  CASE ty = "Header" -> OrigsHdr(v)
    [] ty = "ProtectedHeader" -> OrigsProt(v)
    [] ty = "CoseSignature" -> OrigsSig(v)
    [] ty = "CoseRecipient" -> OrigsRecips(<<v>>)
    [] ty = "CoseSign" -> OrigsSig(v) \o OrigsSigs(v.sigs)
    [] ty \in {"CoseSign1", "CoseMac0", "CoseEncrypt0"} -> OrigsSig(v)
    [] ty \in {"CoseMac", "CoseEncrypt"} -> OrigsSig(v) \o OrigsRecips(v.recips)
    [] ty = "SuppPubInfo" -> OrigsProt(v.prot)
    [] ty = "CoseKdfContext" -> OrigsProt(v.pub.prot)
    [] OTHER -> <<>>

(* the structure bytes an observation carries (returned by tbs / struct, or handed to the closure), and their protected slots *)
StructOfObs(x) == IF x.bytes # <<>> THEN <<x.bytes[1]>> ELSE IF x.cb # <<>> THEN <<Last(x.cb)>> ELSE <<>>
ProtSlots(b) ==
  LET r == ReadToValue(b) IN
  IF ~r.ok \/ r.v.t # "array" \/ Len(r.v.a) < 3 THEN <<b>>                \* not a structure at all: compare as it is
  ELSE IF Len(r.v.a) = 5 THEN <<r.v.a[2], r.v.a[3]>> ELSE <<r.v.a[2]>>
MatchObs(e, exp, o, asp) ==
  /\ "kind" \in asp => exp.kind = o.kind
  /\ "nopanic" \in asp => (o.kind = "panic" => exp.kind = "panic")
  /\ ("bytes" \in asp /\ o.kind = "ok" /\ exp.kind = "ok") => exp.bytes = o.bytes
  /\ ("ret" \in asp /\ o.kind = "ok" /\ exp.kind = "ok") => exp.ret = o.ret
  /\ ("cb" \in asp /\ o.kind \in {"ok", "err"} /\ exp.kind = o.kind) => exp.cb = o.cb
  /\ ("cbhead" \in asp /\ o.kind \in {"ok", "err"} /\ exp.kind = o.kind) =>
        (Len(exp.cb) = Len(o.cb) /\ (exp.cb # <<>> => SubSeq(exp.cb, 1, Len(exp.cb) - 1) = SubSeq(o.cb, 1, Len(o.cb) - 1)))
  /\ ("protslots" \in asp /\ o.kind = "ok" /\ exp.kind = "ok" /\ StructOfObs(exp) # <<>> /\ StructOfObs(o) # <<>>) =>
        ProtSlots(StructOfObs(exp)[1]) = ProtSlots(StructOfObs(o)[1])
  /\ ("val" \in asp /\ o.cmpval /\ o.kind \in {"ok", "err"} /\ exp.kind = o.kind) => exp.val = o.val
  /\ ("orig" \in asp /\ o.cmpval /\ o.kind = "ok" /\ exp.kind = "ok" /\ exp.val # <<>> /\ o.val # <<>>) =>
        Origs(e.ty, exp.val[1]) = Origs(e.ty, o.val[1])

(* ---- the Prop layer evaluated on the recorded execution (Design |= Prop outside the palettes) ---- *)
SameModOps(ty, a, b) ==
  IF ty = "CoseKey" THEN [a EXCEPT !.ops = <<>>] = [b EXCEPT !.ops = <<>>] /\ {a.ops[i] : i \in 1..Len(a.ops)} = {b.ops[i] : i \in 1..Len(b.ops)}
  ELSE IF ty = "CoseKeySet" THEN Len(a) = Len(b) /\ \A k \in 1..Len(a) :
         [a[k] EXCEPT !.ops = <<>>] = [b[k] EXCEPT !.ops = <<>>] /\ {a[k].ops[i] : i \in 1..Len(a[k].ops)} = {b[k].ops[i] : i \in 1..Len(b[k].ops)}
  ELSE a = b
(* decoding (C08/C09/C10/C18): the crate accepts iff the item is well-formed, and the value is ValueOf *)
PropDecode(st, e, o) ==
  LET r == ReadToValue(st.wire[1]) IN
  IF ~r.ok THEN TRUE                 \* bytes that are not exactly one item: C13's business (PropOneItem), not this property's
  ELSE IF e.api = "slice" THEN
    (IF e.ty \in MsgTypes /\ HasEmptyNested(e.ty, r.v) THEN TRUE
     ELSE LET wf == WF(e.ty, e.reg, r.v) IN
          ((o.kind = "ok") <=> wf) /\ (wf /\ o.cmpval => SameModOps(e.ty, o.val[1], ValueOf(e.ty, e.reg, r.v))))
  ELSE IF e.api = "tagged" THEN
    (IF r.v.t = "tag" /\ HasEmptyNested(e.ty, r.v.x) THEN TRUE
     ELSE LET wf == r.v.t = "tag" /\ r.v.tag = MagOfNat(ValueOfName("CborTag", e.ty)) /\ Msg_WF(e.ty, r.v.x) IN
          ((o.kind = "ok") <=> wf) /\ (wf /\ o.cmpval => o.val[1] = Msg_ValueOf(e.ty, r.v.x)))
  ELSE TRUE
(* C13: bytes that are not exactly one item are rejected; trailing bytes after an item with the extraneous-data error *)
PropOneItem(st, e, o) ==
  LET r == ReadToValue(st.wire[1]) IN
  r.ok \/ r.gap \/ (o.kind = "err" /\ (r.err = "ExtraneousData" => o.err = "ExtraneousData"))
(* C12: where the decoder / encoder of the specification reports a duplicate label, so does the crate *)
PropDup(n, o) == (n.out.kind = "err" /\ n.out.err = "DuplicateMapKey") => (o.kind = "err" /\ o.err = "DuplicateMapKey")
(* a value with every retained protected-header byte string blanked (C15 is about the integers, not about retained bytes) *)
RECURSIVE NoOrigHdr(_)
RECURSIVE NoOrigSigs(_)
RECURSIVE NoOrigRecips(_)
NoOrigProt(p) == [orig |-> <<>>, hdr |-> NoOrigHdr(p.hdr)]
NoOrigSig(x) == [x EXCEPT !.prot = NoOrigProt(x.prot), !.unprot = NoOrigHdr(x.unprot)]
NoOrigHdr(h) == [h EXCEPT !.cs = NoOrigSigs(h.cs)]
NoOrigSigs(a) == [i \in 1..Len(a) |-> NoOrigSig(a[i])]
NoOrigRecips(a) == [i \in 1..Len(a) |-> [NoOrigSig(a[i]) EXCEPT !.recips = NoOrigRecips(a[i].recips)]]
NoOrig(ty, v) ==
  CASE ty = "Header" -> NoOrigHdr(v)
    [] ty = "ProtectedHeader" -> NoOrigProt(v)
    [] ty = "CoseSignature" -> NoOrigSig(v)
    [] ty = "CoseRecipient" -> NoOrigRecips(<<v>>)[1]
    [] ty = "CoseSign" -> [NoOrigSig(v) EXCEPT !.sigs = NoOrigSigs(v.sigs)]
    [] ty \in {"CoseSign1", "CoseMac0", "CoseEncrypt0"} -> NoOrigSig(v)
    [] ty \in {"CoseMac", "CoseEncrypt"} -> [NoOrigSig(v) EXCEPT !.recips = NoOrigRecips(v.recips)]
    [] ty = "SuppPubInfo" -> [v EXCEPT !.prot = NoOrigProt(v.prot)]
    [] ty = "CoseKdfContext" -> [v EXCEPT !.pub = [v.pub EXCEPT !.prot = NoOrigProt(v.pub.prot)]]
    [] OTHER -> v
(* C15: where the specification reports an out-of-range integer, so does the crate; accepted values are exact *)
PropRange(e, n, o) ==
  /\ (n.out.kind = "err" /\ n.out.err = "OutOfRangeIntegerValue") => (o.kind = "err" /\ o.err = "OutOfRangeIntegerValue")
  /\ (n.out.kind = "ok" /\ o.kind = "ok" /\ o.cmpval /\ o.val # <<>>) => NoOrig(e.ty, n.mem.val) = NoOrig(e.ty, o.val[1])
(* C14: the untagged decoder of a taggable type rejects every tagged item *)
PropUntagged(st, e, o) ==
  LET r == ReadToValue(st.wire[1]) IN
  (e.api = "slice" /\ e.ty \in MsgTypes /\ r.ok /\ r.v.t = "tag") => o.kind = "err"

(* C06: any two closures of one session were handed equal structure bytes by the crate exactly when the specification says so *)
HasCb(n, o) == n.out.kind = o.kind /\ n.out.cb # <<>> /\ o.cb # <<>>
(* the relation is stated per route: helpers taking a detached payload among themselves, the others among themselves *)
RouteOf(e) == IF "m" \in DOMAIN e /\ e.m \in {"tbs_detached_data", "verify_detached_signature", "create_detached_signature", "try_create_detached_signature",
                                                 "add_detached_signature", "try_add_detached_signature"} THEN "d" ELSE "p"
PropRel(e, n, o) == ~HasCb(n, o) \/ \A i \in 1..Len(rel) : rel[i][3] = RouteOf(e) => ((rel[i][1] = Last(n.out.cb)) = (rel[i][2] = Last(o.cb)))
RelWindow == 40           \* the correspondence is checked against the most recent RelWindow distinct pairs of at most RelMaxLen
RelMaxLen == 2000         \* bytes each (rel is part of every TLC state: it must stay small for validation to stay linear)
NextRel(e, n, o) ==
  IF ~HasCb(n, o) \/ Len(Last(n.out.cb)) > RelMaxLen \/ Len(Last(o.cb)) > RelMaxLen THEN rel
  ELSE LET p == <<Last(n.out.cb), Last(o.cb), RouteOf(e)>> IN
       IF \E i \in 1..Len(rel) : rel[i] = p THEN rel
       ELSE IF Len(rel) >= RelWindow THEN Append(Tail(rel), p) ELSE Append(rel, p)

(* fixed point (C07), on the crate's OWN observations: once a decode has succeeded, decoding what the crate's encoder wrote *)
(* gives the same value, and encoding that gives the same bytes                                                        *)
NextFp(st, e, o) ==
  IF e.ev \in {"inject", "truncate", "append", "lit", "new", "call", "build", "canonicalize", "focus"} THEN FpNone
  ELSE IF e.ev = "decode" /\ o.kind = "ok" THEN
    (IF fp.on THEN fp
     ELSE LET r == ReadToValue(st.wire[1]) IN
          [on |-> TRUE, f7 |-> (r.ok /\ HasSmallBignumTag(r.v)), val |-> (IF o.cmpval THEN o.val ELSE <<>>), bytes |-> <<>>])
  ELSE IF e.ev = "decode" THEN FpNone
  ELSE IF e.ev = "encode" /\ fp.on /\ o.kind = "ok" /\ e.api \in {"vec", "tagged"} THEN [fp EXCEPT !.bytes = o.bytes]
  ELSE fp
FpActive == fp.on /\ ~fp.f7 /\ fp.bytes # <<>>

Consume ==
  /\ l <= Len(Rec)
  /\ l' = l + 1
  /\ LET e == Rec[l].e o == Rec[l].o IN
     IF IsReset(e) THEN s' = InitState /\ open' = FALSE /\ fp' = FpNone /\ rel' = rel       \* (rel spans sessions: the correspondence is global)
     ELSE IF e.ev = "cmp" THEN
       /\ UNCHANGED <<s, open, fp, rel>>
       /\ (CmpExpect(e) = [cmp |-> o.cmp, canon |-> o.canon, eq |-> o.eq]
           \/ PrintT(<<"MISMATCH", l, "cmp", ToJson([expect |-> CmpExpect(e), event |-> e])>>))
     ELSE IF open THEN UNCHANGED <<s, open, fp, rel>>                \* this session is no longer followed (see below); wait for the reset
     ELSE
       LET n == Step(s, e) gap == n.out.err = "GAP"
           (* the crate and the specification disagree on whether the call succeeded: from here on they hold different   *)
           (* objects, so the rest of THIS session says nothing more (the disagreement itself is reported below when the  *)
           (* property under check talks about it); following resumes at the next reset                                   *)
           diverged == Obs(n).kind # o.kind
           dec == e.ev = "decode" /\ e.api # "bstr" IN
       /\ s' = n
       /\ open' = (gap \/ diverged)
       /\ fp' = IF gap \/ diverged THEN FpNone ELSE NextFp(s, e, o)
       /\ rel' = IF gap \/ diverged \/ Prop # "C06" THEN rel ELSE NextRel(e, n, o)
       /\ (gap \/ Prop # "C06" \/ PropRel(e, n, o)
           \/ PrintT(<<"PROPFAIL", l, "created-and-verified-bytes-relation", ToJson([event |-> e, design |-> Obs(n)])>>))
       /\ \/ gap                                               \* unjudged
          \/ MatchObs(e, Obs(n), o, IF Prop = "C06" /\ e.ev = "decode" /\ n.out.kind # "ok" THEN {} ELSE AspectsAt(s, e))
                   \* (C06 speaks about parsing back what the builders produced: a wire the specification rejects is not its scenario)
          \/ PrintT(<<"MISMATCH", l, e.ev, ToJson([expect |-> Obs(n), event |-> e])>>)
       /\ (gap \/ n.out.kind # "err" \/ o.kind # "err" \/ n.out.err = o.err
           \/ PrintT(<<"DEVIATION", l, n.out.err, o.err>>))
       (* the (got, want) diagnostic of an UnexpectedItem, where the specification models it: no property pins it *)
       /\ (gap \/ n.out.kind # "err" \/ o.kind # "err" \/ n.out.err # "UnexpectedItem" \/ o.err # "UnexpectedItem"
           \/ n.out.diag = <<>> \/ "diag" \notin DOMAIN o \/ n.out.diag = o.diag
           \/ PrintT(<<"DEVIATION", l, n.out.diag, o.diag>>))
       (* the property predicates themselves, on the execution the crate really performed *)
       /\ (gap \/ ~dec \/ ~(Prop \in DecodeProps \cup {""} \/ (Prop = "C14" /\ e.api = "tagged")) \/ PropDecode(s, e, o)
           \/ PrintT(<<"PROPFAIL", l, "decode", ToJson([event |-> e, design |-> Obs(n)])>>))
       /\ (gap \/ ~dec \/ Prop \notin {"C13", ""} \/ PropOneItem(s, e, o)
           \/ PrintT(<<"PROPFAIL", l, "one-item", ToJson([event |-> e, design |-> Obs(n)])>>))
       /\ (gap \/ e.ev \notin {"decode", "encode"} \/ Prop \notin {"C12", ""} \/ PropDup(n, o)
           \/ PrintT(<<"PROPFAIL", l, "duplicate-label", ToJson([event |-> e, design |-> Obs(n)])>>))
       /\ (gap \/ e.ev # "decode" \/ Prop \notin {"C15", ""} \/ PropRange(e, n, o)
           \/ PrintT(<<"PROPFAIL", l, "integer-range", ToJson([event |-> e, design |-> Obs(n)])>>))
       /\ (gap \/ ~dec \/ Prop \notin {"C14", ""} \/ PropUntagged(s, e, o)
           \/ PrintT(<<"PROPFAIL", l, "untagged-decoder-accepts-tag", ToJson([event |-> e, design |-> Obs(n)])>>))
       /\ (gap \/ e.ev # "decode" \/ Prop \notin {"C07", ""} \/ ~FpActive
           \/ (o.kind = "ok" /\ (o.cmpval /\ fp.val # <<>> => o.val = fp.val))
           \/ PrintT(<<"PROPFAIL", l, "fixedpoint-value", ToJson([event |-> e, design |-> Obs(n)])>>))
       /\ (gap \/ e.ev # "encode" \/ e.api = "bstr" \/ Prop \notin {"C07", ""} \/ ~FpActive
           \/ (o.kind = "ok" /\ o.bytes = fp.bytes)
           \/ PrintT(<<"PROPFAIL", l, "fixedpoint-bytes", ToJson([event |-> e, design |-> Obs(n)])>>))

TraceNext == Consume
TraceSpec == TraceInit /\ [][TraceNext]_tvars

TraceAccepted ==
  IF TLCGet("stats").diameter - 1 = Len(Rec) THEN PrintT(<<"TRACE-ACCEPTED", Len(Rec)>>)
  ELSE PrintT(<<"TRACE-REJECTED", TLCGet("stats").diameter - 1, Len(Rec)>>) /\ FALSE
=============================================================================
